#!/bin/bash
# Entry point of every MANIFEST command.
#   ./run.sh setup                       build harness + hooked p2sh binary (offline)
#   ./run.sh check <id> <quick|thorough> rebuild from /repo's working tree, then run the check
#   ./run.sh replay <file>               re-run one saved case through the same oracle
# Exit codes of `check`: 0 held / 1 VIOLATION / 2 inconclusive (infrastructure).
set -u
cd "$(dirname "$0")"
VERIF=$(pwd)
export CARGO_NET_OFFLINE=true
export P2V_REPO="${P2V_REPO:-/repo}"
TGT="${P2V_TARGET:-$VERIF/target}"
HARNESS_BIN="$TGT/harness/release/p2v"
export P2SH_BIN="$TGT/p2sh-bin/debug/p2sh"

build() {
  # harness (includes the real p2sh modules from $P2V_REPO/src by path; cargo's
  # dep-info makes this a no-op when nothing under /repo/src changed)
  ( cd "$VERIF/harness" && CARGO_TARGET_DIR="$TGT/harness" cargo build --release --offline -q 2>"$TGT/harness-build.log" ) || {
    echo "INCONCLUSIVE: harness build failed (see $TGT/harness-build.log)"; tail -30 "$TGT/harness-build.log"; return 2; }
  # the real binary, dev profile, hooks on
  ( cd "$P2V_REPO" && CARGO_TARGET_DIR="$TGT/p2sh-bin" cargo build --offline -q --features verif_hooks 2>"$TGT/p2sh-build.log" ) || {
    echo "INCONCLUSIVE: p2sh build failed (see $TGT/p2sh-build.log)"; tail -30 "$TGT/p2sh-build.log"; return 2; }
  return 0
}

mkdir -p "$TGT"
cmd="${1:-}"
case "$cmd" in
  setup)
    build || exit 2
    echo "setup ok"
    ;;
  check)
    id="${2:?property id}"; tier="${3:-${VERIF_TIER:-quick}}"
    build || exit 2
    if [ "$tier" = "thorough" ] && [ -f "$VERIF/harness/fuzz/fuzz_targets/$(echo "$id" | tr 'A-Z' 'a-z').rs" ] && [ -z "${P2V_NO_FUZZ:-}" ]; then
      # thorough tier of a property with a coverage-guided target: proptest / enumeration first, then libFuzzer
      "$HARNESS_BIN" check "$id" "$tier"; c1=$?
      "$VERIF/tools/fuzz_stage.sh" "$id"; c2=$?
      if [ $c1 = 1 ] || [ $c2 = 1 ]; then exit 1; fi
      if [ $c1 != 0 ]; then exit $c1; fi
      exit $c2
    fi
    exec "$HARNESS_BIN" check "$id" "$tier"
    ;;
  replay)
    build || exit 2
    exec "$HARNESS_BIN" replay "${2:?replay file}"
    ;;
  *)
    echo "usage: $0 setup | check <id> <quick|thorough> | replay <file>"; exit 2
    ;;
esac
