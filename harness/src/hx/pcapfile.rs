//! Legacy pcap files: generator, serialiser and reference reader (C19, C20).

use super::choices::{mix64, Choices};

pub const MAGIC_US: u32 = 0xA1B2_C3D4;
pub const MAGIC_NS: u32 = 0xA1B2_3C4D;

#[derive(Clone, Debug, PartialEq)]
pub struct GHdr {
    pub magic: u32,
    pub major: u16,
    pub minor: u16,
    pub thiszone: i32,
    pub sigfigs: u32,
    pub snaplen: u32,
    pub linktype: u32,
}

impl GHdr {
    pub fn bytes(&self) -> Vec<u8> {
        let mut b = Vec::with_capacity(24);
        b.extend_from_slice(&self.magic.to_le_bytes());
        b.extend_from_slice(&self.major.to_le_bytes());
        b.extend_from_slice(&self.minor.to_le_bytes());
        b.extend_from_slice(&self.thiszone.to_le_bytes());
        b.extend_from_slice(&self.sigfigs.to_le_bytes());
        b.extend_from_slice(&self.snaplen.to_le_bytes());
        b.extend_from_slice(&self.linktype.to_le_bytes());
        b
    }
    pub fn parse(b: &[u8]) -> Option<GHdr> {
        if b.len() < 24 {
            return None;
        }
        let u32at = |o: usize| u32::from_le_bytes([b[o], b[o + 1], b[o + 2], b[o + 3]]);
        let u16at = |o: usize| u16::from_le_bytes([b[o], b[o + 1]]);
        Some(GHdr { magic: u32at(0), major: u16at(4), minor: u16at(6), thiszone: u32at(8) as i32, sigfigs: u32at(12), snaplen: u32at(16), linktype: u32at(20) })
    }
}

#[derive(Clone, Debug, PartialEq)]
pub struct Rec {
    pub sec: u32,
    pub usec: u32,
    pub wirelen: u32,
    pub data: Vec<u8>,
}

impl Rec {
    pub fn bytes(&self) -> Vec<u8> {
        let mut b = Vec::with_capacity(16 + self.data.len());
        b.extend_from_slice(&self.sec.to_le_bytes());
        b.extend_from_slice(&self.usec.to_le_bytes());
        b.extend_from_slice(&(self.data.len() as u32).to_le_bytes());
        b.extend_from_slice(&self.wirelen.to_le_bytes());
        b.extend_from_slice(&self.data);
        b
    }
}

#[derive(Clone, Debug)]
pub struct PcapFile {
    pub hdr: GHdr,
    pub recs: Vec<Rec>,
}

impl PcapFile {
    pub fn bytes(&self) -> Vec<u8> {
        let mut b = self.hdr.bytes();
        for r in &self.recs {
            b.extend_from_slice(&r.bytes());
        }
        b
    }
    /// offset of the first byte after record i
    pub fn ends(&self) -> Vec<usize> {
        let mut o = 24;
        self.recs
            .iter()
            .map(|r| {
                o += 16 + r.data.len();
                o
            })
            .collect()
    }
}

#[derive(Clone, Debug, PartialEq)]
pub enum End {
    /// the file ends exactly after the last record
    Clean,
    /// fewer than 24 bytes
    ShortGlobalHeader,
    BadMagic(u32),
    /// 1..15 bytes of a record header remain
    ShortRecordHeader,
    /// the record header is complete, its data is not
    ShortData,
    /// caplen of the next record exceeds snaplen
    CaplenExceedsSnaplen,
}

/// reference reader: the complete records before the first problem
pub fn parse(bytes: &[u8]) -> (Option<GHdr>, Vec<Rec>, End) {
    let h = match GHdr::parse(bytes) {
        None => return (None, vec![], End::ShortGlobalHeader),
        Some(h) => h,
    };
    if h.magic != MAGIC_US && h.magic != MAGIC_NS {
        return (None, vec![], End::BadMagic(h.magic));
    }
    let mut recs = Vec::new();
    let mut o = 24;
    loop {
        if o == bytes.len() {
            return (Some(h), recs, End::Clean);
        }
        if bytes.len() - o < 16 {
            return (Some(h), recs, End::ShortRecordHeader);
        }
        let u32at = |p: usize| u32::from_le_bytes([bytes[p], bytes[p + 1], bytes[p + 2], bytes[p + 3]]);
        let caplen = u32at(o + 8);
        if caplen > h.snaplen {
            return (Some(h), recs, End::CaplenExceedsSnaplen);
        }
        if (bytes.len() - o - 16) < caplen as usize {
            return (Some(h), recs, End::ShortData);
        }
        recs.push(Rec { sec: u32at(o), usec: u32at(o + 4), wirelen: u32at(o + 12), data: bytes[o + 16..o + 16 + caplen as usize].to_vec() });
        o += 16 + caplen as usize;
    }
}

pub fn fill(seed: u64, n: usize) -> Vec<u8> {
    let mut out = Vec::with_capacity(n + 8);
    let mut x = seed | 1;
    while out.len() < n {
        x = mix64(x);
        out.extend_from_slice(&x.to_le_bytes());
    }
    out.truncate(n);
    out
}

pub struct GenCfg {
    pub max_records: usize,
    /// allow records above 65535 bytes (with a large snaplen)
    pub huge: bool,
    /// keep the file small (truncation sweeps)
    pub small: bool,
}

pub fn gen_file(c: &mut Choices, cfg: &GenCfg) -> PcapFile {
    let magic = if c.bool() { MAGIC_US } else { MAGIC_NS };
    let (major, minor) = if c.chance(3, 4) { (2, 4) } else { (c.u16(), c.u16()) };
    let thiszone = match c.below(4) {
        0 => 0,
        1 => -3600,
        2 => i32::MIN,
        _ => c.u32() as i32,
    };
    let sigfigs = if c.bool() { 0 } else { c.u32() };
    let linktype = match c.below(5) {
        0 | 1 => 1,
        2 => 0,
        3 => 101,
        _ => c.u32(),
    };
    let nrec = if c.chance(1, 12) { 0 } else { c.below(cfg.max_records + 1) };
    let snap_choice = c.below(7);
    let mut snaplen: u32 = match snap_choice {
        0 => 65535,
        1 => 262144,
        2 => 64 + c.below(2000) as u32,
        3 => u32::MAX,
        4 => 0x7fff_ffff,
        5 => 0, // filled in below: exactly the largest caplen
        _ => 9000 + c.below(60000) as u32,
    };
    if cfg.huge && c.chance(1, 2) {
        snaplen = snaplen.max(300_000);
    }
    let mut recs = Vec::new();
    let mut offset = 24usize;
    for _ in 0..nrec {
        let want: usize = if cfg.small {
            match c.below(6) {
                0 => 0,
                1 => 1,
                2 => c.below(16),
                3 => 14 + c.below(80),
                _ => c.below(200),
            }
        } else {
            match c.below(14) {
                0 => 0,
                1 => 1,
                2 | 3 | 4 => c.below(120),
                5 => 1500,
                // make this record end around a multiple of the reader's 8 KiB buffer
                6 | 7 => {
                    let next = (offset + 16) / 8192 * 8192 + 8192;
                    let end = next as i64 + [-2i64, -1, 0, 1, 2, 15, 16, 17][c.below(8)];
                    (end - offset as i64 - 16).max(0) as usize
                }
                // make the NEXT record's header straddle the boundary
                8 => {
                    let next = (offset + 16) / 8192 * 8192 + 8192;
                    let end = next as i64 - 1 - c.below(15) as i64;
                    (end - offset as i64 - 16).max(0) as usize
                }
                9 => 8192 - 16,
                10 => 8192 + c.below(3),
                11 => 16384 + c.below(20),
                12 => {
                    if cfg.huge {
                        65530 + c.below(70000)
                    } else {
                        20000 + c.below(45000)
                    }
                }
                _ => c.below(3000),
            }
        };
        let caplen = if snap_choice == 5 { want } else { want.min(snaplen as usize) };
        let wirelen = match c.below(4) {
            0 => caplen as u32,
            1 => caplen as u32 + c.below(1000) as u32,
            2 => c.u32(),
            _ => 0,
        };
        let (sec, usec) = match c.below(4) {
            0 => (0, 0),
            1 => (u32::MAX, u32::MAX),
            2 => (1_700_000_000 + c.below(100000) as u32, c.below(1_000_000) as u32),
            _ => (c.u32(), c.u32()),
        };
        let data = fill(c.u64(), caplen);
        offset += 16 + caplen;
        recs.push(Rec { sec, usec, wirelen, data });
    }
    if snap_choice == 5 {
        snaplen = recs.iter().map(|r| r.data.len() as u32).max().unwrap_or(0);
    }
    PcapFile { hdr: GHdr { magic, major, minor, thiszone, sigfigs, snaplen, linktype }, recs }
}

pub fn scratch(name: &str) -> String {
    let dir = std::env::var("P2V_SCRATCH").unwrap_or_else(|_| "/dev/shm/p2v-scratch".into());
    let _ = std::fs::create_dir_all(&dir);
    format!("{}/{}", dir, name)
}
