//! Harness-side AST of p2sh programs and its renderer.  p2sh only ever sees the
//! rendered text, so its scanner and parser are inside the tested path and the
//! oracles never depend on p2sh's own parser.

use serde::{Deserialize, Serialize};

use super::render::{byte_lit, char_lit, float_lit, int_lit};

#[derive(Clone, Debug, Serialize, Deserialize)]
pub enum E {
    Null,
    Bool(bool),
    Int(i64),
    Float(#[serde(with = "fb")] f64),
    Str(String),
    Char(char),
    Byte(u8),
    Id(String),
    Arr(Vec<E>),
    Map(Vec<(E, E)>),
    Un(String, Box<E>),
    Bin(String, Box<E>, Box<E>),
    Idx(Box<E>, Box<E>),
    Call(Box<E>, Vec<E>),
    /// target (Id or Idx) = value
    Assign(Box<E>, Box<E>),
    If(Box<E>, Vec<S>, Option<Box<Else>>),
    Match(Box<E>, Vec<Arm>),
    Fn(Vec<String>, Vec<S>),
    /// transparent marker: records the line the wrapped construct is rendered on
    Mark(Box<E>),
    /// raw text spliced in as-is (used for constructs outside the modelled language)
    Raw(String),
}

mod fb {
    use serde::{Deserialize, Deserializer, Serializer};
    pub fn serialize<S: Serializer>(f: &f64, s: S) -> Result<S::Ok, S::Error> {
        s.serialize_str(&format!("{:?} 0x{:016x}", f, f.to_bits()))
    }
    pub fn deserialize<'de, D: Deserializer<'de>>(d: D) -> Result<f64, D::Error> {
        let s = String::deserialize(d)?;
        let hex = s.rsplit("0x").next().unwrap_or("0");
        u64::from_str_radix(hex, 16).map(f64::from_bits).map_err(serde::de::Error::custom)
    }
}

#[derive(Clone, Debug, Serialize, Deserialize)]
pub enum Else {
    Block(Vec<S>),
    /// else if: the expression must be E::If
    If(E),
}

#[derive(Clone, Debug, Serialize, Deserialize)]
pub enum Pat {
    Int(i64),
    Str(String),
    Char(char),
    Byte(u8),
    Bool(bool),
    /// a..b (exclusive) / a..=b (inclusive); operands are literal patterns
    Range(Box<Pat>, Box<Pat>, bool),
    Default,
}

#[derive(Clone, Debug, Serialize, Deserialize)]
pub struct Arm {
    pub pats: Vec<Pat>,
    /// block body `{ ... }` or a bare expression body
    pub block: Option<Vec<S>>,
    pub expr: Option<E>,
}

#[derive(Clone, Debug, Serialize, Deserialize)]
pub enum S {
    Let(String, E),
    Expr(E),
    Ret(Option<E>),
    Block(Vec<S>),
    While(Option<String>, E, Vec<S>),
    Loop(Option<String>, Vec<S>),
    Break(Option<String>),
    Continue(Option<String>),
    FnDef(String, Vec<String>, Vec<S>),
    /// n blank lines
    Blank(usize),
    /// a comment line ('#' or '//' style)
    Comment(String),
    /// raw statement text (one or more lines), rendered as-is
    Raw(String),
}

pub struct Renderer {
    pub out: String,
    pub line: usize,
    pub marked_line: Option<usize>,
    /// end statements with ';' (always true for generated programs)
    indent: usize,
    /// line terminator
    pub nl: &'static str,
}

impl Renderer {
    pub fn new() -> Self {
        Self { out: String::new(), line: 1, marked_line: None, indent: 0, nl: "\n" }
    }
    fn newline(&mut self) {
        self.out.push_str(self.nl);
        self.line += 1;
    }
    fn push(&mut self, s: &str) {
        for ch in s.chars() {
            if ch == '\n' {
                self.line += 1;
            }
        }
        self.out.push_str(s);
    }
    fn pad(&mut self) {
        for _ in 0..self.indent {
            self.out.push_str("  ");
        }
    }

    pub fn program(&mut self, stmts: &[S]) {
        for s in stmts {
            self.stmt(s);
        }
    }

    fn block(&mut self, stmts: &[S]) {
        self.push("{");
        if stmts.is_empty() {
            self.push(" }");
            return;
        }
        self.newline();
        self.indent += 1;
        for s in stmts {
            self.stmt(s);
        }
        self.indent -= 1;
        self.pad();
        self.push("}");
    }

    pub fn stmt(&mut self, s: &S) {
        match s {
            S::Blank(n) => {
                for _ in 0..*n {
                    self.newline();
                }
                return;
            }
            S::Comment(c) => {
                self.pad();
                self.push(c);
                self.newline();
                return;
            }
            S::Raw(t) => {
                self.pad();
                self.push(t);
                self.newline();
                return;
            }
            _ => {}
        }
        self.pad();
        match s {
            S::Let(n, e) => {
                self.push("let ");
                self.push(n);
                self.push(" = ");
                self.expr_top(e);
                self.push(";");
            }
            S::Expr(e) => {
                self.expr_top(e);
                self.push(";");
            }
            S::Ret(None) => self.push("return;"),
            S::Ret(Some(e)) => {
                self.push("return ");
                self.expr_top(e);
                self.push(";");
            }
            S::Block(b) => self.block(b),
            S::While(l, c, b) => {
                if let Some(l) = l {
                    self.push(l);
                    self.push(": ");
                }
                self.push("while ");
                self.expr_top(c);
                self.push(" ");
                self.block(b);
            }
            S::Loop(l, b) => {
                if let Some(l) = l {
                    self.push(l);
                    self.push(": ");
                }
                self.push("loop ");
                self.block(b);
            }
            S::Break(l) => {
                self.push("break");
                if let Some(l) = l {
                    self.push(" ");
                    self.push(l);
                }
                self.push(";");
            }
            S::Continue(l) => {
                self.push("continue");
                if let Some(l) = l {
                    self.push(" ");
                    self.push(l);
                }
                self.push(";");
            }
            S::FnDef(n, ps, b) => {
                self.push("fn ");
                self.push(n);
                self.push("(");
                self.push(&ps.join(", "));
                self.push(") ");
                self.block(b);
            }
            S::Blank(_) | S::Comment(_) | S::Raw(_) => {}
        }
        self.newline();
    }

    /// expression in a position that needs no parentheses around it
    pub fn expr_top(&mut self, e: &E) {
        self.expr(e, false);
    }

    fn is_atom(e: &E) -> bool {
        match e {
            E::Null | E::Bool(_) | E::Str(_) | E::Id(_) | E::Arr(_) | E::Map(_) | E::Call(..) | E::Idx(..) | E::Raw(_) => true,
            E::Int(i) => *i >= 0,
            E::Float(f) => f.is_finite() && !f.is_sign_negative(),
            E::Char(_) | E::Byte(_) => true,
            E::Mark(inner) => Self::is_atom(inner),
            _ => false,
        }
    }

    /// `paren`: wrap compound expressions in parentheses
    fn expr(&mut self, e: &E, paren: bool) {
        if paren && !Self::is_atom(e) {
            self.push("(");
            self.expr(e, false);
            self.push(")");
            return;
        }
        match e {
            E::Null => self.push("null"),
            E::Bool(b) => self.push(if *b { "true" } else { "false" }),
            E::Int(i) => {
                let s = int_lit(*i);
                self.push(&s)
            }
            E::Float(f) => {
                let s = float_lit(*f);
                self.push(&s)
            }
            E::Str(s) => {
                self.push("\"");
                self.push(s);
                self.push("\"");
            }
            E::Char(c) => {
                let s = char_lit(*c);
                self.push(&s)
            }
            E::Byte(b) => {
                let s = byte_lit(*b);
                self.push(&s)
            }
            E::Id(n) => self.push(n),
            E::Raw(t) => self.push(t),
            E::Arr(xs) => {
                self.push("[");
                for (i, x) in xs.iter().enumerate() {
                    if i > 0 {
                        self.push(", ");
                    }
                    self.expr(x, false);
                }
                self.push("]");
            }
            E::Map(ps) => {
                self.push("map {");
                for (i, (k, v)) in ps.iter().enumerate() {
                    if i > 0 {
                        self.push(", ");
                    }
                    self.expr(k, true);
                    self.push(": ");
                    self.expr(v, false);
                }
                self.push("}");
            }
            E::Un(op, x) => {
                self.push(op);
                self.expr(x, true);
            }
            E::Bin(op, a, b) => {
                self.expr(a, true);
                self.push(" ");
                self.push(op);
                self.push(" ");
                self.expr(b, true);
            }
            E::Idx(a, i) => {
                self.expr(a, true);
                self.push("[");
                self.expr(i, false);
                self.push("]");
            }
            E::Call(f, args) => {
                self.expr(f, true);
                self.push("(");
                for (i, x) in args.iter().enumerate() {
                    if i > 0 {
                        self.push(", ");
                    }
                    self.expr(x, false);
                }
                self.push(")");
            }
            E::Assign(t, v) => {
                // the target must not be parenthesised
                match &**t {
                    E::Idx(a, i) => {
                        self.expr(a, true);
                        self.push("[");
                        self.expr(i, false);
                        self.push("]");
                    }
                    other => self.expr(other, false),
                }
                self.push(" = ");
                // value: an assignment chains without parentheses, anything else is safe bare
                self.expr(v, false);
            }
            E::If(c, t, el) => {
                self.push("if ");
                self.expr(c, true);
                self.push(" ");
                self.block(t);
                match el.as_deref() {
                    None => {}
                    Some(Else::Block(b)) => {
                        self.push(" else ");
                        self.block(b);
                    }
                    Some(Else::If(e2)) => {
                        self.push(" else ");
                        self.expr(e2, false);
                    }
                }
            }
            E::Match(s, arms) => {
                self.push("match ");
                self.expr(s, true);
                self.push(" {");
                self.newline();
                self.indent += 1;
                for a in arms {
                    self.pad();
                    let pats: Vec<String> = a.pats.iter().map(pat_text).collect();
                    self.push(&pats.join(" | "));
                    self.push(" => ");
                    if let Some(b) = &a.block {
                        self.block(b);
                    } else if let Some(x) = &a.expr {
                        self.expr(x, true);
                    }
                    self.push(",");
                    self.newline();
                }
                self.indent -= 1;
                self.pad();
                self.push("}");
            }
            E::Fn(ps, b) => {
                self.push("fn(");
                self.push(&ps.join(", "));
                self.push(") ");
                self.block(b);
            }
            E::Mark(inner) => {
                self.marked_line = Some(self.line);
                self.expr(inner, false);
            }
        }
    }
}

pub fn pat_text(p: &Pat) -> String {
    match p {
        Pat::Int(i) => i.to_string(),
        Pat::Str(s) => format!("\"{}\"", s),
        Pat::Char(c) => format!("'{}'", c),
        Pat::Byte(b) => format!("b'{}'", *b as char),
        Pat::Bool(b) => b.to_string(),
        Pat::Range(a, b, inc) => format!("{}{}{}", pat_text(a), if *inc { "..=" } else { ".." }, pat_text(b)),
        Pat::Default => "_".into(),
    }
}

pub fn render(stmts: &[S]) -> String {
    let mut r = Renderer::new();
    r.program(stmts);
    r.out
}

pub fn render_with_mark(stmts: &[S], nl: &'static str) -> (String, Option<usize>) {
    let mut r = Renderer::new();
    r.nl = nl;
    r.program(stmts);
    (r.out, r.marked_line)
}

pub fn render_expr(e: &E) -> String {
    let mut r = Renderer::new();
    r.expr_top(e);
    r.out
}

/// does the expression mention identifier `n` anywhere (conservative: nested functions included)?
pub fn mentions_e(e: &E, n: &str) -> bool {
    match e {
        E::Id(x) => x == n,
        E::Arr(xs) => xs.iter().any(|x| mentions_e(x, n)),
        E::Map(ps) => ps.iter().any(|(k, v)| mentions_e(k, n) || mentions_e(v, n)),
        E::Un(_, x) | E::Mark(x) => mentions_e(x, n),
        E::Bin(_, a, b) | E::Idx(a, b) | E::Assign(a, b) => mentions_e(a, n) || mentions_e(b, n),
        E::Call(f, args) => mentions_e(f, n) || args.iter().any(|x| mentions_e(x, n)),
        E::If(c, t, el) => {
            mentions_e(c, n)
                || mentions_b(t, n)
                || match el.as_deref() {
                    None => false,
                    Some(Else::Block(b)) => mentions_b(b, n),
                    Some(Else::If(x)) => mentions_e(x, n),
                }
        }
        E::Match(s, arms) => {
            mentions_e(s, n)
                || arms.iter().any(|a| a.block.as_ref().map(|b| mentions_b(b, n)).unwrap_or(false) || a.expr.as_ref().map(|x| mentions_e(x, n)).unwrap_or(false))
        }
        E::Fn(ps, b) => ps.iter().any(|p| p == n) || mentions_b(b, n),
        _ => false,
    }
}

pub fn mentions_b(b: &[S], n: &str) -> bool {
    b.iter().any(|s| mentions_s(s, n))
}

pub fn mentions_s(s: &S, n: &str) -> bool {
    match s {
        S::Let(x, e) => x == n || mentions_e(e, n),
        S::Expr(e) => mentions_e(e, n),
        S::Ret(e) => e.as_ref().map(|x| mentions_e(x, n)).unwrap_or(false),
        S::Block(b) | S::Loop(_, b) => mentions_b(b, n),
        S::While(_, c, b) => mentions_e(c, n) || mentions_b(b, n),
        S::FnDef(x, ps, b) => x == n || ps.iter().any(|p| p == n) || mentions_b(b, n),
        S::Raw(t) => t.contains(n),
        _ => false,
    }
}

// convenience constructors
pub fn id(n: &str) -> E {
    E::Id(n.to_string())
}
pub fn bin(op: &str, a: E, b: E) -> E {
    E::Bin(op.to_string(), Box::new(a), Box::new(b))
}
pub fn un(op: &str, a: E) -> E {
    E::Un(op.to_string(), Box::new(a))
}
pub fn call(f: &str, args: Vec<E>) -> E {
    E::Call(Box::new(id(f)), args)
}
pub fn idx(a: E, i: E) -> E {
    E::Idx(Box::new(a), Box::new(i))
}
pub fn assign(t: E, v: E) -> E {
    E::Assign(Box::new(t), Box::new(v))
}
