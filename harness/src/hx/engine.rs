//! Check engine: per-shard context, proptest driver over choice sequences,
//! panic capture, worker/parent protocol, evidence and known-findings logic.

use std::cell::RefCell;
use std::collections::{BTreeMap, HashSet};
use std::panic::{self, AssertUnwindSafe};
use std::path::{Path, PathBuf};
use std::sync::Once;

use proptest::prelude::*;
use proptest::test_runner::{Config, RngAlgorithm, TestCaseError, TestError, TestRng, TestRunner};
use serde::{Deserialize, Serialize};
use serde_json::{json, Value};

use super::choices::mix64;

pub const VERIF_DIR: &str = "/verif";

#[derive(Clone, Copy, PartialEq, Eq, Debug)]
pub enum Tier {
    Quick,
    Thorough,
}

impl Tier {
    pub fn name(&self) -> &'static str {
        match self {
            Tier::Quick => "quick",
            Tier::Thorough => "thorough",
        }
    }
    /// pick a work size per tier
    pub fn pick<T>(&self, quick: T, thorough: T) -> T {
        match self {
            Tier::Quick => quick,
            Tier::Thorough => thorough,
        }
    }
}

#[derive(Clone, Debug, Serialize, Deserialize)]
pub struct Violation {
    /// narrow signature used to match known findings
    pub sig: String,
    /// which part of the check produced it (used to dispatch a replay)
    pub section: String,
    /// human readable: expected vs got
    pub detail: String,
    /// the (shrunk) case, replayable through the property's `replay`
    pub case: Value,
}

impl Violation {
    pub fn new(section: &str, sig: impl Into<String>, detail: impl Into<String>, case: Value) -> Self {
        Self { sig: sig.into(), section: section.to_string(), detail: detail.into(), case }
    }
}

#[derive(Clone, Debug, Serialize, Deserialize)]
pub struct Finding {
    pub property: String,
    pub id: String,
    /// "open" or "fixed"
    pub status: String,
    #[serde(default)]
    pub commit: Option<String>,
    pub signature: String,
    /// path (relative to /verif) of the stored replay case
    #[serde(default)]
    pub replay: Option<String>,
    pub what: String,
}

pub fn load_findings() -> Vec<Finding> {
    let p = Path::new(VERIF_DIR).join("known_findings.json");
    match std::fs::read_to_string(&p) {
        Ok(s) => serde_json::from_str(&s).unwrap_or_else(|e| {
            eprintln!("known_findings.json does not parse: {}", e);
            std::process::exit(2)
        }),
        Err(_) => Vec::new(),
    }
}

/// signatures of the findings listed as open for a property (tolerated so that a search can go on)
pub fn open_signatures(prop: &str) -> Vec<String> {
    load_findings().into_iter().filter(|f| f.property == prop && f.status == "open").map(|f| f.signature).collect()
}

/// Per-shard result, serialised by the worker and merged by the parent.
#[derive(Clone, Debug, Default, Serialize, Deserialize)]
pub struct ShardResult {
    pub evals: u64,
    pub nontrivial: Vec<u64>,
    pub classes: BTreeMap<String, u64>,
    pub samples: Vec<Value>,
    /// first (smallest after shrinking) violation per signature
    pub violations: Vec<Violation>,
    /// signature -> number of cases that hit it
    pub sig_counts: BTreeMap<String, u64>,
    pub excluded: u64,
    pub notes: Vec<String>,
    /// infrastructure problems (never a verdict)
    pub infra: Vec<String>,
    pub exhaustive_sections: Vec<String>,
    /// non-trivial cases of enumerated sections that are distinct by construction
    #[serde(default)]
    pub nontrivial_counted: u64,
}

pub struct Ctx {
    pub prop: String,
    pub tier: Tier,
    pub seed: u64,
    pub shard: usize,
    pub nshards: usize,
    pub res: ShardResult,
    nontrivial: HashSet<u64>,
    /// signatures of open known findings of this property
    pub open_sigs: HashSet<String>,
    /// ids of open known findings (avoidance switches)
    pub open_ids: HashSet<String>,
    /// signatures already reported in this shard (search continues past them)
    seen_sigs: HashSet<String>,
    frozen: bool,
    sample_budget: usize,
    pub strict: bool,
}

impl Ctx {
    pub fn new(prop: &str, tier: Tier, seed: u64, shard: usize, nshards: usize) -> Self {
        let findings = load_findings();
        let mut open_sigs = HashSet::new();
        let mut open_ids = HashSet::new();
        for f in findings.iter().filter(|f| f.property == prop && f.status == "open") {
            open_sigs.insert(f.signature.clone());
            open_ids.insert(f.id.clone());
        }
        Self {
            prop: prop.to_string(),
            tier,
            seed,
            shard,
            nshards,
            res: ShardResult::default(),
            nontrivial: HashSet::new(),
            open_sigs,
            open_ids,
            seen_sigs: HashSet::new(),
            frozen: false,
            sample_budget: 4,
            strict: false,
        }
    }

    /// Is this index of an enumerated work list ours?
    pub fn mine(&self, index: u64) -> bool {
        (index % self.nshards as u64) as usize == self.shard
    }

    /// Count one executed case; `hash` identifies the canonical case.
    pub fn case(&mut self, hash: u64, nontrivial: bool) {
        if self.frozen {
            return;
        }
        self.res.evals += 1;
        if nontrivial {
            self.nontrivial.insert(hash);
        }
    }
    /// Count one executed case of an enumeration whose cases are distinct by
    /// construction (no hash kept: used where the space is too large to hold).
    pub fn case_enum(&mut self, nontrivial: bool) {
        if self.frozen {
            return;
        }
        self.res.evals += 1;
        if nontrivial {
            self.res.nontrivial_counted += 1;
        }
    }
    pub fn class(&mut self, name: &str) {
        if self.frozen {
            return;
        }
        *self.res.classes.entry(name.to_string()).or_insert(0) += 1;
    }
    pub fn class_n(&mut self, name: &str, n: u64) {
        if self.frozen {
            return;
        }
        *self.res.classes.entry(name.to_string()).or_insert(0) += n;
    }
    pub fn excluded(&mut self, n: u64) {
        if self.frozen {
            return;
        }
        self.res.excluded += n;
    }
    /// Keep a few actual cases as samples (fixed positions: early ones of each section).
    pub fn want_sample(&self) -> bool {
        !self.frozen && self.sample_budget > 0
    }
    pub fn sample(&mut self, v: Value) {
        if self.frozen || self.sample_budget == 0 {
            return;
        }
        self.sample_budget -= 1;
        self.res.samples.push(v);
    }
    pub fn more_samples(&mut self, n: usize) {
        self.sample_budget = n;
    }
    pub fn note(&mut self, s: impl Into<String>) {
        if self.frozen {
            return;
        }
        let s = s.into();
        if !self.res.notes.contains(&s) && self.res.notes.len() < 50 {
            self.res.notes.push(s);
        }
    }
    pub fn infra(&mut self, s: impl Into<String>) {
        let s = s.into();
        if self.res.infra.len() < 20 {
            self.res.infra.push(s);
        }
    }
    pub fn exhaustive(&mut self, section: &str) {
        if !self.res.exhaustive_sections.iter().any(|s| s == section) {
            self.res.exhaustive_sections.push(section.to_string());
        }
    }
    pub fn is_open(&self, finding_id: &str) -> bool {
        !self.strict && self.open_ids.contains(finding_id)
    }
    pub fn is_known_sig(&self, sig: &str) -> bool {
        !self.strict && self.open_sigs.contains(sig)
    }

    /// Report a violation found by an enumerated (non-shrinking) section.
    /// Returns true when it is novel (not a listed open finding and not yet seen).
    pub fn report(&mut self, v: Violation) -> bool {
        if self.frozen {
            return false;
        }
        *self.res.sig_counts.entry(v.sig.clone()).or_insert(0) += 1;
        if self.seen_sigs.contains(&v.sig) {
            return false;
        }
        self.seen_sigs.insert(v.sig.clone());
        let novel = !self.open_sigs.contains(&v.sig) || self.strict;
        if self.res.violations.len() < 200 {
            self.res.violations.push(v);
        }
        novel
    }

    pub fn finish(mut self) -> ShardResult {
        self.res.nontrivial = self.nontrivial.into_iter().collect();
        self.res
    }

    pub fn shard_seed(&self, section: &str) -> u64 {
        let mut h = mix64(self.seed ^ 0x5eed_0000_0000_0000);
        h = mix64(h ^ (self.shard as u64) << 17);
        for b in section.bytes() {
            h = mix64(h ^ b as u64);
        }
        h
    }
}

/// Drive a byte-vector strategy through `f` with proptest.  `f` decodes the
/// bytes into a structured case, runs it and returns the violations it saw
/// (empty = held).  Known-finding signatures are counted and tolerated so the
/// search continues; the first novel signature is shrunk by proptest (the
/// shrink only follows inputs that keep the *same* signature) and recorded.
/// After a novel violation the remaining case budget is spent with that
/// signature tolerated too, so one shallow defect does not hide others.
static SHRINK_ITERS: std::sync::atomic::AtomicU32 = std::sync::atomic::AtomicU32::new(3000);

/// checks whose cases are expensive (they spawn processes) shrink less
pub fn set_shrink_iters(n: u32) {
    SHRINK_ITERS.store(n, std::sync::atomic::Ordering::Relaxed);
}

pub fn drive<F>(mut ctx: &mut Ctx, section: &str, cases: u32, min_len: usize, max_len: usize, f: F)
where
    F: Fn(&mut Ctx, &[u8]) -> Vec<Violation>,
{
    if cases == 0 {
        return;
    }
    let mut remaining = cases;
    let mut round = 0u64;
    while remaining > 0 && round < 6 {
        let seed = mix64(ctx.shard_seed(section) ^ round);
        let mut seed_bytes = [0u8; 32];
        for i in 0..4 {
            seed_bytes[i * 8..i * 8 + 8].copy_from_slice(&mix64(seed.wrapping_add(i as u64)).to_le_bytes());
        }
        let rng = TestRng::from_seed(RngAlgorithm::ChaCha, &seed_bytes);
        let config = Config {
            cases: remaining,
            failure_persistence: None,
            max_shrink_iters: SHRINK_ITERS.load(std::sync::atomic::Ordering::Relaxed),
            max_global_rejects: 0,
            verbose: 0,
            ..Config::default()
        };
        let mut runner = TestRunner::new_with_rng(config, rng);
        let strategy = proptest::collection::vec(any::<u8>(), min_len..=max_len);
        let start_evals = ctx.res.evals;
        struct State<'a> {
            ctx: &'a mut Ctx,
            target: Option<String>,
            best: Option<Violation>,
        }
        let st = RefCell::new(State { ctx, target: None, best: None });
        let result = runner.run(&strategy, |bytes| {
            let mut s = st.borrow_mut();
            let s = &mut *s;
            let vs = f(s.ctx, &bytes);
            if let Some(t) = &s.target {
                // shrinking: only the same signature counts as "still failing"
                if let Some(v) = vs.into_iter().find(|v| &v.sig == t) {
                    s.best = Some(v);
                    return Err(TestCaseError::fail("same"));
                }
                return Ok(());
            }
            let mut novel: Option<Violation> = None;
            for v in vs {
                *s.ctx.res.sig_counts.entry(v.sig.clone()).or_insert(0) += 1;
                if s.ctx.seen_sigs.contains(&v.sig) {
                    continue;
                }
                if s.ctx.is_known_sig(&v.sig) {
                    s.ctx.seen_sigs.insert(v.sig.clone());
                    s.ctx.res.violations.push(v);
                    continue;
                }
                if novel.is_none() {
                    novel = Some(v);
                }
            }
            if let Some(v) = novel {
                s.target = Some(v.sig.clone());
                s.best = Some(v);
                s.ctx.frozen = true;
                return Err(TestCaseError::fail("novel"));
            }
            Ok(())
        });
        let State { ctx: c, target: _, best } = st.into_inner();
        ctx = c;
        ctx.frozen = false;
        let used = (ctx.res.evals - start_evals).min(remaining as u64) as u32;
        match result {
            Ok(()) => {
                remaining = 0;
            }
            Err(TestError::Fail(_, _)) => {
                if let Some(v) = best {
                    ctx.seen_sigs.insert(v.sig.clone());
                    ctx.res.violations.push(v);
                }
                remaining = remaining.saturating_sub(used.max(1));
            }
            Err(TestError::Abort(r)) => {
                ctx.infra(format!("proptest aborted in {}: {}", section, r));
                remaining = 0;
            }
        }
        round += 1;
    }
}

// ---------------------------------------------------------------------------
// panic capture
// ---------------------------------------------------------------------------

#[derive(Clone, Debug)]
pub struct PanicInfo {
    pub file: String,
    pub line: u32,
    pub msg: String,
}

thread_local! {
    static LAST_PANIC: RefCell<Option<PanicInfo>> = RefCell::new(None);
    static SRC_CACHE: RefCell<BTreeMap<String, Vec<String>>> = RefCell::new(BTreeMap::new());
}

static HOOK: Once = Once::new();

pub fn install_panic_hook() {
    HOOK.call_once(|| {
        panic::set_hook(Box::new(|info| {
            let (file, line) = match info.location() {
                Some(l) => (l.file().to_string(), l.line()),
                None => ("?".to_string(), 0),
            };
            let msg = if let Some(s) = info.payload().downcast_ref::<&str>() {
                s.to_string()
            } else if let Some(s) = info.payload().downcast_ref::<String>() {
                s.clone()
            } else {
                "panic".to_string()
            };
            if let Ok(mut t) = LAST_PANIC_TEXT.try_lock() {
                *t = format!("{}:{}: {}", file, line, msg);
            }
            LAST_PANIC.with(|p| *p.borrow_mut() = Some(PanicInfo { file, line, msg }));
        }));
    });
}

static LAST_PANIC_TEXT: Mutex<String> = Mutex::new(String::new());

/// description of the most recent panic of any thread (for worker diagnostics)
pub fn last_panic_text() -> String {
    LAST_PANIC_TEXT.lock().map(|s| s.clone()).unwrap_or_default()
}

pub fn repo_dir() -> String {
    std::env::var("P2V_REPO").unwrap_or_else(|_| env!("P2V_REPO_DIR").to_string())
}

/// Run `f`, turning a panic into a value.
pub fn catch<T>(f: impl FnOnce() -> T) -> Result<T, PanicInfo> {
    install_panic_hook();
    LAST_PANIC.with(|p| *p.borrow_mut() = None);
    match panic::catch_unwind(AssertUnwindSafe(f)) {
        Ok(v) => Ok(v),
        Err(_) => Err(LAST_PANIC.with(|p| p.borrow_mut().take()).unwrap_or(PanicInfo {
            file: "?".into(),
            line: 0,
            msg: "panic".into(),
        })),
    }
}

impl PanicInfo {
    /// "panic@src/scanner/mod.rs|<text of the panicking line>|<message class>"
    /// The line *text* (not number) keeps the signature stable under line shifts.
    pub fn signature(&self) -> String {
        let repo = repo_dir();
        let rel = self.file.strip_prefix(&format!("{}/", repo)).unwrap_or(&self.file).to_string();
        let rel = match rel.find("/library/") {
            Some(i) if rel.starts_with("/rustc/") => format!("std:{}", &rel[i + "/library/".len()..]),
            _ => rel,
        };
        let rel = match rel.find("/registry/src/") {
            Some(i) => {
                let tail = &rel[i + "/registry/src/".len()..];
                match tail.find('/') {
                    Some(j) => tail[j + 1..].to_string(),
                    None => tail.to_string(),
                }
            }
            None => rel,
        };
        let text = SRC_CACHE.with(|c| {
            let mut c = c.borrow_mut();
            let lines = c.entry(self.file.clone()).or_insert_with(|| {
                std::fs::read_to_string(&self.file).map(|s| s.lines().map(|l| l.trim().to_string()).collect()).unwrap_or_default()
            });
            lines.get(self.line.saturating_sub(1) as usize).cloned().unwrap_or_default()
        });
        format!("panic@{}|{}|{}", rel, text, msg_class(&self.msg))
    }
    pub fn describe(&self) -> String {
        format!("panicked at {}:{}: {}", self.file, self.line, self.msg)
    }
}

/// Strip the variable parts (numbers) of a panic message.
pub fn msg_class(msg: &str) -> String {
    let mut out = String::new();
    let mut in_num = false;
    // quoted content (token text, values) is case-specific: cut it off
    let msg = msg.split(|c| c == '`' || c == '\'').next().unwrap_or("");
    for ch in msg.chars().take(60) {
        if ch.is_ascii_digit() {
            if !in_num {
                out.push('#');
                in_num = true;
            }
        } else {
            in_num = false;
            out.push(ch);
        }
    }
    out
}

// ---------------------------------------------------------------------------
// worker plumbing
// ---------------------------------------------------------------------------

/// Redirect the process's stdout and stderr to /dev/null (the tested code
/// prints); returns a dup of the original stderr for diagnostics.
pub fn silence_stdio() -> i32 {
    if std::env::var_os("P2V_NOSILENCE").is_some() {
        return 2;
    }
    unsafe {
        let keep = libc::dup(2);
        let devnull = libc::open(b"/dev/null\0".as_ptr() as *const libc::c_char, libc::O_WRONLY);
        if devnull >= 0 {
            libc::dup2(devnull, 1);
            libc::dup2(devnull, 2);
            libc::close(devnull);
        }
        let nullin = libc::open(b"/dev/null\0".as_ptr() as *const libc::c_char, libc::O_RDONLY);
        if nullin >= 0 {
            libc::dup2(nullin, 0);
            libc::close(nullin);
        }
        keep
    }
}

pub fn scratch_root() -> PathBuf {
    let base = if Path::new("/dev/shm").is_dir() { "/dev/shm" } else { "/tmp" };
    PathBuf::from(base)
}

pub fn evidence_json(
    prop: &str,
    tier: Tier,
    seed: u64,
    merged: &ShardResult,
    distinct_nontrivial: usize,
    rule: &str,
    assumptions: &[String],
    wall_s: f64,
    novel: usize,
    known: &[String],
    exhaustive: bool,
) -> Value {
    json!({
        "property_id": prop,
        "tier": tier.name(),
        "seed": seed,
        "level": "exploration",
        "coverage": {
            "evaluations": merged.evals,
            "distinct_nontrivial": distinct_nontrivial,
            "rule": rule,
            "samples": merged.samples,
            "classes": merged.classes,
            "excluded_by_known_finding": merged.excluded,
            "exhaustive": exhaustive,
            "exhaustive_sections": merged.exhaustive_sections,
            "signature_hits": merged.sig_counts,
            "known_findings_reproduced": known,
            "notes": merged.notes,
        },
        "assumptions": assumptions,
        "wall_s": wall_s,
        "violations": novel,
    })
}

// ---------------------------------------------------------------------------
// heartbeat / hang detection (worker side)
// ---------------------------------------------------------------------------

use std::sync::atomic::{AtomicU64, Ordering};
use std::sync::Mutex;

static BEAT: AtomicU64 = AtomicU64::new(0);
static CURRENT: Mutex<(String, String, String)> = Mutex::new((String::new(), String::new(), String::new()));

/// Record the case about to be executed (section, key of the case JSON, payload)
/// so that a hang or a native crash leaves the culprit behind.
pub fn guard(section: &str, key: &str, payload: &str) {
    BEAT.fetch_add(1, Ordering::Relaxed);
    if let Ok(mut c) = CURRENT.lock() {
        c.0.clear();
        c.0.push_str(section);
        c.1.clear();
        c.1.push_str(key);
        c.2.clear();
        c.2.push_str(payload);
    }
}
static HANG_LIMIT_SECS: AtomicU64 = AtomicU64::new(30);

/// Seconds without a heartbeat after which the worker declares a hang.  Checks
/// whose single cases are legitimately long (C14 limit programs) raise it.
pub fn set_hang_limit(secs: u64) {
    HANG_LIMIT_SECS.store(secs, Ordering::Relaxed);
}
pub fn hang_limit() -> u64 {
    HANG_LIMIT_SECS.load(Ordering::Relaxed)
}

pub fn beat() {
    BEAT.fetch_add(1, Ordering::Relaxed);
}
pub fn beat_count() -> u64 {
    BEAT.load(Ordering::Relaxed)
}
pub fn current_case() -> (String, String, String) {
    CURRENT.lock().map(|c| c.clone()).unwrap_or_default()
}

// ---------------------------------------------------------------------------
// native crash capture (worker side): SIGABRT / SIGSEGV / SIGBUS handler that
// leaves the current case behind for the parent.
// ---------------------------------------------------------------------------

use std::sync::atomic::AtomicI32;

static CRASH_FD: AtomicI32 = AtomicI32::new(-1);

extern "C" fn crash_handler(sig: libc::c_int) {
    // async-signal context: no allocation, no locks that may be held
    unsafe {
        let fd = CRASH_FD.load(Ordering::Relaxed);
        if fd >= 0 {
            let w = |b: &[u8]| {
                libc::write(fd, b.as_ptr() as *const libc::c_void, b.len());
            };
            w(b"signal ");
            let digits = [b'0' + (sig / 10 % 10) as u8, b'0' + (sig % 10) as u8];
            w(&digits);
            w(b"\n");
            if let Ok(c) = CURRENT.try_lock() {
                w(c.0.as_bytes());
                w(b"\n");
                w(c.1.as_bytes());
                w(b"\n");
                w(c.2.as_bytes());
            }
        }
        libc::_exit(5);
    }
}

/// Install the crash handler; `path` receives "signal N\n<section>\n<key>\n<payload>".
pub fn install_crash_capture(path: &str) {
    unsafe {
        let cpath = std::ffi::CString::new(path).unwrap();
        let fd = libc::open(cpath.as_ptr(), libc::O_WRONLY | libc::O_CREAT | libc::O_TRUNC, 0o644);
        CRASH_FD.store(fd, Ordering::Relaxed);
        // alternate stack so a stack overflow can still be reported
        let size = 1 << 16;
        let stack = libc::mmap(
            std::ptr::null_mut(),
            size,
            libc::PROT_READ | libc::PROT_WRITE,
            libc::MAP_PRIVATE | libc::MAP_ANONYMOUS,
            -1,
            0,
        );
        if stack != libc::MAP_FAILED {
            let ss = libc::stack_t { ss_sp: stack, ss_flags: 0, ss_size: size };
            libc::sigaltstack(&ss, std::ptr::null_mut());
        }
        for sig in [libc::SIGABRT, libc::SIGBUS, libc::SIGILL] {
            let mut sa: libc::sigaction = std::mem::zeroed();
            sa.sa_sigaction = crash_handler as usize;
            sa.sa_flags = libc::SA_ONSTACK;
            libc::sigaction(sig, &sa, std::ptr::null_mut());
        }
    }
}

/// Parse a crash file written by the handler into (signal, section, case JSON).
pub fn read_crash_file(path: &Path) -> Option<(String, String, Value)> {
    let s = std::fs::read(path).ok()?;
    let s = String::from_utf8_lossy(&s).to_string();
    let mut it = s.splitn(4, '\n');
    let sig = it.next()?.to_string();
    let section = it.next()?.to_string();
    let key = it.next()?.to_string();
    let payload = it.next().unwrap_or("").to_string();
    if key.is_empty() {
        return None;
    }
    Some((sig, section, json!({ key: payload })))
}
