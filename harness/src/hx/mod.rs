pub mod choices;
pub mod engine;
pub mod ops;
pub mod p2;
pub mod props;
pub mod render;
