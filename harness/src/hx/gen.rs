//! Type-directed generator of p2sh programs over a choice sequence
//! (DESIGN.md §3.1).  Produces the harness AST; p2sh sees only rendered text.

use std::collections::BTreeSet;

use super::ast::*;
use super::choices::Choices;

#[derive(Clone, Debug, PartialEq)]
pub enum Ty {
    Int,
    Float,
    Bool,
    Str,
    Char,
    Byte,
    ArrInt,
    MapIntInt,
    MapStrInt,
    /// function of n int parameters returning the given type
    Fn(usize, Box<Ty>),
    Null,
}

#[derive(Clone, Debug)]
pub struct Var {
    pub name: String,
    pub ty: Ty,
    /// may be the target of generated assignments
    pub assignable: bool,
}

#[derive(Clone)]
pub struct Cfg {
    pub max_stmts: usize,
    pub max_depth: usize,
    pub max_fn_nesting: usize,
    pub max_block_nesting: usize,
    /// per-mille of deliberately ill-typed / failing operations
    pub p_fail: usize,
    /// reuse a handful of names at several depths (C04)
    pub scope_mode: bool,
    pub floats: bool,
    pub maps: bool,
    pub closures: bool,
    pub loops: bool,
    pub matches: bool,
    pub probes: bool,
    pub max_loop_iters: i64,
    /// integer literals include i64 boundaries
    pub int_boundaries: bool,
    /// generate the recursive-function templates
    pub recursion: bool,
    /// branches of value-ifs/match arms may end in a nested block, a let or nothing (C07)
    pub odd_branches: bool,
    /// allow break/continue inside operand positions (C07)
    pub jumps_in_operands: bool,
}

impl Default for Cfg {
    fn default() -> Self {
        Self {
            max_stmts: 24,
            max_depth: 4,
            max_fn_nesting: 3,
            max_block_nesting: 3,
            p_fail: 20,
            scope_mode: false,
            floats: true,
            maps: true,
            closures: true,
            loops: true,
            matches: true,
            probes: true,
            max_loop_iters: 5,
            int_boundaries: true,
            recursion: true,
            odd_branches: false,
            jumps_in_operands: false,
        }
    }
}

struct Frame {
    vars: Vec<Var>,
    fn_boundary: bool,
}

pub struct Gen<'a, 'b> {
    pub c: &'a mut Choices<'b>,
    pub cfg: Cfg,
    frames: Vec<Frame>,
    fn_depth: usize,
    block_depth: usize,
    /// loop labels of the current function, innermost last
    loops: Vec<Vec<Option<String>>>,
    fresh: usize,
    probe_id: i64,
    stmts_left: usize,
    /// return type of the function being generated
    ret_ty: Vec<Ty>,
    pub kinds: BTreeSet<&'static str>,
    /// inject one deliberate fault (statement position, kind); see `faulty`
    pub inject: Option<(usize, u8)>,
    /// which fault was injected
    pub injected: Option<&'static str>,
    /// names declared in blocks that have ended
    dead: Vec<String>,
    /// >0 while generating a block that sits in an operand position: a jump out of it
    /// would leave pending operands behind (that is C07's subject, excluded elsewhere)
    no_jump: usize,
    /// allow break/continue in operand positions (C07 only)
    pub jumps_in_operands: bool,
}

const STRS: &[&str] = &["", "a", "b", "ab", "hello", "é", "x y", "0", "Zz"];
const SCOPE_NAMES: &[&str] = &["a", "b", "c", "d"];

pub fn prologue() -> Vec<S> {
    vec![
        S::Let("obs".into(), E::Arr(vec![])),
        S::FnDef(
            "t".into(),
            vec!["id".into(), "v".into()],
            vec![S::Expr(call("push", vec![id("obs"), id("id")])), S::Expr(id("v"))],
        ),
    ]
}

impl<'a, 'b> Gen<'a, 'b> {
    pub fn new(c: &'a mut Choices<'b>, cfg: Cfg) -> Self {
        let n = cfg.max_stmts;
        Self {
            c,
            cfg,
            frames: vec![Frame { vars: vec![], fn_boundary: false }],
            fn_depth: 0,
            block_depth: 0,
            loops: vec![vec![]],
            fresh: 0,
            probe_id: 100,
            stmts_left: n,
            ret_ty: vec![],
            kinds: BTreeSet::new(),
            inject: None,
            injected: None,
            dead: Vec::new(),
            no_jump: 0,
            jumps_in_operands: false,
        }
    }

    fn kind(&mut self, k: &'static str) {
        self.kinds.insert(k);
    }

    fn fresh_name(&mut self, prefix: &str) -> String {
        self.fresh += 1;
        format!("{}{}", prefix, self.fresh)
    }

    fn new_var_name(&mut self) -> String {
        if self.cfg.scope_mode && self.c.below(4) != 0 {
            self.c.pick(SCOPE_NAMES).to_string()
        } else {
            self.fresh_name("v")
        }
    }

    fn visible(&self) -> Vec<Var> {
        // innermost binding of each name wins
        let mut seen: Vec<String> = Vec::new();
        let mut out = Vec::new();
        for f in self.frames.iter().rev() {
            for v in f.vars.iter().rev() {
                if !seen.contains(&v.name) {
                    seen.push(v.name.clone());
                    out.push(v.clone());
                }
            }
        }
        out
    }

    fn vars_of(&self, ty: &Ty) -> Vec<Var> {
        self.visible().into_iter().filter(|v| &v.ty == ty).collect()
    }

    fn declare(&mut self, name: &str, ty: Ty, assignable: bool) {
        self.frames.last_mut().unwrap().vars.push(Var { name: name.to_string(), ty, assignable });
    }

    fn push_block(&mut self) {
        self.frames.push(Frame { vars: vec![], fn_boundary: false });
        self.block_depth += 1;
    }
    fn pop_block(&mut self) {
        if let Some(f) = self.frames.pop() {
            for v in f.vars {
                self.dead.push(v.name);
            }
        }
        self.block_depth -= 1;
    }

    /// a statement with exactly one of the faults the compiler must reject
    fn faulty(&mut self, kind: u8) -> S {
        let visible: Vec<String> = self.visible().into_iter().map(|v| v.name).collect();
        match kind {
            1 => {
                let dead: Vec<String> = self.dead.iter().filter(|n| !visible.contains(n)).cloned().collect();
                if let Some(n) = dead.last() {
                    self.injected = Some("use-after-block-end");
                    return self.obs_push(id(n));
                }
                self.injected = Some("undefined-name");
                self.obs_push(bin("+", id("zz_undefined"), E::Int(1)))
            }
            2 => {
                if self.in_loop() {
                    self.injected = Some("unknown-label");
                    S::Break(Some("nolabel".into()))
                } else {
                    self.injected = Some("break-outside-loop");
                    S::Break(None)
                }
            }
            3 => {
                if self.in_loop() {
                    self.injected = Some("unknown-label");
                    S::Continue(Some("nolabel".into()))
                } else {
                    self.injected = Some("continue-outside-loop");
                    S::Continue(None)
                }
            }
            4 if self.fn_depth == 0 => {
                self.injected = Some("return-outside-function");
                if self.c.bool() {
                    S::Ret(Some(E::Int(1)))
                } else {
                    S::Ret(None)
                }
            }
            5 => {
                self.injected = Some("mixed-match-patterns");
                let arms = vec![
                    Arm { pats: vec![Pat::Int(1)], block: None, expr: Some(E::Int(1)) },
                    Arm { pats: vec![if self.c.bool() { Pat::Str("a".into()) } else { Pat::Char('a') }], block: None, expr: Some(E::Int(2)) },
                    Arm { pats: vec![Pat::Default], block: None, expr: Some(E::Int(3)) },
                ];
                S::Expr(E::Match(Box::new(E::Int(1)), arms))
            }
            6 => {
                self.injected = Some("use-before-definition");
                let n = self.fresh_name("later");
                let s1 = self.obs_push(id(&n));
                S::Block(vec![]).then(vec![s1, S::Let(n, E::Int(1))])
            }
            _ => {
                self.injected = Some("undefined-name");
                self.obs_push(bin("+", id("zz_undefined"), E::Int(1)))
            }
        }
    }

    // ---------------------------------------------------------------- literals

    fn int_lit(&mut self) -> E {
        let v = match self.c.below(12) {
            0..=6 => self.c.range(0, 9),
            7 | 8 => self.c.range(-5, 40),
            9 => *self.c.pickv(&[255i64, 256, 65535, 65536, 1 << 31, (1 << 31) - 1, -(1 << 31), 1 << 32]),
            _ => {
                if self.cfg.int_boundaries {
                    *self.c.pickv(&[i64::MAX, i64::MIN, i64::MAX - 1, i64::MIN + 1, 1 << 62, -(1 << 62)])
                } else {
                    self.c.range(100, 1000)
                }
            }
        };
        E::Int(v)
    }

    fn float_lit(&mut self) -> E {
        let v = match self.c.below(8) {
            0..=4 => self.c.range(-8, 20) as f64 / 2.0,
            5 => *self.c.pickv(&[0.0, -0.0, 1e10, 1.5e-3, 123456.789, 1e-17, -1e-17, 5e-324, 2.2250738585072014e-308]),
            _ => *self.c.pickv(&[f64::INFINITY, f64::NEG_INFINITY, f64::NAN, 1e308, 9007199254740992.0]),
        };
        E::Float(v)
    }

    fn str_lit(&mut self) -> E {
        E::Str(self.c.pick(STRS).to_string())
    }

    fn probe(&mut self, e: E) -> E {
        if self.cfg.probes && self.c.below(5) == 0 {
            self.probe_id += 1;
            self.kind("probe");
            call("t", vec![E::Int(self.probe_id), e])
        } else {
            e
        }
    }

    // ------------------------------------------------------------- expressions

    pub fn expr(&mut self, ty: &Ty, depth: usize) -> E {
        let e = self.expr_inner(ty, depth);
        if depth > 0 {
            self.probe(e)
        } else {
            e
        }
    }

    fn leaf(&mut self, ty: &Ty) -> E {
        let vars = self.vars_of(ty);
        if !vars.is_empty() && self.c.below(3) != 0 {
            return id(&vars[self.c.below(vars.len())].name);
        }
        match ty {
            Ty::Int => self.int_lit(),
            Ty::Float => self.float_lit(),
            Ty::Bool => E::Bool(self.c.bool()),
            Ty::Str => self.str_lit(),
            Ty::Char => E::Char(*self.c.pickv(&['a', 'b', 'z', 'A', 'é', '0'])),
            Ty::Byte => E::Byte(*self.c.pickv(&[0u8, 1, 65, 97, 127, 128, 255])),
            Ty::ArrInt => {
                let n = self.c.below(4);
                E::Arr((0..n).map(|_| E::Int(self.c.range(0, 9))).collect())
            }
            Ty::MapIntInt => {
                let n = self.c.below(3);
                E::Map((0..n).map(|i| (E::Int(i as i64), E::Int(self.c.range(0, 9)))).collect())
            }
            Ty::MapStrInt => {
                let n = self.c.below(3);
                E::Map((0..n).map(|i| (E::Str(["k", "m", "n"][i].to_string()), E::Int(self.c.range(0, 9)))).collect())
            }
            Ty::Null => E::Null,
            Ty::Fn(n, ret) => self.fn_lit(*n, ret),
        }
    }

    fn fn_lit(&mut self, nparams: usize, ret: &Ty) -> E {
        let params: Vec<String> = (0..nparams).map(|_| self.fresh_name("p")).collect();
        let body = self.fn_body(None, &params, ret);
        self.kind("fn-literal");
        E::Fn(params, body)
    }

    /// body of a function: a few statements then a value of the return type
    fn fn_body(&mut self, own_name: Option<(&str, Ty)>, params: &[String], ret: &Ty) -> Vec<S> {
        self.frames.push(Frame { vars: vec![], fn_boundary: true });
        self.fn_depth += 1;
        self.loops.push(vec![]);
        self.ret_ty.push(ret.clone());
        if let Some((n, t)) = own_name {
            self.declare(n, t, false);
        }
        for p in params {
            self.declare(p, Ty::Int, true);
        }
        self.push_block();
        let mut body = Vec::new();
        let n = if self.fn_depth > self.cfg.max_fn_nesting { 0 } else { self.c.below(4) };
        for _ in 0..n {
            if self.stmts_left == 0 {
                break;
            }
            if let Some(s) = self.stmt() {
                body.push(s);
            }
        }
        let d = self.cfg.max_depth.saturating_sub(1).min(2);
        let v = self.expr(ret, d);
        if self.c.below(4) == 0 {
            body.push(S::Ret(Some(v)));
            self.kind("return");
        } else {
            body.push(S::Expr(v));
        }
        self.pop_block();
        self.ret_ty.pop();
        self.loops.pop();
        self.fn_depth -= 1;
        self.frames.pop();
        body
    }

    fn call_of(&mut self, ret: &Ty, depth: usize) -> Option<E> {
        let cands: Vec<Var> = self.visible().into_iter().filter(|v| matches!(&v.ty, Ty::Fn(_, r) if **r == *ret)).collect();
        if cands.is_empty() {
            return None;
        }
        let f = cands[self.c.below(cands.len())].clone();
        if let Ty::Fn(n, _) = &f.ty {
            let args: Vec<E> = (0..*n).map(|_| self.expr(&Ty::Int, depth.saturating_sub(1))).collect();
            self.kind("call");
            // occasionally a wrong number of arguments (runtime error path)
            if self.c.below(1000) < self.cfg.p_fail / 4 {
                let mut a2 = args.clone();
                a2.push(E::Int(0));
                return Some(E::Call(Box::new(id(&f.name)), a2));
            }
            return Some(E::Call(Box::new(id(&f.name)), args));
        }
        None
    }

    fn small_int(&mut self, depth: usize) -> E {
        if depth == 0 || self.c.bool() {
            E::Int(self.c.range(0, 4))
        } else {
            self.expr(&Ty::Int, depth - 1)
        }
    }

    fn expr_inner(&mut self, ty: &Ty, depth: usize) -> E {
        if depth == 0 {
            return self.leaf(ty);
        }
        // deliberately ill-typed operand now and then
        if self.c.below(1000) < self.cfg.p_fail {
            let other = self.any_ty();
            if &other != ty {
                self.kind("ill-typed");
                return self.leaf(&other);
            }
        }
        let d = depth - 1;
        match ty {
            Ty::Int => match self.c.below(20) {
                0 | 1 => self.leaf(ty),
                2..=5 => {
                    let op = self.c.pick_s(&["+", "-", "*", "+", "-"]);
                    self.kind("arith");
                    bin(op, self.expr(ty, d), self.expr(ty, d))
                }
                6 => {
                    let op = self.c.pick_s(&["/", "%"]);
                    self.kind("div");
                    // divisor usually non-zero
                    let divisor = if self.c.below(8) == 0 { self.expr(ty, d) } else { E::Int(self.c.range(1, 7)) };
                    bin(op, self.expr(ty, d), divisor)
                }
                7 => {
                    let op = self.c.pick_s(&["&", "|", "^"]);
                    self.kind("bitwise");
                    bin(op, self.expr(ty, d), self.expr(ty, d))
                }
                8 => {
                    let op = self.c.pick_s(&["<<", ">>"]);
                    self.kind("shift");
                    bin(op, self.expr(ty, d), E::Int(self.c.range(0, 70)))
                }
                9 => {
                    self.kind("unary");
                    un(self.c.pick_s(&["-", "~"]), self.expr(ty, d))
                }
                10 => {
                    self.kind("len");
                    match self.c.below(3) {
                        0 => call("len", vec![self.expr(&Ty::Str, d)]),
                        1 => call("len", vec![self.expr(&Ty::ArrInt, d)]),
                        _ => {
                            if self.cfg.maps {
                                call("len", vec![self.expr(&Ty::MapIntInt, d)])
                            } else {
                                call("len", vec![self.expr(&Ty::ArrInt, d)])
                            }
                        }
                    }
                }
                11 => {
                    // index into an array literal, mostly in range
                    self.kind("index");
                    let n = 1 + self.c.below(3);
                    let a = E::Arr((0..n).map(|_| self.expr(&Ty::Int, d)).collect());
                    let i = if self.c.below(1000) < self.cfg.p_fail * 2 { self.c.range(-1, 4) } else { self.c.below(n) as i64 };
                    idx(a, E::Int(i))
                }
                12 => match self.call_of(ty, d) {
                    Some(e) => e,
                    None => self.leaf(ty),
                },
                13 => self.if_expr(ty, d),
                14 => {
                    if self.cfg.matches {
                        self.match_expr(ty, d)
                    } else {
                        self.leaf(ty)
                    }
                }
                15 => {
                    // assignment as an expression
                    let vars: Vec<Var> = self.vars_of(ty).into_iter().filter(|v| v.assignable).collect();
                    if vars.is_empty() {
                        self.leaf(ty)
                    } else {
                        self.kind("assign-expr");
                        let v = vars[self.c.below(vars.len())].clone();
                        assign(id(&v.name), self.expr(ty, d))
                    }
                }
                16 => {
                    self.kind("conversion");
                    match self.c.below(4) {
                        0 => call("int", vec![E::Str(self.c.range(-50, 500).to_string())]),
                        1 => call("int", vec![self.expr(&Ty::Char, 0)]),
                        2 => call("int", vec![self.expr(&Ty::Bool, d)]),
                        _ => call("int", vec![self.expr(&Ty::Byte, 0)]),
                    }
                }
                17 => {
                    if self.cfg.maps {
                        // index into a map literal with a key that is present (mostly)
                        self.kind("map-index");
                        let n = 1 + self.c.below(3);
                        let m = E::Map((0..n).map(|i| (E::Int(i as i64), self.expr(&Ty::Int, d))).collect());
                        let k = if self.c.below(1000) < self.cfg.p_fail * 2 { 7 } else { self.c.below(n) as i64 };
                        idx(m, E::Int(k))
                    } else {
                        self.leaf(ty)
                    }
                }
                18 => {
                    self.kind("len");
                    call("len", vec![self.expr(&Ty::ArrInt, d)])
                }
                _ => {
                    // logical operators return operand values
                    self.kind("logical-value");
                    let op = self.c.pick_s(&["&&", "||"]);
                    bin(op, self.expr(ty, d), self.expr(ty, d))
                }
            },
            Ty::Float => {
                if !self.cfg.floats {
                    return self.leaf(ty);
                }
                match self.c.below(6) {
                    0 | 1 => self.leaf(ty),
                    2 | 3 => {
                        let op = self.c.pick_s(&["+", "-", "*", "/"]);
                        self.kind("float-arith");
                        let b = if op == "/" { E::Float(self.c.range(1, 9) as f64 / 2.0) } else { self.expr(ty, d) };
                        bin(op, self.expr(ty, d), b)
                    }
                    4 => {
                        self.kind("mixed-arith");
                        bin(self.c.pick_s(&["+", "-", "*"]), self.expr(&Ty::Int, d), self.expr(ty, d))
                    }
                    _ => {
                        self.kind("conversion");
                        call("float", vec![self.expr(&Ty::Int, d)])
                    }
                }
            }
            Ty::Bool => match self.c.below(12) {
                0 => self.leaf(ty),
                1..=3 => {
                    let op = self.c.pick_s(&["<", "<=", ">", ">=", "==", "!="]);
                    self.kind("compare");
                    bin(op, self.expr(&Ty::Int, d), self.expr(&Ty::Int, d))
                }
                4 => {
                    let op = self.c.pick_s(&["<", "<=", ">", ">=", "==", "!="]);
                    self.kind("compare-str");
                    bin(op, self.expr(&Ty::Str, d), self.expr(&Ty::Str, d))
                }
                5 => {
                    if self.cfg.floats {
                        let op = self.c.pick_s(&["<", "<=", ">", ">=", "==", "!="]);
                        self.kind("compare-mixed");
                        bin(op, self.expr(&Ty::Int, d), self.expr(&Ty::Float, d))
                    } else {
                        self.leaf(ty)
                    }
                }
                6 => {
                    self.kind("not");
                    let t = self.any_ty();
                    un("!", self.expr(&t, d))
                }
                7 | 8 => {
                    self.kind("logical");
                    let op = self.c.pick_s(&["&&", "||"]);
                    bin(op, self.expr(ty, d), self.expr(ty, d))
                }
                9 => {
                    self.kind("equality-any");
                    let t = self.any_ty();
                    bin(self.c.pick_s(&["==", "!="]), self.expr(&t, d), self.expr(&t, d))
                }
                10 => {
                    if self.cfg.maps {
                        self.kind("contains");
                        call("contains", vec![self.expr(&Ty::MapIntInt, d), E::Int(self.c.range(0, 3))])
                    } else {
                        self.leaf(ty)
                    }
                }
                _ => match self.call_of(ty, d) {
                    Some(e) => e,
                    None => self.if_expr(ty, d),
                },
            },
            Ty::Str => match self.c.below(9) {
                0 | 1 => self.leaf(ty),
                2 | 3 => {
                    self.kind("concat");
                    bin("+", self.expr(ty, d), self.expr(ty, d))
                }
                4 => {
                    self.kind("str-repeat");
                    bin("*", self.expr(ty, d), E::Int(self.c.range(0, 3)))
                }
                5 => {
                    self.kind("conversion");
                    call("str", vec![self.expr(&Ty::Int, d)])
                }
                6 => {
                    self.kind("str-builtin");
                    match self.c.below(3) {
                        0 => call("toupper", vec![self.expr(ty, d)]),
                        1 => call("tolower", vec![self.expr(ty, d)]),
                        _ => call("join", vec![call("chars", vec![self.expr(ty, d)])]),
                    }
                }
                7 => self.if_expr(ty, d),
                _ => {
                    self.kind("char-concat");
                    bin("+", self.expr(&Ty::Char, 0), self.expr(&Ty::Char, 0))
                }
            },
            Ty::Char => match self.c.below(4) {
                0 => {
                    self.kind("conversion");
                    call("char", vec![E::Int(self.c.range(65, 122))])
                }
                _ => self.leaf(ty),
            },
            Ty::Byte => match self.c.below(5) {
                0 => {
                    self.kind("conversion");
                    call("byte", vec![E::Int(self.c.range(0, 255))])
                }
                1 => {
                    self.kind("byte-arith");
                    bin(self.c.pick_s(&["+", "-", "*"]), self.expr(ty, d), self.expr(ty, d))
                }
                _ => self.leaf(ty),
            },
            Ty::ArrInt => match self.c.below(8) {
                0 | 1 => self.leaf(ty),
                2 | 3 => {
                    self.kind("array-literal");
                    let n = self.c.below(4);
                    E::Arr((0..n).map(|_| self.expr(&Ty::Int, d)).collect())
                }
                4 => {
                    self.kind("array-concat");
                    bin("+", self.expr(ty, d), self.expr(ty, d))
                }
                5 => {
                    self.kind("sort");
                    call("sort", vec![self.expr(ty, d)])
                }
                6 => match self.call_of(ty, d) {
                    Some(e) => e,
                    None => self.leaf(ty),
                },
                _ => self.if_expr(ty, d),
            },
            Ty::MapIntInt => match self.c.below(4) {
                0 | 1 => self.leaf(ty),
                _ => {
                    self.kind("map-literal");
                    let n = self.c.below(4);
                    E::Map((0..n).map(|_| (E::Int(self.c.range(0, 3)), self.expr(&Ty::Int, d))).collect())
                }
            },
            Ty::MapStrInt => match self.c.below(4) {
                0 | 1 => self.leaf(ty),
                _ => {
                    self.kind("map-literal");
                    let n = self.c.below(3);
                    E::Map((0..n).map(|_| (self.expr(&Ty::Str, 0), self.expr(&Ty::Int, d))).collect())
                }
            },
            Ty::Null => E::Null,
            Ty::Fn(n, ret) => {
                let vars = self.vars_of(ty);
                if !vars.is_empty() && self.c.bool() {
                    id(&vars[self.c.below(vars.len())].name)
                } else if self.cfg.closures && self.fn_depth < self.cfg.max_fn_nesting {
                    self.fn_lit(*n, ret)
                } else if !vars.is_empty() {
                    id(&vars[0].name)
                } else {
                    self.fn_lit(*n, ret)
                }
            }
        }
    }

    fn any_ty(&mut self) -> Ty {
        match self.c.below(10) {
            0..=3 => Ty::Int,
            4 => Ty::Bool,
            5 => Ty::Str,
            6 => {
                if self.cfg.floats {
                    Ty::Float
                } else {
                    Ty::Int
                }
            }
            7 => Ty::ArrInt,
            8 => self.c.pickv(&[Ty::Char, Ty::Byte, Ty::Null]).clone(),
            _ => {
                if self.cfg.maps {
                    Ty::MapIntInt
                } else {
                    Ty::Int
                }
            }
        }
    }

    fn cond(&mut self, depth: usize) -> E {
        // conditions are mostly booleans, sometimes any value (truthiness)
        if self.c.below(5) == 0 {
            let t = self.any_ty();
            self.kind("truthy-cond");
            self.expr(&t, depth)
        } else {
            self.expr(&Ty::Bool, depth)
        }
    }

    /// a block whose value has type `ty`
    fn value_block(&mut self, ty: &Ty, depth: usize) -> Vec<S> {
        self.push_block();
        self.no_jump += 1;
        let mut b = Vec::new();
        if self.block_depth <= self.cfg.max_block_nesting && self.stmts_left > 0 && self.c.below(3) == 0 {
            if let Some(s) = self.stmt() {
                b.push(s);
            }
        }
        if self.cfg.odd_branches && self.c.below(4) == 0 {
            // a branch that does not end in an expression statement (its value is null)
            match self.c.below(4) {
                0 => {}
                1 => {
                    let e = self.expr(ty, depth);
                    b.push(S::Block(vec![S::Expr(e)]));
                }
                2 => {
                    let e = self.expr(ty, depth);
                    let n = self.fresh_name("u");
                    b.push(S::Let(n, e));
                }
                _ => {
                    let e = self.expr(ty, depth);
                    b.push(S::Block(vec![S::Block(vec![S::Expr(e)]), S::Block(vec![])]));
                }
            }
        } else {
            b.push(S::Expr(self.expr(ty, depth)));
        }
        self.no_jump -= 1;
        self.pop_block();
        b
    }

    fn if_expr(&mut self, ty: &Ty, depth: usize) -> E {
        self.kind("if-value");
        let c = self.cond(depth);
        let t = self.value_block(ty, depth);
        let el = match self.c.below(4) {
            0 => {
                // else-if chain
                let c2 = self.cond(depth);
                let t2 = self.value_block(ty, depth);
                let e3 = self.value_block(ty, depth);
                Else::If(E::If(Box::new(c2), t2, Some(Box::new(Else::Block(e3)))))
            }
            _ => Else::Block(self.value_block(ty, depth)),
        };
        E::If(Box::new(c), t, Some(Box::new(el)))
    }

    fn match_expr(&mut self, ty: &Ty, depth: usize) -> E {
        self.kind("match");
        let scrut = self.expr(&Ty::Int, depth);
        // keep the scrutinee in a small range so arms are hit
        let scrut = bin("%", scrut, E::Int(6));
        let narms = 1 + self.c.below(3);
        let mut arms = Vec::new();
        for _ in 0..narms {
            let np = 1 + self.c.below(2);
            let mut pats = Vec::new();
            for _ in 0..np {
                pats.push(match self.c.below(4) {
                    0 => {
                        let a = self.c.range(-1, 4);
                        let b = a + self.c.range(0, 3);
                        if a < 0 {
                            Pat::Int(b.max(0))
                        } else {
                            Pat::Range(Box::new(Pat::Int(a)), Box::new(Pat::Int(b)), self.c.bool())
                        }
                    }
                    _ => Pat::Int(self.c.range(0, 5)),
                });
            }
            let (block, expr) = if self.c.bool() {
                (Some(self.value_block(ty, depth)), None)
            } else {
                (None, Some(self.expr(ty, depth)))
            };
            arms.push(Arm { pats, block, expr });
        }
        // a default arm keeps the match total (so the value has the requested type)
        let (block, expr) = if self.c.bool() { (Some(self.value_block(ty, depth)), None) } else { (None, Some(self.expr(ty, depth))) };
        arms.push(Arm { pats: vec![Pat::Default], block, expr });
        E::Match(Box::new(scrut), arms)
    }

    // -------------------------------------------------------------- statements

    fn obs_push(&mut self, e: E) -> S {
        S::Expr(call("push", vec![id("obs"), e]))
    }

    fn observable_ty(&mut self) -> Ty {
        match self.c.below(10) {
            0..=4 => Ty::Int,
            5 => Ty::Bool,
            6 => Ty::Str,
            7 => Ty::ArrInt,
            8 => {
                if self.cfg.floats {
                    Ty::Float
                } else {
                    Ty::Int
                }
            }
            _ => self.c.pickv(&[Ty::Char, Ty::Byte]).clone(),
        }
    }

    fn block_body(&mut self, max: usize) -> Vec<S> {
        self.push_block();
        let n = 1 + self.c.below(max);
        let mut b = Vec::new();
        for _ in 0..n {
            if self.stmts_left == 0 {
                break;
            }
            if let Some(s) = self.stmt() {
                b.push(s);
            }
        }
        self.pop_block();
        b
    }

    fn in_loop(&self) -> bool {
        !self.loops.last().unwrap().is_empty()
    }

    pub fn stmt(&mut self) -> Option<S> {
        if self.stmts_left == 0 {
            return None;
        }
        self.stmts_left -= 1;
        if let Some((at, kind)) = self.inject {
            if self.stmts_left <= at {
                self.inject = None;
                return Some(self.faulty(kind));
            }
        }
        let depth = self.cfg.max_depth;
        let nested_ok = self.block_depth < self.cfg.max_block_nesting;
        let choice = self.c.below(26);
        Some(match choice {
            0..=4 => {
                // let
                let ty = match self.c.below(12) {
                    0..=4 => Ty::Int,
                    5 => Ty::Str,
                    6 => Ty::ArrInt,
                    7 => Ty::Bool,
                    8 => {
                        if self.cfg.maps {
                            self.c.pickv(&[Ty::MapIntInt, Ty::MapStrInt]).clone()
                        } else {
                            Ty::Int
                        }
                    }
                    9 => {
                        if self.cfg.floats {
                            Ty::Float
                        } else {
                            Ty::Int
                        }
                    }
                    _ => {
                        if self.cfg.closures {
                            let ret = match self.c.below(4) {
                                0 if self.fn_depth + 1 < self.cfg.max_fn_nesting => Ty::Fn(1, Box::new(Ty::Int)),
                                1 => Ty::Bool,
                                2 => Ty::ArrInt,
                                _ => Ty::Int,
                            };
                            Ty::Fn(self.c.below(3), Box::new(ret))
                        } else {
                            Ty::Int
                        }
                    }
                };
                self.kind("let");
                let e = self.expr(&ty, depth);
                let mut name = self.new_var_name();
                // `let x = <expr mentioning x>` is a declared don't-care zone
                if mentions_e(&e, &name) {
                    name = self.fresh_name("v");
                }
                let assignable = !matches!(ty, Ty::Fn(..));
                self.declare(&name, ty, assignable);
                S::Let(name, e)
            }
            5..=7 => {
                // observation
                self.kind("observe");
                let ty = self.observable_ty();
                let e = self.expr(&ty, depth);
                self.obs_push(e)
            }
            8 | 9 => {
                // assignment to a variable
                let vars: Vec<Var> = self.visible().into_iter().filter(|v| v.assignable).collect();
                if vars.is_empty() {
                    let e = self.expr(&Ty::Int, depth);
                    return Some(self.obs_push(e));
                }
                self.kind("assign");
                let v = vars[self.c.below(vars.len())].clone();
                S::Expr(assign(id(&v.name), self.expr(&v.ty, depth)))
            }
            10 => {
                // element assignment
                let arrs = self.vars_of(&Ty::ArrInt);
                let maps = if self.cfg.maps { self.vars_of(&Ty::MapIntInt) } else { vec![] };
                if !maps.is_empty() && self.c.bool() {
                    self.kind("map-assign");
                    let m = maps[self.c.below(maps.len())].clone();
                    S::Expr(assign(idx(id(&m.name), E::Int(self.c.range(0, 3))), self.expr(&Ty::Int, depth)))
                } else if !arrs.is_empty() {
                    self.kind("array-assign");
                    let a = arrs[self.c.below(arrs.len())].clone();
                    let i = self.small_int(1);
                    S::Expr(assign(idx(id(&a.name), i), self.expr(&Ty::Int, depth)))
                } else {
                    let e = self.expr(&Ty::Int, depth);
                    self.obs_push(e)
                }
            }
            11 => {
                // array mutation through builtins
                let arrs = self.vars_of(&Ty::ArrInt);
                if arrs.is_empty() {
                    let e = self.expr(&Ty::ArrInt, depth);
                    return Some(self.obs_push(e));
                }
                self.kind("push-pop");
                let a = arrs[self.c.below(arrs.len())].clone();
                if self.c.below(3) == 0 {
                    // pop only when non-empty (pop on empty is a don't-care)
                    S::Expr(E::If(
                        Box::new(bin(">", call("len", vec![id(&a.name)]), E::Int(0))),
                        vec![self.obs_push(call("pop", vec![id(&a.name)]))],
                        None,
                    ))
                } else {
                    S::Expr(call("push", vec![id(&a.name), self.expr(&Ty::Int, depth)]))
                }
            }
            12 | 13 if nested_ok => {
                // if statement
                self.kind("if-stmt");
                let c = self.cond(depth.min(2));
                let t = self.block_body(3);
                let el = match self.c.below(3) {
                    0 => None,
                    1 => Some(Box::new(Else::Block(self.block_body(3)))),
                    _ => {
                        let c2 = self.cond(depth.min(2));
                        let t2 = self.block_body(2);
                        let e3 = if self.c.bool() { Some(Box::new(Else::Block(self.block_body(2)))) } else { None };
                        Some(Box::new(Else::If(E::If(Box::new(c2), t2, e3))))
                    }
                };
                S::Expr(E::If(Box::new(c), t, el))
            }
            14 | 15 if nested_ok && self.cfg.loops => self.loop_stmt(),
            16 if nested_ok => {
                self.kind("block");
                S::Block(self.block_body(3))
            }
            17 if self.cfg.closures && self.fn_depth < self.cfg.max_fn_nesting => {
                // function statement
                self.kind("fn-stmt");
                let name = if self.cfg.scope_mode && self.c.below(3) == 0 { self.c.pick_s(&["f", "g"]).to_string() } else { self.fresh_name("f") };
                let n = self.c.below(3);
                let ret = match self.c.below(5) {
                    0 => Ty::Bool,
                    1 => Ty::ArrInt,
                    2 => Ty::Str,
                    _ => Ty::Int,
                };
                let params: Vec<String> = (0..n).map(|_| self.fresh_name("p")).collect();
                let fty = Ty::Fn(n, Box::new(ret.clone()));
                let body = self.fn_body(Some((&name, fty.clone())), &params, &ret);
                self.declare(&name, fty, false);
                S::FnDef(name, params, body)
            }
            18 if self.cfg.closures && self.cfg.recursion && self.fn_depth < self.cfg.max_fn_nesting => self.recursive_fn(),
            19 if self.in_loop() && (self.no_jump == 0 || self.jumps_in_operands || self.cfg.jumps_in_operands) => {
                self.kind("break-continue");
                let labels: Vec<Option<String>> = self.loops.last().unwrap().clone();
                let named: Vec<String> = labels.iter().flatten().cloned().collect();
                let label = if !named.is_empty() && self.c.bool() { Some(named[self.c.below(named.len())].clone()) } else { None };
                // guarded so that the rest of the loop body still runs sometimes
                let inner = if self.c.bool() { S::Break(label) } else { S::Continue(label) };
                let c = self.cond(1);
                S::Expr(E::If(Box::new(c), vec![inner], None))
            }
            20 if self.fn_depth > 0 => {
                self.kind("return");
                let rt = self.ret_ty.last().cloned().unwrap_or(Ty::Int);
                let c = self.cond(1);
                let v = self.expr(&rt, 2);
                S::Expr(E::If(Box::new(c), vec![S::Ret(Some(v))], None))
            }
            21 => {
                // match as a statement
                if self.cfg.matches {
                    let e = self.match_expr(&Ty::Int, 2);
                    self.obs_push(e)
                } else {
                    let e = self.expr(&Ty::Int, depth);
                    self.obs_push(e)
                }
            }
            22 => {
                // call for effect
                match self.call_of(&Ty::Int, 2) {
                    Some(e) => S::Expr(e),
                    None => {
                        let e = self.expr(&Ty::Int, depth);
                        self.obs_push(e)
                    }
                }
            }
            23 if self.cfg.closures && self.fn_depth < self.cfg.max_fn_nesting => self.counter_closure(),
            24 => {
                // results that may be null (or fail): observed directly, never used as operands
                self.kind("nullable-observe");
                let e = match self.c.below(7) {
                    0 => call("first", vec![self.expr(&Ty::ArrInt, 2)]),
                    1 => call("last", vec![self.expr(&Ty::ArrInt, 2)]),
                    2 => call("rest", vec![self.expr(&Ty::ArrInt, 2)]),
                    3 => call("get", vec![self.expr(&Ty::ArrInt, 2), self.small_int(1)]),
                    4 if self.cfg.maps => call("get", vec![self.expr(&Ty::MapIntInt, 2), E::Int(self.c.range(0, 3))]),
                    5 if self.cfg.maps => {
                        let m = self.expr(&Ty::MapStrInt, 2);
                        call("get", vec![m, E::Str(self.c.pick_s(&["k", "m", "zz"]).to_string())])
                    }
                    _ => {
                        let a = self.expr(&Ty::ArrInt, 2);
                        idx(a, self.small_int(1))
                    }
                };
                self.obs_push(e)
            }
            _ => {
                self.kind("observe");
                let ty = self.observable_ty();
                let e = self.expr(&ty, depth);
                self.obs_push(e)
            }
        })
    }

    /// counter-driven loops: the increment is the first statement of the body,
    /// so `continue` cannot skip it and every loop terminates.
    fn loop_stmt(&mut self) -> S {
        self.kind("loop");
        let counter = self.fresh_name("i");
        let k = self.c.range(0, self.cfg.max_loop_iters);
        let label = if self.c.below(3) == 0 {
            // sometimes the label of an enclosing loop again: `break L` / `continue L` mean the innermost loop called L
            let named: Vec<String> = self.loops.last().unwrap().iter().flatten().cloned().collect();
            if !named.is_empty() && self.c.below(3) == 0 {
                self.kind("shadowed-label");
                Some(named[self.c.below(named.len())].clone())
            } else {
                Some(self.fresh_name("L"))
            }
        } else {
            None
        };
        let is_while = self.c.bool();
        // the counter lives in a block of its own so sibling loops do not clash
        self.push_block();
        self.declare(&counter, Ty::Int, false);
        self.loops.last_mut().unwrap().push(label.clone());
        self.push_block();
        let mut body = vec![S::Expr(assign(id(&counter), bin("+", id(&counter), E::Int(1))))];
        if !is_while {
            body.push(S::Expr(E::If(Box::new(bin(">", id(&counter), E::Int(k))), vec![S::Break(None)], None)));
        }
        let n = 1 + self.c.below(3);
        for _ in 0..n {
            if self.stmts_left == 0 {
                break;
            }
            if let Some(s) = self.stmt() {
                body.push(s);
            }
        }
        self.pop_block();
        self.loops.last_mut().unwrap().pop();
        self.pop_block();
        let lp = if is_while {
            S::While(label, bin("<", id(&counter), E::Int(k)), body)
        } else {
            S::Loop(label, body)
        };
        S::Block(vec![S::Let(counter, E::Int(0)), lp])
    }

    /// `fn r(n, acc) { if n <= 0 { base } else { ... r(n - 1, ...) } }` and a call
    fn recursive_fn(&mut self) -> S {
        self.kind("recursion");
        let name = self.fresh_name("r");
        let style = self.c.below(5);
        let n0 = self.c.range(0, 6);
        let def = match style {
            0 => S::FnDef(
                name.clone(),
                vec!["n".into()],
                vec![S::Expr(E::If(
                    Box::new(bin("<=", id("n"), E::Int(0))),
                    vec![S::Expr(E::Int(self.c.range(0, 3)))],
                    Some(Box::new(Else::Block(vec![S::Expr(bin(
                        self.c.pick_s(&["+", "*", "-"]),
                        id("n"),
                        E::Call(Box::new(id(&name)), vec![bin("-", id("n"), E::Int(1))]),
                    ))]))),
                ))],
            ),
            1 => S::Let(
                name.clone(),
                E::Fn(
                    vec!["n".into(), "acc".into()],
                    vec![
                        S::Expr(E::If(Box::new(bin("==", id("n"), E::Int(0))), vec![S::Ret(Some(id("acc")))], None)),
                        S::Expr(call("push", vec![id("obs"), id("n")])),
                        S::Expr(E::Call(Box::new(id(&name)), vec![bin("-", id("n"), E::Int(1)), bin("+", id("acc"), id("n"))])),
                    ],
                ),
            ),
            3 => {
                // recursion routed through a helper closure that names the enclosing function
                let helper = S::Let("h".into(), E::Fn(vec!["k".into()], vec![S::Expr(E::Call(Box::new(id(&name)), vec![id("k")]))]));
                let body = vec![
                    helper,
                    S::Expr(E::If(
                        Box::new(bin("<=", id("n"), E::Int(0))),
                        vec![S::Expr(E::Int(self.c.range(0, 3)))],
                        Some(Box::new(Else::Block(vec![S::Expr(bin(
                            self.c.pick_s(&["+", "*"]),
                            id("n"),
                            E::Call(Box::new(id("h")), vec![bin("-", id("n"), E::Int(1))]),
                        ))]))),
                    )),
                ];
                if self.c.bool() {
                    S::FnDef(name.clone(), vec!["n".into()], body)
                } else {
                    S::Let(name.clone(), E::Fn(vec!["n".into()], body))
                }
            }
            4 => {
                // mutual reference through a closure stored in an array, two parameters
                S::FnDef(
                    name.clone(),
                    vec!["n".into(), "d".into()],
                    vec![
                        S::Let("fs".into(), E::Arr(vec![E::Fn(vec!["x".into()], vec![S::Expr(E::Call(Box::new(id(&name)), vec![bin("-", id("x"), id("d")), id("d")]))])])),
                        S::Expr(E::If(
                            Box::new(bin("<=", id("n"), E::Int(0))),
                            vec![S::Expr(id("d"))],
                            Some(Box::new(Else::Block(vec![S::Expr(bin("+", E::Int(1), E::Call(Box::new(idx(id("fs"), E::Int(0))), vec![id("n")])))]))),
                        )),
                    ],
                )
            }
            _ => S::FnDef(
                name.clone(),
                vec!["n".into()],
                vec![S::Expr(E::If(
                    Box::new(bin("<", id("n"), E::Int(2))),
                    vec![S::Expr(id("n"))],
                    Some(Box::new(Else::Block(vec![S::Expr(bin(
                        "+",
                        E::Call(Box::new(id(&name)), vec![bin("-", id("n"), E::Int(1))]),
                        E::Call(Box::new(id(&name)), vec![bin("-", id("n"), E::Int(2))]),
                    ))]))),
                ))],
            ),
        };
        let nparams = if style == 1 { 2 } else { 1 };
        // hidden type: only the template below calls it (a generated call could pass a huge n)
        let _ = nparams;
        self.declare(&name, Ty::Fn(97, Box::new(Ty::Null)), false);
        let callexpr = if style == 4 {
            E::Call(Box::new(id(&name)), vec![E::Int(n0), E::Int(self.c.range(1, 3))])
        } else if style == 1 {
            E::Call(Box::new(id(&name)), vec![E::Int(n0), E::Int(0)])
        } else {
            E::Call(Box::new(id(&name)), vec![E::Int(n0)])
        };
        S::Block(vec![]) // placeholder replaced below
            .then(vec![def, S::Expr(call("push", vec![id("obs"), callexpr]))])
    }

    /// a closure factory whose product keeps private state across calls
    fn counter_closure(&mut self) -> S {
        self.kind("closure-state");
        let mk = self.fresh_name("mk");
        let cn = self.fresh_name("cnt");
        let start = self.c.range(0, 5);
        let step = self.c.range(1, 3);
        let style = self.c.below(7);
        // a parameter spelled like its function hides the function inside the body
        if style >= 5 {
            let f = self.fresh_name("w");
            let k = self.c.range(1, 9);
            let body = vec![S::Expr(bin("+", id(&f), E::Int(k)))];
            let def = if style == 5 { S::FnDef(f.clone(), vec![f.clone()], body) } else { S::Let(f.clone(), E::Fn(vec![f.clone()], body)) };
            self.declare(&f, Ty::Fn(1, Box::new(Ty::Int)), false);
            let v = vec![def, S::Expr(call("push", vec![id("obs"), E::Call(Box::new(id(&f)), vec![E::Int(start)])]))];
            return S::Block(vec![]).then(v);
        }
        let bump = S::Expr(assign(id("n"), bin("+", id("n"), E::Int(step))));
        // where the captured variable lives and what surrounds its assignment inside the closure
        let closure_body = match style {
            1 => vec![bump, S::Block(vec![S::Let("z".into(), id("n"))]), S::Expr(id("n"))],
            2 => vec![S::Block(vec![bump]), S::Expr(id("n"))],
            3 => vec![bump, S::Expr(E::If(Box::new(bin(">", id("n"), E::Int(0))), vec![S::Let("y".into(), E::Int(1))], None)), S::Block(vec![]), S::Expr(id("n"))],
            _ => vec![bump, S::Expr(id("n"))],
        };
        let inner = vec![S::Let("n".into(), id("s")), S::Expr(E::Fn(vec![], closure_body))];
        let outer_body = if style == 1 || style == 3 || style == 4 { vec![S::Block(inner)] } else { inner };
        let def = S::Let(mk.clone(), E::Fn(vec!["s".into()], outer_body));
        self.declare(&mk, Ty::Fn(1, Box::new(Ty::Fn(0, Box::new(Ty::Int)))), false);
        self.declare(&cn, Ty::Fn(0, Box::new(Ty::Int)), false);
        let calls = 1 + self.c.below(3);
        let mut v = vec![def, S::Let(cn.clone(), E::Call(Box::new(id(&mk)), vec![E::Int(start)]))];
        for _ in 0..calls {
            v.push(S::Expr(call("push", vec![id("obs"), E::Call(Box::new(id(&cn)), vec![])])));
        }
        S::Block(vec![]).then(v)
    }

    /// a counter loop of `iters` iterations around generated statements (C07)
    pub fn long_loop(&mut self, iters: i64) -> Vec<S> {
        let counter = self.fresh_name("k");
        self.push_block();
        self.declare(&counter, Ty::Int, false);
        self.loops.last_mut().unwrap().push(None);
        self.push_block();
        let mut body = vec![S::Expr(assign(id(&counter), bin("+", id(&counter), E::Int(1))))];
        let n = 1 + self.c.below(4);
        for _ in 0..n {
            if let Some(s) = self.stmt() {
                push_flat(&mut body, s);
            }
        }
        self.pop_block();
        self.loops.last_mut().unwrap().pop();
        self.pop_block();
        vec![S::Let(counter.clone(), E::Int(0)), S::While(None, bin("<", id(&counter), E::Int(iters)), body)]
    }

    pub fn declare_prologue(&mut self) {
        self.declare("obs", Ty::Fn(99, Box::new(Ty::Null)), false);
        self.declare("t", Ty::Fn(98, Box::new(Ty::Null)), false);
    }

    pub fn set_budget(&mut self, n: usize) {
        self.stmts_left = n;
    }

    /// whole program: prologue, statements, final expression statement
    pub fn program(&mut self) -> Vec<S> {
        let mut p = prologue();
        self.declare("obs", Ty::Fn(99, Box::new(Ty::Null)), false);
        self.declare("t", Ty::Fn(98, Box::new(Ty::Null)), false);
        while self.stmts_left > 0 && !self.c.exhausted() {
            if let Some(s) = self.stmt() {
                push_flat(&mut p, s);
            }
        }
        let ty = self.observable_ty();
        let e = self.expr(&ty, 2);
        p.push(S::Expr(e));
        p
    }
}

/// helper so multi-statement templates can be returned from `stmt()`
trait Then {
    fn then(self, v: Vec<S>) -> S;
}
impl Then for S {
    fn then(self, v: Vec<S>) -> S {
        S::Raw(format!("\u{0}seq{}", serde_json::to_string(&v).unwrap()))
    }
}

/// append a statement, expanding the sequence templates in place
pub fn push_flat(out: &mut Vec<S>, s: S) {
    match s {
        S::Raw(t) if t.starts_with("\u{0}seq") => {
            let v: Vec<S> = serde_json::from_str(&t["\u{0}seq".len()..]).unwrap();
            for x in v {
                push_flat(out, x);
            }
        }
        other => out.push(other),
    }
}

/// expand sequence templates everywhere (they may sit inside nested blocks)
pub fn flatten(stmts: Vec<S>) -> Vec<S> {
    let mut out = Vec::new();
    for s in stmts {
        let s = match s {
            S::Block(b) => S::Block(flatten(b)),
            S::While(l, c, b) => S::While(l, flatten_e(c), flatten(b)),
            S::Loop(l, b) => S::Loop(l, flatten(b)),
            S::FnDef(n, p, b) => S::FnDef(n, p, flatten(b)),
            S::Let(n, e) => S::Let(n, flatten_e(e)),
            S::Expr(e) => S::Expr(flatten_e(e)),
            S::Ret(e) => S::Ret(e.map(flatten_e)),
            other => other,
        };
        push_flat(&mut out, s);
    }
    out
}

fn flatten_e(e: E) -> E {
    match e {
        E::If(c, t, el) => E::If(
            Box::new(flatten_e(*c)),
            flatten(t),
            el.map(|b| {
                Box::new(match *b {
                    Else::Block(x) => Else::Block(flatten(x)),
                    Else::If(x) => Else::If(flatten_e(x)),
                })
            }),
        ),
        E::Match(s, arms) => E::Match(
            Box::new(flatten_e(*s)),
            arms.into_iter().map(|a| Arm { pats: a.pats, block: a.block.map(flatten), expr: a.expr.map(flatten_e) }).collect(),
        ),
        E::Fn(p, b) => E::Fn(p, flatten(b)),
        E::Arr(xs) => E::Arr(xs.into_iter().map(flatten_e).collect()),
        E::Map(ps) => E::Map(ps.into_iter().map(|(k, v)| (flatten_e(k), flatten_e(v))).collect()),
        E::Un(o, x) => E::Un(o, Box::new(flatten_e(*x))),
        E::Bin(o, a, b) => E::Bin(o, Box::new(flatten_e(*a)), Box::new(flatten_e(*b))),
        E::Idx(a, b) => E::Idx(Box::new(flatten_e(*a)), Box::new(flatten_e(*b))),
        E::Call(f, a) => E::Call(Box::new(flatten_e(*f)), a.into_iter().map(flatten_e).collect()),
        E::Assign(t, v) => E::Assign(Box::new(flatten_e(*t)), Box::new(flatten_e(*v))),
        E::Mark(x) => E::Mark(Box::new(flatten_e(*x))),
        other => other,
    }
}

/// Generate a complete program from a choice sequence.
pub fn gen_program(bytes: &[u8], cfg: Cfg) -> (Vec<S>, BTreeSet<&'static str>) {
    let mut c = Choices::new(bytes);
    let mut g = Gen::new(&mut c, cfg);
    let p = g.program();
    let kinds = g.kinds.clone();
    (flatten(p), kinds)
}

/// Generate a program with one deliberate fault injected; returns the fault's name.
pub fn gen_faulty(bytes: &[u8], cfg: Cfg) -> (Vec<S>, Option<&'static str>) {
    let mut c = Choices::new(bytes);
    let kind = c.below(7) as u8;
    let at = c.below(cfg.max_stmts);
    let mut g = Gen::new(&mut c, cfg);
    g.inject = Some((at, kind));
    let p = g.program();
    let inj = g.injected;
    (flatten(p), inj)
}
