//! Shared oracle for program-level properties: run a harness AST through the
//! reference semantics and its rendered text through the real pipeline, and
//! compare compile-time verdict, observation sequence, final value and
//! runtime-error presence/class.

use serde_json::{json, Value};

use super::ast::*;
use super::engine::*;
use super::interp::*;
use super::p2::{run_text, Outcome, Val};

pub struct RefRun {
    pub rejects: Vec<Reject>,
    pub obs: Val,
    /// Ok(final) / Err(class) / None when the reference has no expectation
    pub result: Option<Result<Val, ErrClass>>,
    pub unspecified: Option<String>,
    pub calls: u64,
    pub loop_iters: u64,
    pub both_ways: bool,
    pub steps: u64,
}

pub fn reference(prog: &[S], budget: u64) -> RefRun {
    reference_with(prog, budget, 4096)
}

pub fn reference_with(prog: &[S], budget: u64, max_len: usize) -> RefRun {
    let rejects = static_check(prog);
    let mut r = RefRun { rejects, obs: Val::Null, result: None, unspecified: None, calls: 0, loop_iters: 0, both_ways: false, steps: 0 };
    if !r.rejects.is_empty() {
        return r;
    }
    let mut it = Interp::new(budget);
    it.max_len = max_len;
    let (env, res) = it.run_program(prog);
    r.calls = it.calls;
    r.loop_iters = it.loop_iters;
    r.both_ways = it.branches_taken > 0 && it.branches_skipped > 0;
    r.steps = it.steps;
    r.obs = lookup_global(&env, "obs");
    match res {
        Ok(v) => r.result = Some(Ok(to_val(&v))),
        Err(Stop::Error(c, _)) => r.result = Some(Err(c)),
        Err(Stop::Budget) => r.unspecified = Some("reference step budget exhausted".into()),
        Err(Stop::Unspecified(s)) => r.unspecified = Some(s),
        Err(Stop::Return(_)) => r.unspecified = Some("return at top level".into()),
        Err(Stop::Break(_)) | Err(Stop::Continue(_)) => r.unspecified = Some("stray break/continue".into()),
    }
    r
}

fn lookup_global(env: &Env, name: &str) -> Val {
    // walk the environment for the outermost binding of `name`
    let mut cur = env;
    let mut found = Val::Null;
    while let Some(n) = cur {
        if n_name(n) == name {
            found = to_val(&n_cell(n));
        }
        cur = n_next(n);
    }
    found
}

pub fn err_class_of(msg: &str) -> ErrClass {
    if msg.contains("Division by zero") || msg.contains("Modulo by zero") {
        ErrClass::DivZero
    } else if msg.starts_with("IndexError") {
        ErrClass::Index
    } else if msg.starts_with("KeyError") {
        ErrClass::Key
    } else {
        ErrClass::Other
    }
}

/// short, stable class of a message (numbers and quoted names removed)
pub fn short(msg: &str) -> String {
    let m = msg.split('\'').next().unwrap_or("");
    msg_class(m).trim().chars().take(40).collect()
}

pub struct Verdict {
    pub violations: Vec<Violation>,
    pub compared: bool,
    pub src: String,
    pub p2_tag: String,
}

/// Compare the reference with p2sh on one program.
/// the program left the reference's domain and multiplies (or the reference ran out of budget): running it may
/// ask for gigabytes of memory (integer * string with a count in the billions), which C08's statement excludes
pub fn memory_risk(rr: &RefRun, src: &str) -> bool {
    match rr.unspecified.as_deref() {
        Some("reference step budget exhausted") => true,
        // a container that contains itself: printing it is excluded, hashing / comparing it are recorded findings,
        // each of which ends p2sh with a native stack overflow; the templates of C08 cover them deliberately
        Some(u) if u == SELF_CONTAINING => true,
        Some(u) => u.starts_with("operator * on") || src.contains(" * "),
        None => false,
    }
}

/// The same question for a sequence that is stepped statement by statement the way the REPL does (execution goes
/// on after a statement that failed): the reference steps it the same way; a statement that exhausts the budget or
/// leaves the domain in a program that multiplies makes the whole sequence a possible memory request.
pub fn stepwise_memory_risk(prog: &[S], budget: u64) -> bool {
    let mut it = Interp::new(budget);
    it.max_len = 4096;
    let mut env: Env = None;
    let multiplies = render(prog).contains(" * ");
    for s in prog {
        match it.run_more(std::slice::from_ref(s), &mut env) {
            Ok(_) | Err(Stop::Error(..)) => {}
            Err(Stop::Budget) => return true,
            Err(Stop::Unspecified(u)) => {
                if multiplies || u.starts_with("operator * on") {
                    return true;
                }
            }
            Err(_) => {}
        }
    }
    false
}

pub fn compare(section: &str, prog: &[S], rr: &RefRun) -> Verdict {
    let src = render(prog);
    if rr.unspecified.as_deref() == Some("reference step budget exhausted") {
        // too long / too big for the reference: outside the checked domain, not run
        return Verdict { violations: vec![], compared: false, src, p2_tag: "skipped".into() };
    }
    if rr.unspecified.as_deref().map(|u| u.starts_with("operator * on")).unwrap_or(false) || (rr.unspecified.is_some() && src.contains(" * ")) {
        // an unspecified repetition (integer * string), or any don't-care zone entered by a program that multiplies:
        // from there on the reference no longer knows the sizes, and a repetition count in the billions is a request
        // for gigabytes of memory (excluded by C08's statement): not run
        return Verdict { violations: vec![], compared: false, src, p2_tag: "skipped".into() };
    }
    guard(section, "src", &src);
    let out = run_text(&src);
    let case = || json!({ "prog": prog, "src": src });
    let mut v = Vec::new();
    let mut compared = false;
    let tag = out.tag();
    match &out {
        Outcome::Panic(p) if p.msg.contains("capacity overflow") && rr.unspecified.is_some() => {
            // a request for more memory than can exist, reached after the reference had lost track (excluded)
        }
        Outcome::Panic(p) => {
            v.push(Violation::new(section, p.signature(), format!("p2sh crashed: {}\n{}", p.describe(), src), case()));
        }
        Outcome::ParseErrors(errs) => {
            v.push(Violation::new(
                section,
                format!("parse-error-on-generated-program:{}", short(errs.first().map(|s| s.as_str()).unwrap_or(""))),
                format!("the parser rejected a program rendered from a well-formed AST: {:?}\n{}", errs, src),
                case(),
            ));
        }
        Outcome::CompileError { msg, line } => {
            if rr.rejects.is_empty() {
                v.push(Violation::new(
                    section,
                    format!("rejects-well-formed:{}", short(msg)),
                    format!("the reference accepts this program but the compiler reports [line {}] {}\n{}", line, msg, src),
                    case(),
                ));
            } else {
                compared = true;
            }
        }
        Outcome::Ran(r) => {
            if !rr.rejects.is_empty() {
                v.push(Violation::new(
                    section,
                    format!("accepts-ill-formed:{:?}", reject_kind(&rr.rejects[0])),
                    format!("the compiler must reject this program ({:?}) but it compiled and ran\n{}", rr.rejects, src),
                    case(),
                ));
            } else if let Some(expect) = &rr.result {
                compared = true;
                let p2_obs = &r.g0;
                match (expect, &r.err) {
                    (Ok(fin), None) => {
                        if !rr.obs.same(p2_obs) {
                            v.push(Violation::new(
                                section,
                                "obs-mismatch",
                                format!("observed values differ\n reference: {}\n p2sh:      {}\n{}", rr.obs.show(), p2_obs.show(), src),
                                case(),
                            ));
                        } else if !fin.same(&r.last) && !matches!(fin, Val::Fn) {
                            v.push(Violation::new(
                                section,
                                "final-value-mismatch",
                                format!("final value differs\n reference: {}\n p2sh:      {}\n{}", fin.show(), r.last.show(), src),
                                case(),
                            ));
                        }
                    }
                    (Ok(_), Some((m, l))) => {
                        v.push(Violation::new(
                            section,
                            format!("unexpected-runtime-error:{}", short(m)),
                            format!("the reference evaluates this program without failure but p2sh reports [line {}] {}\n reference obs: {}\n p2sh obs:      {}\n{}", l, m, rr.obs.show(), p2_obs.show(), src),
                            case(),
                        ));
                    }
                    (Err(c), None) => {
                        v.push(Violation::new(
                            section,
                            format!("missing-runtime-error:{:?}", c),
                            format!("the reference evaluation fails ({:?}) but p2sh ran to the end with value {}\n{}", c, r.last.show(), src),
                            case(),
                        ));
                    }
                    (Err(c), Some((m, _))) => {
                        if !rr.obs.same(p2_obs) {
                            v.push(Violation::new(
                                section,
                                "obs-mismatch-before-error",
                                format!("observed values before the runtime error differ\n reference: {}\n p2sh:      {}\n{}", rr.obs.show(), p2_obs.show(), src),
                                case(),
                            ));
                        } else if *c != ErrClass::Other && err_class_of(m) != *c {
                            v.push(Violation::new(
                                section,
                                format!("error-class-mismatch:{:?}", c),
                                format!("expected a {:?} error, p2sh reports: {}\n{}", c, m, src),
                                case(),
                            ));
                        }
                    }
                }
            }
        }
    }
    Verdict { violations: v, compared, src, p2_tag: tag }
}

pub fn reject_kind(r: &Reject) -> &'static str {
    match r {
        Reject::Undefined(_) => "undefined-name",
        Reject::BreakOutsideLoop => "break-outside-loop",
        Reject::ContinueOutsideLoop => "continue-outside-loop",
        Reject::UnknownLabel(_) => "unknown-label",
        Reject::ReturnOutsideFunction => "return-outside-function",
        Reject::MixedMatchPatterns => "mixed-match-patterns",
    }
}

pub fn parse_prog(case: &Value) -> Option<Vec<S>> {
    serde_json::from_value(case["prog"].clone()).ok()
}
