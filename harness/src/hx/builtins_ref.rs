//! Reference contracts of the pure builtins (oracle of C11; used by the
//! reference interpreter).  Taken from docs/language/builtins.md and the
//! property statement, see DESIGN.md Appendix C.

use std::cell::RefCell;
use std::rc::Rc;

use super::interp::{map_insert, rv_eq, to_val, valid_key, would_cycle, ErrClass, Interp, Stop, RV, SELF_CONTAINING};
use super::ops::{self, pred, Expect};
use super::p2::Val;

pub const ALL_BUILTINS: &[&str] = &[
    "len", "puts", "first", "last", "rest", "push", "pop", "get", "contains", "insert", "str", "int", "float", "char", "byte", "time", "exit",
    "flush", "format", "print", "println", "eprint", "eprintln", "round", "sleep", "tolower", "toupper", "open", "read", "write", "read_to_string",
    "decode_utf8", "encode_utf8", "read_line", "input", "get_errno", "strerror", "is_error", "sort", "chars", "join", "rand", "pcap_open",
    "pcap_stream", "pcap_read_next", "pcap_read_all", "pcap_write",
];

/// the builtins property C11 names
pub const PURE: &[&str] = &[
    "len", "first", "last", "rest", "push", "pop", "get", "contains", "insert", "str", "int", "float", "char", "byte", "tolower", "toupper", "sort",
    "chars", "join", "encode_utf8", "decode_utf8", "is_error", "round",
];

pub fn builtin_name(n: &str) -> Option<&'static str> {
    ALL_BUILTINS.iter().find(|b| **b == n).copied()
}
pub fn is_any_builtin(n: &str) -> bool {
    builtin_name(n).is_some()
}
pub fn static_name(n: &str) -> &'static str {
    builtin_name(n).unwrap_or("len")
}

fn err() -> Expect {
    Expect::Error
}
fn is(v: Val) -> Expect {
    Expect::Is(v)
}

fn ascii_lower(s: &str) -> String {
    s.chars().map(|c| c.to_ascii_lowercase()).collect()
}
fn ascii_upper(s: &str) -> String {
    s.chars().map(|c| c.to_ascii_uppercase()).collect()
}

/// canonical decimal integer text
fn canonical_int(s: &str) -> Option<i64> {
    let body = s.strip_prefix('-').unwrap_or(s);
    if body.is_empty() || !body.bytes().all(|b| b.is_ascii_digit()) {
        return None;
    }
    s.parse::<i64>().ok()
}

/// The reference contract of a pure builtin for argument *values* (no
/// aliasing effects; those are modelled in `call_rv`).
pub fn contract(name: &str, args: &[Val]) -> Expect {
    use Val::*;
    let n = args.len();
    match name {
        "len" => match args {
            [Str(s)] => is(Int(s.len() as i64)),
            [Arr(a)] => is(Int(a.len() as i64)),
            [Map(m)] => is(Int(m.len() as i64)),
            _ => err(),
        },
        "first" => match args {
            [Arr(a)] => is(a.first().cloned().unwrap_or(Null)),
            _ => err(),
        },
        "last" => match args {
            [Arr(a)] => is(a.last().cloned().unwrap_or(Null)),
            _ => err(),
        },
        "rest" => match args {
            [Arr(a)] => {
                if a.is_empty() {
                    is(Null)
                } else {
                    is(Arr(a[1..].to_vec()))
                }
            }
            _ => err(),
        },
        "push" => match args {
            // the return value is not documented: anything goes, the effect is checked separately
            [Arr(_), _] => Expect::DontCare,
            _ => err(),
        },
        "pop" => match args {
            [Arr(a)] => match a.last() {
                Some(v) => is(v.clone()),
                None => Expect::DontCare,
            },
            _ => err(),
        },
        "get" => match args {
            [Arr(a), Int(i)] => {
                if *i >= 0 && (*i as usize) < a.len() {
                    is(a[*i as usize].clone())
                } else {
                    is(Null)
                }
            }
            [Arr(_), _] => err(),
            [Map(m), k] => {
                if !valid_key_val(k) {
                    return Expect::DontCare;
                }
                for (k2, v) in m {
                    match ops::lang_eq(k2, k) {
                        Some(true) => return is(v.clone()),
                        Some(false) => {}
                        None => return Expect::DontCare,
                    }
                }
                is(Null)
            }
            _ => err(),
        },
        "contains" => match args {
            [Map(m), k] => {
                if !valid_key_val(k) {
                    return Expect::DontCare;
                }
                for (k2, _) in m {
                    match ops::lang_eq(k2, k) {
                        Some(true) => return is(Bool(true)),
                        Some(false) => {}
                        None => return Expect::DontCare,
                    }
                }
                is(Bool(false))
            }
            _ => err(),
        },
        "insert" => match args {
            [Map(m), k, _] => {
                if !valid_key_val(k) {
                    return Expect::DontCare;
                }
                for (k2, v) in m {
                    match ops::lang_eq(k2, k) {
                        Some(true) => return is(v.clone()),
                        Some(false) => {}
                        None => return Expect::DontCare,
                    }
                }
                is(Null)
            }
            _ => err(),
        },
        "str" => match args {
            [Str(s)] => is(Str(s.clone())),
            [Int(i)] => is(Str(i.to_string())),
            [Char(c)] => is(Str(c.to_string())),
            [Float(f)] => {
                let f = *f;
                if f.is_finite() {
                    pred("a string that float() parses back to the same number", move |v| match v {
                        Str(s) => s.trim().parse::<f64>().map(|g| g == f || (g == 0.0 && f == 0.0)).unwrap_or(false),
                        _ => false,
                    })
                } else {
                    pred("a string", |v| matches!(v, Str(_)))
                }
            }
            [Null] | [Bool(_)] | [Byte(_)] | [Arr(_)] | [Map(_)] => pred("a string", |v| matches!(v, Str(_))),
            [Err(_)] => Expect::DontCare,
            _ => err(),
        },
        "int" => match args {
            [Int(i)] => is(Int(*i)),
            [Str(s)] => match canonical_int(s) {
                Some(i) => is(Int(i)),
                None => {
                    if s.chars().any(|c| c.is_alphabetic()) || s.is_empty() {
                        is(Null)
                    } else {
                        Expect::DontCare
                    }
                }
            },
            [Float(f)] => {
                if f.is_finite() && *f > -9.2e18 && *f < 9.2e18 {
                    is(Int(f.trunc() as i64))
                } else {
                    Expect::DontCare
                }
            }
            [Char(c)] => is(Int(*c as i64)),
            [Byte(b)] => is(Int(*b as i64)),
            [Bool(b)] => is(Int(*b as i64)),
            _ => err(),
        },
        "float" => match args {
            [Float(f)] => is(Float(*f)),
            [Int(i)] => is(Float(*i as f64)),
            [Str(s)] => {
                // texts Rust's Display produces for finite floats must parse back exactly
                let simple = !s.is_empty()
                    && s.bytes().all(|b| b.is_ascii_digit() || b == b'.' || b == b'-' || b == b'e')
                    && s.bytes().any(|b| b.is_ascii_digit());
                if simple {
                    match s.parse::<f64>() {
                        Ok(f) => is(Float(f)),
                        Result::Err(_) => Expect::DontCare,
                    }
                } else if s.chars().all(|c| c.is_alphabetic()) && !["inf", "nan", "infinity"].contains(&s.to_lowercase().as_str()) {
                    is(Null)
                } else {
                    Expect::DontCare
                }
            }
            [Char(c)] => is(Float(*c as u32 as f64)),
            [Byte(b)] => is(Float(*b as f64)),
            [Bool(b)] => is(Float(if *b { 1.0 } else { 0.0 })),
            _ => err(),
        },
        "char" => match args {
            [Char(c)] => is(Char(*c)),
            [Int(i)] => char_of(*i as i128),
            [Float(f)] => {
                if f.is_finite() && *f >= 0.0 && *f < 1.2e6 {
                    char_of(f.trunc() as i128)
                } else {
                    Expect::DontCare
                }
            }
            [Byte(b)] => is(Char(*b as char)),
            [Str(_)] | [Bool(_)] => Expect::DontCare,
            _ => err(),
        },
        "byte" => match args {
            [Byte(b)] => is(Byte(*b)),
            [Int(i)] => {
                if (0..=255).contains(i) {
                    is(Byte(*i as u8))
                } else {
                    Expect::DontCare
                }
            }
            [Float(f)] => {
                if f.is_finite() && *f >= 0.0 && *f < 256.0 {
                    is(Byte(f.trunc() as u8))
                } else {
                    Expect::DontCare
                }
            }
            [Char(c)] => {
                if (*c as u32) < 256 {
                    is(Byte(*c as u32 as u8))
                } else {
                    Expect::DontCare
                }
            }
            [Bool(b)] => is(Byte(*b as u8)),
            [Str(_)] => Expect::DontCare,
            _ => err(),
        },
        "tolower" | "toupper" => {
            let lower = name == "tolower";
            match args {
                [Char(c)] => {
                    let a = if lower { c.to_ascii_lowercase() } else { c.to_ascii_uppercase() };
                    if c.is_ascii() {
                        is(Char(a))
                    } else {
                        let mut opts = vec![Char(*c)];
                        let u: Vec<char> = if lower { c.to_lowercase().collect() } else { c.to_uppercase().collect() };
                        if u.len() == 1 {
                            opts.push(Char(u[0]));
                        }
                        Expect::AnyOf(opts, false)
                    }
                }
                [Byte(b)] => is(Byte(if lower { b.to_ascii_lowercase() } else { b.to_ascii_uppercase() })),
                [Str(s)] => {
                    let a = if lower { ascii_lower(s) } else { ascii_upper(s) };
                    if s.is_ascii() {
                        is(Str(a))
                    } else {
                        let u = if lower { s.to_lowercase() } else { s.to_uppercase() };
                        Expect::AnyOf(vec![Str(a), Str(u)], false)
                    }
                }
                _ => err(),
            }
        }
        "sort" => match args {
            [Arr(a)] => match sorted(a) {
                Some(s) => {
                    let ambiguous = s.windows(2).any(|w| ops::lang_eq(&w[0], &w[1]) == Some(true) && !w[0].same(&w[1]));
                    if ambiguous {
                        let orig = a.clone();
                        pred("a non-decreasing permutation of the argument", move |v| match v {
                            Arr(r) => is_sorted_perm(&orig, r),
                            _ => false,
                        })
                    } else {
                        is(Arr(s))
                    }
                }
                None => Expect::DontCare,
            },
            _ => err(),
        },
        "chars" => match args {
            [Str(s)] => is(Arr(s.chars().map(Char).collect())),
            _ => err(),
        },
        "join" => {
            if n == 0 || n > 2 {
                return err();
            }
            let delim = match args.get(1) {
                None => String::new(),
                Some(Str(d)) => d.clone(),
                Some(Char(c)) => c.to_string(),
                Some(_) => return err(),
            };
            match &args[0] {
                Arr(a) => {
                    let mut parts = Vec::new();
                    for x in a {
                        match x {
                            Char(c) => parts.push(c.to_string()),
                            _ => return err(),
                        }
                    }
                    is(Str(parts.join(&delim)))
                }
                _ => err(),
            }
        }
        "encode_utf8" => match args {
            [Str(s)] => is(Arr(s.bytes().map(Byte).collect())),
            _ => err(),
        },
        "decode_utf8" => match args {
            [Arr(a)] => {
                let mut bytes = Vec::new();
                for x in a {
                    match x {
                        Byte(b) => bytes.push(*b),
                        _ => return err(),
                    }
                }
                match String::from_utf8(bytes) {
                    Ok(s) => is(Str(s)),
                    Result::Err(_) => pred("an error object", |v| matches!(v, Err(_))),
                }
            }
            _ => err(),
        },
        "is_error" => match args {
            [Err(_)] => is(Bool(true)),
            [_] => is(Bool(false)),
            _ => err(),
        },
        "round" => match args {
            [Float(x), Int(p)] => {
                if x.is_finite() && (0..=15).contains(p) && x.abs() < 1e15 {
                    let x = *x;
                    let p = *p;
                    pred("x rounded to p decimal places (ties either way)", move |v| match v {
                        Float(r) => {
                            let unit = 10f64.powi(-(p as i32));
                            let tol = unit * 0.5 * (1.0 + 1e-9) + x.abs() * 4.0 * f64::EPSILON;
                            let near = (r - x).abs() <= tol;
                            // a multiple of the unit to double precision
                            let scaled = r * 10f64.powi(p as i32);
                            let multiple = (scaled - scaled.round()).abs() <= scaled.abs().max(1.0) * 8.0 * f64::EPSILON;
                            near && multiple
                        }
                        _ => false,
                    })
                } else {
                    Expect::DontCare
                }
            }
            [Float(_), _] => err(),
            _ => err(),
        },
        _ => Expect::DontCare,
    }
}

fn char_of(i: i128) -> Expect {
    if (0..=0x10FFFF).contains(&i) {
        match char::from_u32(i as u32) {
            Some(c) => is(Val::Char(c)),
            None => is(Val::Null), // surrogate range
        }
    } else {
        Expect::DontCare
    }
}

fn valid_key_val(v: &Val) -> bool {
    matches!(v, Val::Str(_) | Val::Char(_) | Val::Byte(_) | Val::Int(_) | Val::Float(_) | Val::Bool(_) | Val::Builtin(_) | Val::Arr(_) | Val::Null)
}

/// reference order for mutually comparable values; None when the elements are
/// not mutually comparable (then sort is a don't-care)
fn cmp_vals(a: &Val, b: &Val) -> Option<std::cmp::Ordering> {
    use Val::*;
    match (a, b) {
        (Int(x), Int(y)) => Some(x.cmp(y)),
        (Int(_), Float(_)) | (Float(_), Int(_)) | (Float(_), Float(_)) => {
            let x = match a {
                Int(i) => *i as f64,
                Float(f) => *f,
                _ => 0.0,
            };
            let y = match b {
                Int(i) => *i as f64,
                Float(f) => *f,
                _ => 0.0,
            };
            x.partial_cmp(&y)
        }
        (Str(x), Str(y)) => Some(x.cmp(y)),
        (Char(x), Char(y)) => Some(x.cmp(y)),
        (Byte(x), Byte(y)) => Some(x.cmp(y)),
        _ => None,
    }
}

pub fn sorted(a: &[Val]) -> Option<Vec<Val>> {
    for x in a {
        for y in a {
            cmp_vals(x, y)?;
        }
    }
    let mut v = a.to_vec();
    v.sort_by(|x, y| cmp_vals(x, y).unwrap());
    Some(v)
}

pub fn is_sorted_perm(orig: &[Val], got: &[Val]) -> bool {
    if orig.len() != got.len() {
        return false;
    }
    // multiset equality by identity
    let mut used = vec![false; got.len()];
    for o in orig {
        let mut found = false;
        for (i, g) in got.iter().enumerate() {
            if !used[i] && o.same(g) {
                used[i] = true;
                found = true;
                break;
            }
        }
        if !found {
            return false;
        }
    }
    got.windows(2).all(|w| matches!(cmp_vals(&w[0], &w[1]), Some(std::cmp::Ordering::Less) | Some(std::cmp::Ordering::Equal)))
}

fn rt(msg: &str) -> Stop {
    Stop::Error(ErrClass::Other, msg.to_string())
}

/// display of the values the output models (REPL echo, puts) rely on
pub fn display(v: &RV, quoted: bool) -> Option<String> {
    Some(match v {
        RV::Null => "null".to_string(),
        RV::Bool(b) => b.to_string(),
        RV::Int(i) => i.to_string(),
        RV::Str(s) => {
            if quoted {
                format!("\"{}\"", s)
            } else {
                (**s).clone()
            }
        }
        _ => return None,
    })
}

/// Builtin call inside the reference interpreter (with aliasing effects).
pub fn call_rv(it: &mut Interp, name: &str, args: &[RV]) -> Result<RV, Stop> {
    match (name, args) {
        ("len", [RV::Arr(a)]) => Ok(RV::Int(a.borrow().len() as i64)),
        ("len", [RV::Map(m)]) => Ok(RV::Int(m.borrow().len() as i64)),
        ("len", [RV::Str(s)]) => Ok(RV::Int(s.len() as i64)),
        ("first", [RV::Arr(a)]) => Ok(a.borrow().first().cloned().unwrap_or(RV::Null)),
        ("last", [RV::Arr(a)]) => Ok(a.borrow().last().cloned().unwrap_or(RV::Null)),
        ("rest", [RV::Arr(a)]) => {
            let a = a.borrow();
            if a.is_empty() {
                Ok(RV::Null)
            } else {
                Ok(RV::Arr(Rc::new(RefCell::new(a[1..].to_vec()))))
            }
        }
        ("push", [RV::Arr(a), v]) => {
            if a.borrow().len() > it.max_len {
                return Err(Stop::Budget);
            }
            if would_cycle(Rc::as_ptr(a) as *const (), v) {
                return Err(Stop::Unspecified(SELF_CONTAINING.into()));
            }
            a.borrow_mut().push(v.clone());
            Ok(RV::Null)
        }
        ("pop", [RV::Arr(a)]) => match a.borrow_mut().pop() {
            Some(v) => Ok(v),
            None => Err(Stop::Unspecified("pop on an empty array".into())),
        },
        ("get", [RV::Arr(a), RV::Int(i)]) => {
            let a = a.borrow();
            Ok(if *i >= 0 && (*i as usize) < a.len() { a[*i as usize].clone() } else { RV::Null })
        }
        ("get", [RV::Map(m), k]) if valid_key(k) => {
            for (k2, v) in m.borrow().iter() {
                match rv_eq(k2, k) {
                    Some(true) => return Ok(v.clone()),
                    Some(false) => {}
                    None => return Err(Stop::Unspecified("map key equality".into())),
                }
            }
            Ok(RV::Null)
        }
        ("insert", [RV::Map(m), k, v]) if valid_key(k) => map_insert(m, k.clone(), v.clone()),
        ("sort", [RV::Arr(a)]) => {
            let vals: Vec<Val> = a.borrow().iter().map(to_val).collect();
            match contract("sort", &[Val::Arr(vals.clone())]) {
                Expect::Is(Val::Arr(_)) => {
                    // deterministic: stable sort of the shared elements
                    let mut idx: Vec<usize> = (0..vals.len()).collect();
                    idx.sort_by(|x, y| cmp_vals(&vals[*x], &vals[*y]).unwrap());
                    let old = a.borrow().clone();
                    *a.borrow_mut() = idx.into_iter().map(|i| old[i].clone()).collect();
                    Ok(args[0].clone())
                }
                Expect::Error => Err(rt("sort")),
                _ => Err(Stop::Unspecified("sort of values that are not mutually comparable or have ties".into())),
            }
        }
        ("puts", _) => {
            for a in args {
                match display(a, false) {
                    Some(s) => it.out.push_str(&s),
                    None => return Err(Stop::Unspecified("display of this value kind".into())),
                }
            }
            it.out.push('\n');
            Ok(RV::Null)
        }
        _ => {
            if !PURE.contains(&name) {
                return Err(Stop::Unspecified(format!("builtin {} is not modelled", name)));
            }
            // values are converted only here (conversion of a large shared array on every call is quadratic)
            let vals: Vec<Val> = args.iter().map(to_val).collect();
            match contract(name, &vals) {
                Expect::Is(v) => Ok(super::interp::from_val(&v)),
                Expect::Error => Err(rt(name)),
                Expect::Pred(d, _) if d == "an error object" => Ok(RV::Err("error".into())),
                _ => Err(Stop::Unspecified(format!("builtin {} on these arguments", name))),
            }
        }
    }
}
