//! Reference table for the operators (oracle of C09, used by the reference
//! interpreter).  Written from the property statements and docs/language/operators.md,
//! not from the implementation.  See DESIGN.md Appendix A.

use super::p2::Val;

#[derive(Clone)]
pub enum Expect {
    /// any value satisfying the predicate (description, predicate)
    Pred(String, std::rc::Rc<dyn Fn(&Val) -> bool>),
    /// exactly this value
    Is(Val),
    /// a runtime error
    Error,
    /// any value or a runtime error, never a crash
    DontCare,
    /// one of these values, or (if `or_error`) a runtime error
    AnyOf(Vec<Val>, bool),
}

pub const BINOPS: &[&str] = &[
    "*", "/", "%", "+", "-", "<<", ">>", "&", "^", "|", "==", "!=", "<", ">", "<=", ">=",
];
pub const UNOPS: &[&str] = &["!", "-", "~"];

pub fn is_falsey(v: &Val) -> bool {
    match v {
        Val::Bool(b) => !*b,
        Val::Int(i) => *i == 0,
        Val::Float(f) => *f == 0.0,
        Val::Null => true,
        Val::Char(c) => *c == '\0',
        Val::Byte(b) => *b == 0,
        Val::Str(s) => s.is_empty(),
        Val::Arr(a) => a.is_empty(),
        Val::Map(m) => m.is_empty(),
        _ => false,
    }
}

/// Language equality (`==`).  None = don't care (closures, byte vs int).
pub fn lang_eq(a: &Val, b: &Val) -> Option<bool> {
    Some(match (a, b) {
        (Val::Null, Val::Null) => true,
        (Val::Bool(x), Val::Bool(y)) => x == y,
        (Val::Int(x), Val::Int(y)) => x == y,
        (Val::Int(x), Val::Float(y)) => (*x as f64) == *y,
        (Val::Float(x), Val::Int(y)) => *x == (*y as f64),
        (Val::Float(x), Val::Float(y)) => x == y,
        (Val::Str(x), Val::Str(y)) => x == y,
        (Val::Char(x), Val::Char(y)) => x == y,
        (Val::Byte(x), Val::Byte(y)) => x == y,
        (Val::Byte(_), Val::Int(_)) | (Val::Int(_), Val::Byte(_)) => return None,
        (Val::Byte(_), Val::Float(_)) | (Val::Float(_), Val::Byte(_)) => return None,
        (Val::Builtin(x), Val::Builtin(y)) => x == y,
        (Val::Fn, Val::Fn) => return None,
        (Val::Arr(x), Val::Arr(y)) => {
            if x.len() != y.len() {
                false
            } else {
                let mut all = true;
                for (p, q) in x.iter().zip(y) {
                    match lang_eq(p, q) {
                        Some(true) => {}
                        Some(false) => {
                            all = false;
                            break;
                        }
                        None => return None,
                    }
                }
                all
            }
        }
        (Val::Map(x), Val::Map(y)) => {
            if x.len() != y.len() {
                false
            } else {
                let mut all = true;
                for (k, v) in x {
                    let mut found = false;
                    for (k2, v2) in y {
                        if lang_eq(k, k2)? {
                            found = lang_eq(v, v2)?;
                            break;
                        }
                    }
                    if !found {
                        all = false;
                        break;
                    }
                }
                all
            }
        }
        _ => false,
    })
}

fn num_f64(v: &Val) -> Option<f64> {
    match v {
        Val::Int(i) => Some(*i as f64),
        Val::Float(f) => Some(*f),
        Val::Byte(b) => Some(*b as f64),
        _ => None,
    }
}

fn is_num(v: &Val) -> bool {
    matches!(v, Val::Int(_) | Val::Float(_) | Val::Byte(_))
}

fn bool_is(b: bool) -> Expect {
    Expect::Is(Val::Bool(b))
}

pub fn unop(op: &str, v: &Val) -> Expect {
    match op {
        "!" => bool_is(is_falsey(v)),
        "-" => match v {
            Val::Int(i) => Expect::Is(Val::Int(i.wrapping_neg())),
            Val::Float(f) => Expect::Is(Val::Float(-*f)),
            _ => Expect::Error,
        },
        "~" => match v {
            Val::Int(i) => Expect::Is(Val::Int(!*i)),
            _ => Expect::Error,
        },
        _ => Expect::DontCare,
    }
}

pub fn binop(op: &str, a: &Val, b: &Val) -> Expect {
    use Val::*;
    match op {
        "==" => match lang_eq(a, b) {
            Some(r) => bool_is(r),
            None => Expect::AnyOf(vec![Bool(true), Bool(false)], false),
        },
        "!=" => match lang_eq(a, b) {
            Some(r) => bool_is(!r),
            None => Expect::AnyOf(vec![Bool(true), Bool(false)], false),
        },
        "+" | "-" | "*" | "/" | "%" => arith(op, a, b),
        "<" | ">" | "<=" | ">=" => relational(op, a, b),
        "&" | "|" | "^" | "<<" | ">>" => bitwise(op, a, b),
        _ => Expect::DontCare,
    }
}

fn arith(op: &str, a: &Val, b: &Val) -> Expect {
    use Val::*;
    match (a, b) {
        (Int(x), Int(y)) => int_arith(op, *x, *y),
        (Byte(x), Byte(y)) => match op {
            "+" => Expect::Is(Byte(x.wrapping_add(*y))),
            "-" => Expect::Is(Byte(x.wrapping_sub(*y))),
            "*" => Expect::Is(Byte(x.wrapping_mul(*y))),
            "/" => {
                if *y == 0 {
                    Expect::Error
                } else {
                    Expect::Is(Byte(x / y))
                }
            }
            _ => {
                if *y == 0 {
                    Expect::Error
                } else {
                    Expect::Is(Byte(x % y))
                }
            }
        },
        (Int(x), Byte(y)) => int_arith(op, *x, *y as i64),
        (Byte(x), Int(y)) => int_arith(op, *x as i64, *y),
        _ if is_num(a) && is_num(b) => {
            // at least one float
            let x = num_f64(a).unwrap();
            let y = num_f64(b).unwrap();
            match op {
                "+" => Expect::Is(Float(x + y)),
                "-" => Expect::Is(Float(x - y)),
                "*" => Expect::Is(Float(x * y)),
                "/" => {
                    if y == 0.0 {
                        Expect::Error
                    } else {
                        Expect::Is(Float(x / y))
                    }
                }
                _ => {
                    if y == 0.0 {
                        // IEEE NaN vs "modulo by zero is an error": both accepted
                        Expect::AnyOf(vec![Float(f64::NAN)], true)
                    } else {
                        Expect::Is(Float(x % y))
                    }
                }
            }
        }
        (Str(x), Str(y)) if op == "+" => Expect::Is(Str(format!("{}{}", x, y))),
        (Char(x), Char(y)) if op == "+" => Expect::Is(Str(format!("{}{}", x, y))),
        (Arr(x), Arr(y)) if op == "+" => {
            let mut v = x.clone();
            v.extend(y.iter().cloned());
            Expect::Is(Arr(v))
        }
        (Str(s), Int(n)) if op == "*" => {
            if *n < 0 {
                Expect::Error
            } else if (*n as u128) * (s.len() as u128) > 1 << 24 {
                Expect::DontCare // memory exclusion
            } else {
                Expect::Is(Str(s.repeat(*n as usize)))
            }
        }
        (Int(n), Str(s)) if op == "*" => {
            // only string*integer is stated
            if *n < 0 || (*n as u128) * (s.len() as u128) > 1 << 24 {
                Expect::DontCare
            } else {
                Expect::AnyOf(vec![Str(s.repeat(*n as usize))], true)
            }
        }
        _ => Expect::Error,
    }
}

fn int_arith(op: &str, x: i64, y: i64) -> Expect {
    use Val::*;
    match op {
        "+" => Expect::Is(Int(x.wrapping_add(y))),
        "-" => Expect::Is(Int(x.wrapping_sub(y))),
        "*" => Expect::Is(Int(x.wrapping_mul(y))),
        "/" => {
            if y == 0 {
                Expect::Error
            } else {
                Expect::Is(Int(x.wrapping_div(y)))
            }
        }
        _ => {
            if y == 0 {
                Expect::Error
            } else {
                Expect::Is(Int(x.wrapping_rem(y)))
            }
        }
    }
}

fn cmp_res(op: &str, lt: bool, eq: bool, gt: bool) -> Expect {
    bool_is(match op {
        "<" => lt,
        ">" => gt,
        "<=" => lt || eq,
        _ => gt || eq,
    })
}

fn relational(op: &str, a: &Val, b: &Val) -> Expect {
    use Val::*;
    match (a, b) {
        (Int(x), Int(y)) => cmp_res(op, x < y, x == y, x > y),
        (Float(_), Float(_)) | (Int(_), Float(_)) | (Float(_), Int(_)) => {
            let x = num_f64(a).unwrap();
            let y = num_f64(b).unwrap();
            cmp_res(op, x < y, x == y, x > y)
        }
        (Byte(x), Byte(y)) => cmp_res(op, x < y, x == y, x > y),
        (Byte(_), Int(_)) | (Int(_), Byte(_)) | (Byte(_), Float(_)) | (Float(_), Byte(_)) => Expect::DontCare,
        (Str(x), Str(y)) => cmp_res(op, x < y, x == y, x > y),
        (Char(x), Char(y)) => cmp_res(op, x < y, x == y, x > y),
        _ => Expect::Error,
    }
}

fn bitwise(op: &str, a: &Val, b: &Val) -> Expect {
    use Val::*;
    match (a, b) {
        (Int(x), Int(y)) => Expect::Is(Int(match op {
            "&" => x & y,
            "|" => x | y,
            "^" => x ^ y,
            "<<" => x.wrapping_shl((*y as u64 & 63) as u32),
            _ => x.wrapping_shr((*y as u64 & 63) as u32),
        })),
        (Byte(x), Byte(y)) => {
            let r = match op {
                "&" => x & y,
                "|" => x | y,
                "^" => x ^ y,
                "<<" => x.wrapping_shl((*y & 7) as u32),
                _ => x.wrapping_shr((*y & 7) as u32),
            };
            // error or a mod-2^8 result: don't care which
            let _ = r;
            Expect::DontCare
        }
        _ => Expect::Error,
    }
}

/// Does an observed outcome (value or runtime error) satisfy the expectation?
pub fn satisfies(e: &Expect, got: &Result<Val, String>) -> bool {
    match (e, got) {
        (Expect::DontCare, _) => true,
        (Expect::Error, Err(_)) => true,
        (Expect::Error, Ok(_)) => false,
        (Expect::Is(v), Ok(g)) => v.same(g) || both_zero_float(v, g),
        (Expect::Is(_), Err(_)) => false,
        (Expect::AnyOf(vs, _), Ok(g)) => vs.iter().any(|v| v.same(g)),
        (Expect::Pred(_, f), Ok(g)) => f(g),
        (Expect::Pred(..), Err(_)) => false,
        (Expect::AnyOf(_, or_err), Err(_)) => *or_err,
    }
}

fn both_zero_float(_a: &Val, _b: &Val) -> bool {
    false
}

pub fn show_expect(e: &Expect) -> String {
    match e {
        Expect::Is(v) => v.show(),
        Expect::Error => "runtime error".into(),
        Expect::DontCare => "don't care".into(),
        Expect::Pred(d, _) => d.clone(),
        Expect::AnyOf(vs, or_err) => format!(
            "one of [{}]{}",
            vs.iter().map(|v| v.show()).collect::<Vec<_>>().join(", "),
            if *or_err { " or a runtime error" } else { "" }
        ),
    }
}

impl std::fmt::Debug for Expect {
    fn fmt(&self, f: &mut std::fmt::Formatter) -> std::fmt::Result {
        write!(f, "{}", show_expect(self))
    }
}

pub fn pred(desc: &str, f: impl Fn(&Val) -> bool + 'static) -> Expect {
    Expect::Pred(desc.to_string(), std::rc::Rc::new(f))
}
