//! Reference codecs for the packet properties (oracle of C15-C18), written from
//! the pcap file format, IEEE 802.1Q and RFC 791 / 8200 / 9293 / 768
//! (DESIGN.md Appendix B).  One table drives decoding (C16), "only this bit
//! range may change" (C17) and the identity check (C15).

#[derive(Clone, Copy, Debug, PartialEq, Eq)]
pub enum Layer {
    Eth,
    Vlan,
    Ipv4,
    Ipv6,
    Tcp,
    Udp,
}

impl Layer {
    pub fn name(&self) -> &'static str {
        match self {
            Layer::Eth => "eth",
            Layer::Vlan => "vlan",
            Layer::Ipv4 => "ipv4",
            Layer::Ipv6 => "ipv6",
            Layer::Tcp => "tcp",
            Layer::Udp => "udp",
        }
    }
    /// the `Val::Other` tag p2.rs gives the corresponding object
    pub fn obj_tag(&self) -> &'static str {
        self.name()
    }
    pub fn fixed_len(&self) -> usize {
        match self {
            Layer::Eth => 14,
            Layer::Vlan => 4,
            Layer::Ipv4 => 20,
            Layer::Ipv6 => 40,
            Layer::Tcp => 20,
            Layer::Udp => 8,
        }
    }
}

#[derive(Clone, Copy, Debug, PartialEq, Eq)]
pub enum Kind {
    Int,
    Bool,
    Mac,
    Ip4,
    Ip6,
}

#[derive(Clone, Copy, Debug)]
pub struct Field {
    pub layer: Layer,
    pub name: &'static str,
    /// bit offset from the first bit of the layer's header, network bit order
    pub bit: usize,
    pub width: usize,
    pub writable: bool,
    pub kind: Kind,
    /// assigning it changes how the rest of the frame is interpreted
    pub structural: bool,
}

const fn f(layer: Layer, name: &'static str, bit: usize, width: usize, writable: bool, kind: Kind, structural: bool) -> Field {
    Field { layer, name, bit, width, writable, kind, structural }
}

pub const FIELDS: &[Field] = &[
    f(Layer::Eth, "dst", 0, 48, true, Kind::Mac, false),
    f(Layer::Eth, "src", 48, 48, true, Kind::Mac, false),
    f(Layer::Eth, "type", 96, 16, true, Kind::Int, true),
    f(Layer::Vlan, "priority", 0, 3, true, Kind::Int, false),
    f(Layer::Vlan, "dei", 3, 1, true, Kind::Bool, false),
    f(Layer::Vlan, "id", 4, 12, true, Kind::Int, false),
    f(Layer::Vlan, "type", 16, 16, true, Kind::Int, true),
    f(Layer::Ipv4, "version", 0, 4, false, Kind::Int, false),
    f(Layer::Ipv4, "ihl", 4, 4, true, Kind::Int, true),
    f(Layer::Ipv4, "dscp", 8, 6, true, Kind::Int, false),
    f(Layer::Ipv4, "ecn", 14, 2, true, Kind::Int, false),
    f(Layer::Ipv4, "totlen", 16, 16, true, Kind::Int, true),
    f(Layer::Ipv4, "id", 32, 16, true, Kind::Int, false),
    f(Layer::Ipv4, "flags", 48, 3, true, Kind::Int, false),
    f(Layer::Ipv4, "fragoff", 51, 13, true, Kind::Int, false),
    f(Layer::Ipv4, "ttl", 64, 8, true, Kind::Int, false),
    f(Layer::Ipv4, "proto", 72, 8, true, Kind::Int, true),
    f(Layer::Ipv4, "checksum", 80, 16, true, Kind::Int, false),
    f(Layer::Ipv4, "src", 96, 32, true, Kind::Ip4, false),
    f(Layer::Ipv4, "dst", 128, 32, true, Kind::Ip4, false),
    f(Layer::Ipv6, "version", 0, 4, false, Kind::Int, false),
    f(Layer::Ipv6, "trafficclass", 4, 8, true, Kind::Int, false),
    f(Layer::Ipv6, "flowlabel", 12, 20, true, Kind::Int, false),
    f(Layer::Ipv6, "len", 32, 16, true, Kind::Int, true),
    f(Layer::Ipv6, "nextheader", 48, 8, true, Kind::Int, true),
    f(Layer::Ipv6, "hoplimit", 56, 8, true, Kind::Int, false),
    f(Layer::Ipv6, "src", 64, 128, true, Kind::Ip6, false),
    f(Layer::Ipv6, "dst", 192, 128, true, Kind::Ip6, false),
    f(Layer::Udp, "srcport", 0, 16, true, Kind::Int, false),
    f(Layer::Udp, "dstport", 16, 16, true, Kind::Int, false),
    f(Layer::Udp, "len", 32, 16, true, Kind::Int, true),
    f(Layer::Udp, "checksum", 48, 16, true, Kind::Int, false),
    f(Layer::Tcp, "srcport", 0, 16, true, Kind::Int, false),
    f(Layer::Tcp, "dstport", 16, 16, true, Kind::Int, false),
    f(Layer::Tcp, "seq", 32, 32, true, Kind::Int, false),
    f(Layer::Tcp, "ack", 64, 32, true, Kind::Int, false),
    f(Layer::Tcp, "dataoff", 96, 4, true, Kind::Int, true),
    f(Layer::Tcp, "flags", 104, 8, true, Kind::Int, false),
    f(Layer::Tcp, "winsize", 112, 16, true, Kind::Int, false),
    f(Layer::Tcp, "checksum", 128, 16, true, Kind::Int, false),
    f(Layer::Tcp, "urgent", 144, 16, true, Kind::Int, false),
];

pub fn fields_of(layer: Layer) -> Vec<&'static Field> {
    FIELDS.iter().filter(|f| f.layer == layer).collect()
}

/// read `width` bits starting `bit` bits into `bytes[start..]`
pub fn get_bits(bytes: &[u8], start: usize, bit: usize, width: usize) -> u128 {
    let mut v: u128 = 0;
    for i in 0..width {
        let b = bit + i;
        let byte = bytes[start + b / 8];
        let one = (byte >> (7 - (b % 8))) & 1;
        v = (v << 1) | one as u128;
    }
    v
}

pub fn set_bits(bytes: &mut [u8], start: usize, bit: usize, width: usize, value: u128) {
    for i in 0..width {
        let b = bit + i;
        let one = ((value >> (width - 1 - i)) & 1) as u8;
        let idx = start + b / 8;
        let mask = 1u8 << (7 - (b % 8));
        if one == 1 {
            bytes[idx] |= mask;
        } else {
            bytes[idx] &= !mask;
        }
    }
}

#[derive(Clone, Debug)]
pub struct Parsed {
    pub layer: Layer,
    pub start: usize,
    /// header length the length fields delimit (fixed size, IHL*4, data offset*4)
    pub header_len: usize,
    /// IHL / data offset below 5: where the payload starts is a don't-care
    pub odd_len: bool,
}

#[derive(Clone, Debug)]
pub enum ChainEnd {
    /// the dispatch field selects a layer p2sh does not support: next is null
    Unsupported,
    /// the selected layer does not fit in the captured bytes: next is an error object
    Truncated(Layer),
    /// transport layer reached: nothing below
    Leaf,
}

/// Reference layer dispatch over the captured bytes.
pub fn parse_chain(bytes: &[u8]) -> (Vec<Parsed>, ChainEnd) {
    let mut out = Vec::new();
    let mut layer = Layer::Eth;
    let mut start = 0usize;
    loop {
        let fixed = layer.fixed_len();
        if bytes.len() < start + fixed {
            return (out, ChainEnd::Truncated(layer));
        }
        let mut header_len = fixed;
        let mut odd = false;
        match layer {
            Layer::Ipv4 => {
                let ihl = (bytes[start] & 0x0f) as usize;
                if ihl >= 5 {
                    header_len = ihl * 4;
                    if bytes.len() < start + header_len {
                        return (out, ChainEnd::Truncated(layer));
                    }
                } else {
                    odd = true;
                }
            }
            Layer::Tcp => {
                let off = (bytes[start + 12] >> 4) as usize;
                if off >= 5 {
                    header_len = off * 4;
                    if bytes.len() < start + header_len {
                        return (out, ChainEnd::Truncated(layer));
                    }
                } else {
                    odd = true;
                }
            }
            _ => {}
        }
        out.push(Parsed { layer, start, header_len, odd_len: odd });
        let next = match layer {
            Layer::Eth => ether_next(get_bits(bytes, start, 96, 16) as u16),
            Layer::Vlan => ether_next(get_bits(bytes, start, 16, 16) as u16),
            Layer::Ipv4 => match bytes[start + 9] {
                6 => Some(Layer::Tcp),
                17 => Some(Layer::Udp),
                41 => Some(Layer::Ipv6),
                _ => None,
            },
            Layer::Ipv6 => match bytes[start + 6] {
                6 => Some(Layer::Tcp),
                17 => Some(Layer::Udp),
                _ => None,
            },
            Layer::Tcp | Layer::Udp => return (out, ChainEnd::Leaf),
        };
        match next {
            None => return (out, ChainEnd::Unsupported),
            Some(l) => {
                start += header_len;
                layer = l;
            }
        }
    }
}

fn ether_next(t: u16) -> Option<Layer> {
    match t {
        0x8100 => Some(Layer::Vlan),
        0x0800 => Some(Layer::Ipv4),
        0x86DD => Some(Layer::Ipv6),
        _ => None,
    }
}

/// the property name that, on `parent`, selects layer `child`
pub fn child_prop(child: Layer) -> &'static str {
    child.name()
}

/// layer properties a parent object offers (docs/language/property.md)
pub fn layer_props(parent: Layer) -> &'static [Layer] {
    match parent {
        Layer::Eth => &[Layer::Vlan, Layer::Ipv4, Layer::Ipv6],
        Layer::Vlan => &[Layer::Vlan, Layer::Ipv4, Layer::Ipv6],
        Layer::Ipv4 => &[Layer::Udp, Layer::Tcp, Layer::Ipv6],
        Layer::Ipv6 => &[Layer::Udp, Layer::Tcp],
        Layer::Tcp | Layer::Udp => &[],
    }
}

pub fn mac_text(b: &[u8]) -> String {
    b.iter().map(|x| format!("{:02X}", x)).collect::<Vec<_>>().join(":")
}
pub fn ip4_text(b: &[u8]) -> String {
    b.iter().map(|x| x.to_string()).collect::<Vec<_>>().join(".")
}
pub fn ip6_text(b: &[u8]) -> String {
    (0..8).map(|i| format!("{:x}", ((b[2 * i] as u16) << 8) | b[2 * i + 1] as u16)).collect::<Vec<_>>().join(":")
}

// ---- reference address parsers (C18): standard forms only; None = not a standard form

pub fn parse_mac(s: &str) -> Option<[u8; 6]> {
    let parts: Vec<&str> = s.split(':').collect();
    if parts.len() != 6 {
        return None;
    }
    let mut out = [0u8; 6];
    for (i, p) in parts.iter().enumerate() {
        if p.is_empty() || p.len() > 2 || !p.bytes().all(|b| b.is_ascii_hexdigit()) {
            return None;
        }
        out[i] = u8::from_str_radix(p, 16).ok()?;
    }
    Some(out)
}

pub fn parse_ip4(s: &str) -> Option<[u8; 4]> {
    let parts: Vec<&str> = s.split('.').collect();
    if parts.len() != 4 {
        return None;
    }
    let mut out = [0u8; 4];
    for (i, p) in parts.iter().enumerate() {
        if p.is_empty() || p.len() > 3 || !p.bytes().all(|b| b.is_ascii_digit()) {
            return None;
        }
        let v: u32 = p.parse().ok()?;
        if v > 255 {
            return None;
        }
        out[i] = v as u8;
    }
    Some(out)
}

/// RFC 4291 §2.2 forms 1 and 2: eight groups of 1..4 hex digits, at most one `::`
pub fn parse_ip6(s: &str) -> Option<[u8; 16]> {
    if s.is_empty() {
        return None;
    }
    let (head, tail, compressed) = match s.find("::") {
        Some(i) => {
            if s[i + 2..].contains("::") {
                return None;
            }
            (&s[..i], &s[i + 2..], true)
        }
        None => (s, "", false),
    };
    let groups = |t: &str| -> Option<Vec<u16>> {
        if t.is_empty() {
            return Some(vec![]);
        }
        let mut v = Vec::new();
        for g in t.split(':') {
            if g.is_empty() || g.len() > 4 || !g.bytes().all(|b| b.is_ascii_hexdigit()) {
                return None;
            }
            v.push(u16::from_str_radix(g, 16).ok()?);
        }
        Some(v)
    };
    let h = groups(head)?;
    let t = groups(tail)?;
    let all: Vec<u16> = if compressed {
        if h.len() + t.len() > 7 {
            return None;
        }
        let mut v = h.clone();
        v.extend(std::iter::repeat(0).take(8 - h.len() - t.len()));
        v.extend(t);
        v
    } else {
        if h.len() != 8 {
            return None;
        }
        h
    };
    let mut out = [0u8; 16];
    for (i, g) in all.iter().enumerate() {
        out[2 * i] = (g >> 8) as u8;
        out[2 * i + 1] = *g as u8;
    }
    Some(out)
}
