//! Rendering harness values as p2sh source text.  Rules were probed against
//! the real parser (DESIGN.md §3.1): negative numbers are parenthesised unary
//! minus, i64::MIN has no literal, inf/NaN come from float("..."), strings
//! have no escapes, NUL/non-ASCII bytes and odd chars go through char()/byte().

use super::p2::Val;

pub fn int_lit(i: i64) -> String {
    if i == i64::MIN {
        "(-9223372036854775807 - 1)".to_string()
    } else if i < 0 {
        format!("(-{})", -(i as i128))
    } else {
        i.to_string()
    }
}

pub fn float_lit(f: f64) -> String {
    if f.is_nan() {
        "float(\"NaN\")".to_string()
    } else if f == f64::INFINITY {
        "float(\"inf\")".to_string()
    } else if f == f64::NEG_INFINITY {
        "float(\"-inf\")".to_string()
    } else {
        // Rust's Display for f64 never uses an exponent and round-trips;
        // force a '.' so the scanner makes it a float token.
        let mut s = format!("{}", f.abs());
        if !s.contains('.') {
            s.push_str(".0");
        }
        if f.is_sign_negative() {
            format!("(-{})", s)
        } else {
            s
        }
    }
}

pub fn str_ok(s: &str) -> bool {
    !s.contains('"') && !s.contains('\0')
}

pub fn char_lit(c: char) -> String {
    if c == '\0' || c == '\'' || c == '\n' || c == '\r' {
        format!("char({})", c as u32)
    } else {
        format!("'{}'", c)
    }
}

pub fn byte_lit(b: u8) -> String {
    if b.is_ascii_graphic() && b != b'\'' && b != b'\\' {
        format!("b'{}'", b as char)
    } else {
        format!("byte({})", b)
    }
}

pub fn lit(v: &Val) -> String {
    match v {
        Val::Null => "null".into(),
        Val::Bool(b) => b.to_string(),
        Val::Int(i) => int_lit(*i),
        Val::Float(f) => float_lit(*f),
        Val::Str(s) => {
            assert!(str_ok(s), "string not representable as a literal: {:?}", s);
            format!("\"{}\"", s)
        }
        Val::Char(c) => char_lit(*c),
        Val::Byte(b) => byte_lit(*b),
        Val::Arr(a) => format!("[{}]", a.iter().map(lit).collect::<Vec<_>>().join(", ")),
        Val::Map(m) => {
            if m.is_empty() {
                "map {}".into()
            } else {
                format!("map {{{}}}", m.iter().map(|(k, v)| format!("{}: {}", lit(k), lit(v))).collect::<Vec<_>>().join(", "))
            }
        }
        Val::Fn => "fn() { 1 }".into(),
        Val::Builtin(n) => n.clone(),
        Val::Err(_) => "decode_utf8([byte(255)])".into(),
        Val::Other(s) => panic!("cannot render {}", s),
    }
}
