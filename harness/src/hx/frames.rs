//! Structure-aware generator of captured frames (DESIGN.md §3.2).
//! Every field is random unless the structure needs it, so that the bits
//! surrounding any field are non-zero most of the time.

use super::choices::Choices;

#[derive(Clone, Debug, Default)]
pub struct Frame {
    pub bytes: Vec<u8>,
    pub labels: Vec<&'static str>,
}

fn rnd(c: &mut Choices, n: usize) -> Vec<u8> {
    (0..n).map(|_| c.byte()).collect()
}

fn l4(c: &mut Choices, f: &mut Frame, which: u8) {
    match which {
        6 => {
            f.labels.push("tcp");
            let mut h = rnd(c, 20);
            // data offset: every value 0..15
            let off = match c.below(4) {
                0 => c.below(16) as u8,
                1 => 5 + c.below(11) as u8,
                _ => 5,
            };
            h[12] = (off << 4) | (h[12] & 0x0f);
            if c.below(3) != 0 {
                // reserved bits zero in most frames (the unambiguous `flags` reading)
                h[12] &= 0xf0;
            } else {
                f.labels.push("tcp-reserved-bits");
            }
            if off > 5 {
                f.labels.push("tcp-dataoff>5");
            }
            if off < 5 {
                f.labels.push("tcp-dataoff<5");
            }
            f.bytes.extend_from_slice(&h);
            if off > 5 {
                // options: sometimes shorter than announced
                let n = (off as usize - 5) * 4;
                let have = if c.below(6) == 0 { c.below(n + 1) } else { n };
                let o = rnd(c, have);
                f.bytes.extend_from_slice(&o);
            }
        }
        17 => {
            f.labels.push("udp");
            let h = rnd(c, 8);
            f.bytes.extend_from_slice(&h);
        }
        _ => {
            f.labels.push("l4-unknown");
        }
    }
    let n = c.below(40);
    let p = rnd(c, n);
    f.bytes.extend_from_slice(&p);
}

fn ipv6(c: &mut Choices, f: &mut Frame) {
    f.labels.push("ipv6");
    let mut h = rnd(c, 40);
    h[0] = 0x60 | (h[0] & 0x0f);
    let nh = match c.below(6) {
        0 | 1 => 6,
        2 | 3 => 17,
        4 => *c.pickv(&[0u8, 43, 44, 58, 59, 41, 50]),
        _ => c.byte(),
    };
    h[6] = nh;
    f.bytes.extend_from_slice(&h);
    l4(c, f, nh);
}

fn ipv4(c: &mut Choices, f: &mut Frame) {
    f.labels.push("ipv4");
    let mut h = rnd(c, 20);
    let ihl = match c.below(4) {
        0 => c.below(16) as u8,
        1 => 6 + c.below(10) as u8,
        _ => 5,
    };
    h[0] = 0x40 | ihl;
    if ihl > 5 {
        f.labels.push("ipv4-options");
    }
    if ihl < 5 {
        f.labels.push("ipv4-ihl<5");
    }
    let proto = match c.below(8) {
        0..=2 => 6,
        3 | 4 => 17,
        5 => 41,
        6 => *c.pickv(&[1u8, 2, 47, 50, 89, 132]),
        _ => c.byte(),
    };
    h[9] = proto;
    f.bytes.extend_from_slice(&h);
    if ihl > 5 {
        let n = (ihl as usize - 5) * 4;
        let have = if c.below(6) == 0 { c.below(n + 1) } else { n };
        if have < n {
            f.labels.push("ipv4-options-truncated");
        }
        let o = rnd(c, have);
        f.bytes.extend_from_slice(&o);
        if have < n {
            return;
        }
    }
    if proto == 41 {
        f.labels.push("ipv6-in-ipv4");
        ipv6(c, f);
    } else {
        l4(c, f, proto);
    }
}

pub fn gen_frame(c: &mut Choices) -> Frame {
    let mut f = Frame::default();
    // completely random short frames now and then
    if c.below(12) == 0 {
        let n = c.below(80);
        f.bytes = rnd(c, n);
        f.labels.push("random-bytes");
        return f;
    }
    let mac = rnd(c, 12);
    f.bytes.extend_from_slice(&mac);
    // 0..3 VLAN tags
    let ntags = match c.below(6) {
        0 | 1 | 2 => 0,
        3 => 1,
        4 => 2,
        _ => 3,
    };
    for _ in 0..ntags {
        let tpid: u16 = match c.below(6) {
            0 => *c.pickv(&[0x88a8u16, 0x9100]),
            _ => 0x8100,
        };
        f.bytes.extend_from_slice(&tpid.to_be_bytes());
        let tci = rnd(c, 2);
        f.bytes.extend_from_slice(&tci);
        f.labels.push(if tpid == 0x8100 { "vlan" } else { "vlan-unsupported-tpid" });
    }
    match c.below(8) {
        0..=3 => {
            f.bytes.extend_from_slice(&0x0800u16.to_be_bytes());
            ipv4(c, &mut f);
        }
        4 | 5 => {
            f.bytes.extend_from_slice(&0x86DDu16.to_be_bytes());
            ipv6(c, &mut f);
        }
        6 => {
            let t = *c.pickv(&[0x0806u16, 0x8847, 0x88cc, 0x0000, 0xffff, 0x0801, 0x86de, 0x8101]);
            f.bytes.extend_from_slice(&t.to_be_bytes());
            let n = c.below(50);
            let p = rnd(c, n);
            f.bytes.extend_from_slice(&p);
            f.labels.push("ethertype-unsupported");
        }
        _ => {
            // the type says one thing, the bytes another
            let t = *c.pickv(&[0x0800u16, 0x86DD, 0x8100]);
            f.bytes.extend_from_slice(&t.to_be_bytes());
            let n = c.below(70);
            let p = rnd(c, n);
            f.bytes.extend_from_slice(&p);
            f.labels.push("garbage-after-ethertype");
        }
    }
    // truncation
    if c.below(4) == 0 && !f.bytes.is_empty() {
        let at = c.below(f.bytes.len());
        f.bytes.truncate(at);
        f.labels.push("truncated");
    }
    // corruption
    if c.below(8) == 0 && !f.bytes.is_empty() {
        let n = 1 + c.below(3);
        for _ in 0..n {
            let at = c.below(f.bytes.len());
            f.bytes[at] = c.byte();
        }
        f.labels.push("corrupted");
    }
    f
}

/// a well-formed frame with the requested stack, random field contents
/// stack: 0 = eth/ipv4/tcp, 1 = eth/ipv4/udp, 2 = eth/ipv6/tcp, 3 = eth/ipv6/udp,
///        4 = eth/vlan/ipv4/tcp, 5 = eth/vlan/vlan/ipv6/udp, 6 = eth/ipv4(options)/tcp(options), 7 = eth/ipv4/ipv6/tcp
pub fn stack_frame(c: &mut Choices, stack: u8) -> Vec<u8> {
    let mut b = rnd(c, 12);
    let tags = match stack {
        4 => 1,
        5 => 2,
        _ => 0,
    };
    for _ in 0..tags {
        b.extend_from_slice(&0x8100u16.to_be_bytes());
        let t = rnd(c, 2);
        b.extend_from_slice(&t);
    }
    let v6 = matches!(stack, 2 | 3 | 5);
    b.extend_from_slice(&(if v6 { 0x86DDu16 } else { 0x0800 }).to_be_bytes());
    let tcp = matches!(stack, 0 | 2 | 4 | 6 | 7);
    let tcp_bytes = |c: &mut Choices, opts: usize| -> Vec<u8> {
        let mut h = rnd(c, 20);
        h[12] = (((5 + opts) as u8) << 4) | 0; // reserved bits zero
        let o = rnd(c, opts * 4);
        h.extend_from_slice(&o);
        h
    };
    let ip6_bytes = |c: &mut Choices, nh: u8| -> Vec<u8> {
        let mut h = rnd(c, 40);
        h[0] = 0x60 | (h[0] & 0x0f);
        h[6] = nh;
        h
    };
    if v6 {
        let h = ip6_bytes(c, if tcp { 6 } else { 17 });
        b.extend_from_slice(&h);
    } else {
        let opts = if stack == 6 { 1 + c.below(10) } else { 0 };
        let mut h = rnd(c, 20);
        h[0] = 0x40 | (5 + opts) as u8;
        h[9] = if stack == 7 { 41 } else if tcp { 6 } else { 17 };
        b.extend_from_slice(&h);
        let o = rnd(c, opts * 4);
        b.extend_from_slice(&o);
        if stack == 7 {
            let h6 = ip6_bytes(c, 6);
            b.extend_from_slice(&h6);
        }
    }
    if tcp {
        let opts = if stack == 6 { c.below(11) } else { 0 };
        let h = tcp_bytes(c, opts);
        b.extend_from_slice(&h);
    } else {
        let h = rnd(c, 8);
        b.extend_from_slice(&h);
    }
    let n = c.below(32);
    let p = rnd(c, n);
    b.extend_from_slice(&p);
    b
}
