//! Helpers shared by the packet properties C16-C18: reading properties of a
//! layer through real scripts and computing the reference expectation.

use std::rc::Rc;

use crate::builtins::pcap::PcapPacket;

use super::codec::*;
use super::p2::{run_text_with_pkt, Outcome, Val};

pub fn hex(b: &[u8]) -> String {
    b.iter().map(|x| format!("{:02x}", x)).collect()
}

pub fn unhex(s: &str) -> Vec<u8> {
    (0..s.len() / 2).filter_map(|i| u8::from_str_radix(&s[2 * i..2 * i + 2], 16).ok()).collect()
}

pub enum Read {
    Values(Vec<Val>),
    RuntimeError(String),
    Panic(String, String),
    Other(String),
}

/// evaluate `[e1, e2, ...]` with the packet installed as the current packet
pub fn read_exprs(pkt: &Rc<PcapPacket>, exprs: &[String]) -> Read {
    let src = format!("[{}]", exprs.join(", "));
    match run_text_with_pkt(&src, Rc::clone(pkt)) {
        Outcome::Ran(r) => match r.err {
            Some((m, _)) => Read::RuntimeError(m),
            None => match r.last {
                Val::Arr(a) => Read::Values(a),
                other => Read::Other(other.show()),
            },
        },
        Outcome::Panic(p) => Read::Panic(p.signature(), p.describe()),
        o => Read::Other(o.tag()),
    }
}

/// the reference value of a field, as the Val the property should return
pub enum Expected {
    Int(i64),
    Bool(bool),
    /// address bytes; the returned text must parse (reference parser) to exactly these
    Addr(Kind, Vec<u8>),
}

pub fn expected_field(bytes: &[u8], start: usize, f: &Field) -> Expected {
    match f.kind {
        Kind::Int => Expected::Int(get_bits(bytes, start, f.bit, f.width) as i64),
        Kind::Bool => Expected::Bool(get_bits(bytes, start, f.bit, f.width) != 0),
        k => {
            let off = start + f.bit / 8;
            Expected::Addr(k, bytes[off..off + f.width / 8].to_vec())
        }
    }
}

pub fn matches_expected(e: &Expected, got: &Val) -> bool {
    match (e, got) {
        (Expected::Int(a), Val::Int(b)) => a == b,
        (Expected::Bool(a), Val::Bool(b)) => a == b,
        (Expected::Addr(k, bytes), Val::Str(s)) => match k {
            Kind::Mac => parse_mac(s).map(|x| x.to_vec()) == Some(bytes.clone()),
            Kind::Ip4 => parse_ip4(s).map(|x| x.to_vec()) == Some(bytes.clone()),
            Kind::Ip6 => parse_ip6(s).map(|x| x.to_vec()) == Some(bytes.clone()),
            _ => false,
        },
        _ => false,
    }
}

pub fn show_expected(e: &Expected) -> String {
    match e {
        Expected::Int(i) => i.to_string(),
        Expected::Bool(b) => b.to_string(),
        Expected::Addr(Kind::Mac, b) => format!("\"{}\"", mac_text(b)),
        Expected::Addr(Kind::Ip4, b) => format!("\"{}\"", ip4_text(b)),
        Expected::Addr(_, b) => format!("\"{}\"", ip6_text(b)),
    }
}

/// TCP `flags`: with non-zero reserved bits the 8-, 9- and 12-bit readings are all accepted
pub fn tcp_flags_ok(bytes: &[u8], start: usize, got: &Val) -> bool {
    let word = ((bytes[start + 12] as u16) << 8) | bytes[start + 13] as u16;
    match got {
        Val::Int(v) => {
            let v = *v as u16 as i64 == *v && *v >= 0;
            if !v {
                return false;
            }
            let g = match got {
                Val::Int(x) => *x as u16,
                _ => 0,
            };
            if word & 0x0f00 == 0 {
                g == word & 0x00ff
            } else {
                g == word & 0x00ff || g == word & 0x01ff || g == word & 0x0fff
            }
        }
        _ => false,
    }
}

/// value of a byte array property
pub fn bytes_val(b: &[u8]) -> Val {
    Val::Arr(b.iter().map(|x| Val::Byte(*x)).collect())
}
