//! End-to-end driver: runs the real p2sh binary (dev profile, hooks on) as a
//! subprocess with generated argv / stdin schedules and collects what it did.

use std::io::{Read, Write};
use std::process::{Command, Stdio};
use std::time::{Duration, Instant};

use super::engine::beat;

pub fn bin_path() -> String {
    std::env::var("P2SH_BIN").unwrap_or_else(|_| "/verif/target/p2sh-bin/debug/p2sh".into())
}

#[derive(Clone, Debug)]
pub enum Stdin {
    /// /dev/null
    Null,
    /// everything at once, then EOF
    Bytes(Vec<u8>),
    /// chunk, pause in microseconds before the next one; EOF after the last
    Chunks(Vec<(Vec<u8>, u64)>),
    /// stdin opened on this path (a file, a directory, a device)
    Path(String),
}

#[derive(Debug, Clone)]
pub struct Run {
    pub code: Option<i32>,
    pub signal: Option<i32>,
    pub stdout: Vec<u8>,
    pub stderr: Vec<u8>,
    pub timed_out: bool,
    pub spawn_error: Option<String>,
}

impl Run {
    /// the interpreter died instead of finishing: a signal, a Rust panic (status 101 / panic text)
    pub fn crashed(&self) -> Option<String> {
        if let Some(s) = self.signal {
            if !self.timed_out {
                return Some(format!("killed by signal {}", s));
            }
        }
        let err = String::from_utf8_lossy(&self.stderr);
        if let Some(i) = err.find("panicked at") {
            let line = err[i..].lines().take(2).collect::<Vec<_>>().join(" | ");
            return Some(line);
        }
        if self.code == Some(101) {
            return Some("exit status 101".into());
        }
        None
    }
    pub fn out_text(&self) -> String {
        String::from_utf8_lossy(&self.stdout).into_owned()
    }
    pub fn err_text(&self) -> String {
        String::from_utf8_lossy(&self.stderr).into_owned()
    }
}

/// signature of a crash for known-finding matching: the panic location and message class
pub fn crash_signature(desc: &str) -> String {
    // "panicked at src/x.rs:12:5: | message"
    let loc = desc.split("panicked at ").nth(1).unwrap_or(desc);
    let file = loc.split(':').next().unwrap_or("?").trim();
    let msg = desc.split(" | ").nth(1).unwrap_or("");
    format!("e2e-panic@{}|{}", file, super::engine::msg_class(msg))
}

pub struct Opts<'a> {
    pub args: Vec<String>,
    pub stdin: Stdin,
    pub cwd: Option<&'a str>,
    pub env: Vec<(String, String)>,
    pub timeout_ms: u64,
    /// stdout opened on this path for writing (e.g. /dev/full) instead of a pipe
    pub stdout_path: Option<String>,
    /// run the binary as this unprivileged user and group (the checks themselves run as root)
    pub uid: Option<u32>,
}

impl<'a> Opts<'a> {
    pub fn new(args: Vec<String>) -> Self {
        Opts { args, stdin: Stdin::Null, cwd: None, env: vec![], timeout_ms: 20_000, stdout_path: None, uid: None }
    }
    pub fn as_user(mut self, uid: u32) -> Self {
        self.uid = Some(uid);
        self
    }
    pub fn stdout_to(mut self, p: &str) -> Self {
        self.stdout_path = Some(p.to_string());
        self
    }
    pub fn stdin(mut self, s: Stdin) -> Self {
        self.stdin = s;
        self
    }
    pub fn env(mut self, k: &str, v: &str) -> Self {
        self.env.push((k.to_string(), v.to_string()));
        self
    }
}

pub fn run(o: Opts) -> Run {
    beat();
    let mut cmd = Command::new(bin_path());
    cmd.args(&o.args).env("RUST_BACKTRACE", "0").env_remove("P2SH_VERIF_REPL");
    for (k, v) in &o.env {
        cmd.env(k, v);
    }
    if let Some(d) = o.cwd {
        cmd.current_dir(d);
    }
    if let Some(u) = o.uid {
        use std::os::unix::process::CommandExt;
        cmd.uid(u).gid(u);
    }
    cmd.stderr(Stdio::piped());
    match o.stdout_path.as_ref().and_then(|p| std::fs::OpenOptions::new().write(true).open(p).ok()) {
        Some(f) => {
            cmd.stdout(Stdio::from(f));
        }
        None => {
            cmd.stdout(Stdio::piped());
        }
    }
    match &o.stdin {
        Stdin::Null => {
            cmd.stdin(Stdio::null());
        }
        Stdin::Path(p) => match std::fs::File::open(p) {
            Ok(f) => {
                cmd.stdin(Stdio::from(f));
            }
            Err(_) => {
                cmd.stdin(Stdio::null());
            }
        },
        _ => {
            cmd.stdin(Stdio::piped());
        }
    }
    let mut child = match cmd.spawn() {
        Ok(c) => c,
        Err(e) => return Run { code: None, signal: None, stdout: vec![], stderr: vec![], timed_out: false, spawn_error: Some(e.to_string()) },
    };
    let stdin_thread = child.stdin.take().map(|mut w| {
        let spec = o.stdin.clone();
        std::thread::spawn(move || match spec {
            Stdin::Bytes(b) => {
                let _ = w.write_all(&b);
            }
            Stdin::Chunks(cs) => {
                for (c, pause) in cs {
                    if w.write_all(&c).is_err() {
                        break;
                    }
                    let _ = w.flush();
                    if pause > 0 {
                        std::thread::sleep(Duration::from_micros(pause));
                    }
                }
            }
            Stdin::Null | Stdin::Path(_) => {}
        })
    });
    let so = child.stdout.take();
    let mut se = child.stderr.take().unwrap();
    let t_out = std::thread::spawn(move || {
        let mut b = Vec::new();
        if let Some(mut so) = so {
            let _ = so.read_to_end(&mut b);
        }
        b
    });
    let t_err = std::thread::spawn(move || {
        let mut b = Vec::new();
        let _ = se.read_to_end(&mut b);
        b
    });
    let start = Instant::now();
    let mut timed_out = false;
    let status = loop {
        match child.try_wait() {
            Ok(Some(s)) => break Some(s),
            Ok(None) => {
                if start.elapsed() > Duration::from_millis(o.timeout_ms) {
                    timed_out = true;
                    let _ = child.kill();
                    break child.wait().ok();
                }
                let el = start.elapsed();
                std::thread::sleep(if el < Duration::from_millis(20) { Duration::from_micros(200) } else { Duration::from_millis(2) });
            }
            Err(_) => break None,
        }
    };
    let stdout = t_out.join().unwrap_or_default();
    let stderr = t_err.join().unwrap_or_default();
    if let Some(t) = stdin_thread {
        let _ = t.join();
    }
    beat();
    use std::os::unix::process::ExitStatusExt;
    Run { code: status.and_then(|s| s.code()), signal: status.and_then(|s| s.signal()), stdout, stderr, timed_out, spawn_error: None }
}

/// write a script into the scratch directory and return its path
pub fn script_file(name: &str, text: &str) -> String {
    let p = super::pcapfile::scratch(name);
    let _ = std::fs::write(&p, text);
    p
}
