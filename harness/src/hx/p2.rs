//! In-process access to the real p2sh pipeline (scanner -> parser -> compiler -> VM)
//! plus a harness-side value model converted structurally from `Object`.

use std::rc::Rc;

use serde::{Deserialize, Serialize};

use crate::builtins::variables::BuiltinVarType;
use crate::compiler::{Bytecode, Compiler};
use crate::object::array::Array;
use crate::object::Object;
use crate::parser::Parser;
use crate::scanner::Scanner;
use crate::vm::interpreter::VM;

use super::engine::{catch, PanicInfo};

/// Harness-side value (no sharing, no cycles: conversion is depth-capped).
#[derive(Clone, Debug, Serialize, Deserialize)]
pub enum Val {
    Null,
    Bool(bool),
    Int(i64),
    Float(#[serde(with = "fbits")] f64),
    Str(String),
    Char(char),
    Byte(u8),
    Arr(Vec<Val>),
    Map(Vec<(Val, Val)>),
    Fn,
    Builtin(String),
    Err(String),
    Other(String),
}

/// floats travel through JSON as "<display> 0x<bits>" so NaN, infinities and -0.0 survive
mod fbits {
    use serde::{Deserialize, Deserializer, Serializer};
    pub fn serialize<S: Serializer>(f: &f64, s: S) -> Result<S::Ok, S::Error> {
        s.serialize_str(&format!("{:?} 0x{:016x}", f, f.to_bits()))
    }
    pub fn deserialize<'de, D: Deserializer<'de>>(d: D) -> Result<f64, D::Error> {
        let s = String::deserialize(d)?;
        let hex = s.rsplit("0x").next().unwrap_or("0");
        u64::from_str_radix(hex, 16).map(f64::from_bits).map_err(serde::de::Error::custom)
    }
}

impl Val {
    pub fn kind(&self) -> &'static str {
        match self {
            Val::Null => "null",
            Val::Bool(_) => "bool",
            Val::Int(_) => "int",
            Val::Float(_) => "float",
            Val::Str(_) => "str",
            Val::Char(_) => "char",
            Val::Byte(_) => "byte",
            Val::Arr(_) => "array",
            Val::Map(_) => "map",
            Val::Fn => "fn",
            Val::Builtin(_) => "builtin",
            Val::Err(_) => "error",
            Val::Other(_) => "other",
        }
    }
    /// Identity comparison used by oracles: floats by bit pattern except that
    /// all NaNs are one value; maps as sets of pairs; closures are opaque.
    pub fn same(&self, other: &Val) -> bool {
        match (self, other) {
            (Val::Null, Val::Null) => true,
            (Val::Bool(a), Val::Bool(b)) => a == b,
            (Val::Int(a), Val::Int(b)) => a == b,
            (Val::Float(a), Val::Float(b)) => (a.is_nan() && b.is_nan()) || a.to_bits() == b.to_bits(),
            (Val::Str(a), Val::Str(b)) => a == b,
            (Val::Char(a), Val::Char(b)) => a == b,
            (Val::Byte(a), Val::Byte(b)) => a == b,
            (Val::Arr(a), Val::Arr(b)) => a.len() == b.len() && a.iter().zip(b).all(|(x, y)| x.same(y)),
            (Val::Map(a), Val::Map(b)) => {
                a.len() == b.len()
                    && a.iter().all(|(k, v)| b.iter().any(|(k2, v2)| k.same(k2) && v.same(v2)))
            }
            (Val::Fn, Val::Fn) => true,
            (Val::Builtin(a), Val::Builtin(b)) => a == b,
            (Val::Err(_), Val::Err(_)) => true,
            (Val::Other(a), Val::Other(b)) => a == b,
            _ => false,
        }
    }
    pub fn show(&self) -> String {
        match self {
            Val::Null => "null".into(),
            Val::Bool(b) => b.to_string(),
            Val::Int(i) => i.to_string(),
            Val::Float(f) => format!("{:?}f", f),
            Val::Str(s) => format!("{:?}", s),
            Val::Char(c) => format!("'{}'", c.escape_default()),
            Val::Byte(b) => format!("b{}", b),
            Val::Arr(a) => format!("[{}]", a.iter().map(|v| v.show()).collect::<Vec<_>>().join(", ")),
            Val::Map(m) => format!(
                "map{{{}}}",
                m.iter().map(|(k, v)| format!("{}: {}", k.show(), v.show())).collect::<Vec<_>>().join(", ")
            ),
            Val::Fn => "<fn>".into(),
            Val::Builtin(n) => format!("<builtin {}>", n),
            Val::Err(e) => format!("<error {}>", e),
            Val::Other(s) => format!("<{}>", s),
        }
    }
}

pub fn val_of(obj: &Object) -> Val {
    val_of_depth(obj, 0)
}

fn val_of_depth(obj: &Object, depth: usize) -> Val {
    if depth > 96 {
        return Val::Other("deep".into());
    }
    match obj {
        Object::Null => Val::Null,
        Object::Bool(b) => Val::Bool(*b),
        Object::Integer(i) => Val::Int(*i),
        Object::Float(f) => Val::Float(*f),
        Object::Str(s) => Val::Str(s.clone()),
        Object::Char(c) => Val::Char(*c),
        Object::Byte(b) => Val::Byte(*b),
        Object::Arr(a) => Val::Arr(a.elements.borrow().iter().map(|e| val_of_depth(e, depth + 1)).collect()),
        Object::Map(m) => {
            Val::Map(m.pairs.borrow().iter().map(|(k, v)| (val_of_depth(k, depth + 1), val_of_depth(v, depth + 1))).collect())
        }
        Object::Clos(_) | Object::Func(_) => Val::Fn,
        Object::Builtin(b) => Val::Builtin(b.name.to_string()),
        Object::Err(e) => Val::Err(e.to_string()),
        Object::Return(_) => Val::Other("return".into()),
        Object::File(_) => Val::Other("file".into()),
        Object::Pcap(_) => Val::Other("pcap".into()),
        Object::Packet(_) => Val::Other("packet".into()),
        Object::Eth(_) => Val::Other("eth".into()),
        Object::Vlan(_) => Val::Other("vlan".into()),
        Object::Ipv4(_) => Val::Other("ipv4".into()),
        Object::Ipv6(_) => Val::Other("ipv6".into()),
        Object::Udp(_) => Val::Other("udp".into()),
        Object::Tcp(_) => Val::Other("tcp".into()),
    }
}

pub enum Compiled {
    ParseErrors(Vec<String>),
    CompileError { msg: String, line: usize },
    Ok(Box<(Bytecode, usize)>), // bytecode, number of top-level statements
}

impl Compiled {
    pub fn tag(&self) -> &'static str {
        match self {
            Compiled::ParseErrors(_) => "parse-errors",
            Compiled::CompileError { .. } => "compile-error",
            Compiled::Ok(_) => "compiled",
        }
    }
}

/// scan -> parse -> compile exactly like `run_buf` in main.rs does
/// (compile only when the parser reported no errors).
pub fn compile_text(src: &str) -> Result<Compiled, PanicInfo> {
    catch(|| {
        let scanner = Scanner::new(src);
        let mut parser = Parser::new(scanner);
        let program = parser.parse_program();
        if !parser.parse_errors().is_empty() {
            return Compiled::ParseErrors(parser.parse_errors().clone());
        }
        let n = program.statements.len();
        let mut compiler = Compiler::new();
        match compiler.compile(program) {
            Err(e) => Compiled::CompileError { msg: e.msg.clone(), line: e.line },
            Ok(()) => Compiled::Ok(Box::new((compiler.bytecode(), n))),
        }
    })
}

pub struct Ran {
    /// runtime error (message, line) if execution stopped with one
    pub err: Option<(String, usize)>,
    /// the VM's "last popped" value
    pub last: Val,
    /// value of global slot 0 (the observation array by convention)
    pub g0: Val,
    /// operand stack height at the end
    pub sp: usize,
}

pub enum Outcome {
    ParseErrors(Vec<String>),
    CompileError { msg: String, line: usize },
    Ran(Ran),
    Panic(PanicInfo),
}

impl Outcome {
    pub fn tag(&self) -> String {
        match self {
            Outcome::ParseErrors(e) => format!("parse-errors({})", e.first().cloned().unwrap_or_default()),
            Outcome::CompileError { msg, line } => format!("compile-error(line {}: {})", line, msg),
            Outcome::Ran(r) => match &r.err {
                Some((m, l)) => format!("runtime-error(line {}: {})", l, m),
                None => format!("value({})", r.last.show()),
            },
            Outcome::Panic(p) => p.describe(),
        }
    }
}

fn init_vars(vm: &VM, argv: &[String]) {
    let elements: Vec<Rc<Object>> = argv.iter().map(|s| Rc::new(Object::Str(s.clone()))).collect();
    let arr = Rc::new(Object::Arr(Rc::new(Array::new(elements))));
    vm.update_builtin_var(BuiltinVarType::Argv, arr);
    vm.update_builtin_var(BuiltinVarType::NP, Rc::new(Object::Null));
    vm.update_builtin_var(BuiltinVarType::PL, Rc::new(Object::Null));
    vm.update_builtin_var(BuiltinVarType::WL, Rc::new(Object::Null));
    vm.update_builtin_var(BuiltinVarType::Tss, Rc::new(Object::Null));
    vm.update_builtin_var(BuiltinVarType::Tsu, Rc::new(Object::Null));
}

/// Full pipeline on a source text, the way script mode runs it.
pub fn run_text(src: &str) -> Outcome {
    match compile_text(src) {
        Err(p) => Outcome::Panic(p),
        Ok(Compiled::ParseErrors(e)) => Outcome::ParseErrors(e),
        Ok(Compiled::CompileError { msg, line }) => Outcome::CompileError { msg, line },
        Ok(Compiled::Ok(b)) => {
            let (bytecode, _) = *b;
            run_bytecode(bytecode, None)
        }
    }
}

pub fn run_bytecode(bytecode: Bytecode, pkt: Option<Rc<crate::builtins::pcap::PcapPacket>>) -> Outcome {
    let r = catch(move || {
        let mut vm = VM::new(bytecode);
        init_vars(&vm, &[]);
        if let Some(p) = pkt {
            vm.set_curr_pkt(p);
        }
        let res = vm.run();
        let err = res.err().map(|e| (e.msg.clone(), e.line));
        let sp = vm.verif_sp();
        let last = if sp < 4096 { val_of(&vm.last_popped()) } else { Val::Null };
        let g0 = val_of(&vm.globals[0]);
        Ran { err, last, g0, sp }
    });
    match r {
        Ok(r) => Outcome::Ran(r),
        Err(p) => Outcome::Panic(p),
    }
}

/// What happened when the filters of a program were run the way `run_filters` in src/main.rs runs them.
pub struct FilterRounds {
    /// error of the main program, if any (then no filter ran)
    pub main_err: Option<(String, usize)>,
    /// operand stack height after the main program
    pub sp_main: usize,
    /// (packet number, filter index or usize::MAX for the end filter, height before, height after, error)
    pub steps: Vec<(usize, usize, usize, usize, Option<String>)>,
    pub num_filters: usize,
    pub locals: Vec<usize>,
    pub g0: Val,
}

/// Mirror of `run_filters` (src/main.rs) without the pcap streams: the main program, then every filter on every
/// packet, then the end filter; a failed filter ends the run as it does there.
pub fn run_filter_rounds(bytecode: Bytecode, pkts: &[Rc<crate::builtins::pcap::PcapPacket>]) -> Result<FilterRounds, PanicInfo> {
    let pkts: Vec<_> = pkts.to_vec();
    catch(move || {
        let filters = bytecode.filters.clone();
        let filter_end = bytecode.filter_end.clone();
        let mut vm = VM::new(bytecode);
        init_vars(&vm, &[]);
        let mut out = FilterRounds { main_err: None, sp_main: 0, steps: vec![], num_filters: filters.len(), locals: filters.iter().map(|f| f.num_locals).collect(), g0: Val::Null };
        if let Err(e) = vm.run() {
            out.main_err = Some((e.msg.clone(), e.line));
            return out;
        }
        out.sp_main = vm.verif_sp();
        let mut failed = false;
        'pk: for (n, pkt) in pkts.iter().enumerate() {
            vm.set_curr_pkt(pkt.clone());
            vm.update_builtin_var(BuiltinVarType::NP, Rc::new(Object::Integer(n as i64 + 1)));
            for (k, f) in filters.iter().enumerate() {
                let before = vm.verif_sp();
                let r = vm.push_filter_frame(f).and_then(|_| vm.run()).and_then(|_| vm.pop_filter_frame().map(|_| ()));
                let after = vm.verif_sp();
                let err = r.err().map(|e| e.msg.clone());
                let stop = err.is_some();
                out.steps.push((n + 1, k, before, after, err));
                if stop {
                    failed = true;
                    break 'pk;
                }
            }
        }
        if !failed {
            vm.update_builtin_var(BuiltinVarType::PL, Rc::new(Object::Null));
            vm.update_builtin_var(BuiltinVarType::WL, Rc::new(Object::Null));
            if let Some(f) = filter_end {
                let before = vm.verif_sp();
                let r = vm.push_filter_frame(&f).and_then(|_| vm.run()).and_then(|_| vm.pop_filter_frame().map(|_| ()));
                let after = vm.verif_sp();
                out.steps.push((pkts.len(), usize::MAX, before, after, r.err().map(|e| e.msg.clone())));
            }
        }
        out.g0 = val_of(&vm.globals[0]);
        out
    })
}

/// Run a text with a current packet installed (so `$n` works outside filter mode).
pub fn run_text_with_pkt(src: &str, pkt: Rc<crate::builtins::pcap::PcapPacket>) -> Outcome {
    match compile_text(src) {
        Err(p) => Outcome::Panic(p),
        Ok(Compiled::ParseErrors(e)) => Outcome::ParseErrors(e),
        Ok(Compiled::CompileError { msg, line }) => Outcome::CompileError { msg, line },
        Ok(Compiled::Ok(b)) => {
            let (bytecode, _) = *b;
            run_bytecode(bytecode, Some(pkt))
        }
    }
}

/// Build a packet object from record header fields and captured bytes (hook).
pub fn make_packet(sec: u32, usec: u32, caplen: u32, wirelen: u32, data: &[u8]) -> Rc<crate::builtins::pcap::PcapPacket> {
    Rc::new(crate::builtins::pcap::PcapPacket::verif_new(sec, usec, caplen, wirelen, data.to_vec()))
}

/// the 16-byte little-endian pcap record header
pub fn record_header(sec: u32, usec: u32, caplen: u32, wirelen: u32) -> Vec<u8> {
    let mut v = Vec::with_capacity(16);
    v.extend_from_slice(&sec.to_le_bytes());
    v.extend_from_slice(&usec.to_le_bytes());
    v.extend_from_slice(&caplen.to_le_bytes());
    v.extend_from_slice(&wirelen.to_le_bytes());
    v
}

/// serialise a packet the way pcap_write / write / filter output do
pub fn packet_bytes(p: &Rc<crate::builtins::pcap::PcapPacket>) -> Result<Vec<u8>, PanicInfo> {
    let p = p.clone();
    catch(move || {
        let v: Vec<u8> = p.as_ref().into();
        v
    })
}

/// REPL-style session: every entry is compiled against the symbol table,
/// constants and globals left by the previous ones, exactly as `run_prompt`
/// in src/main.rs does (including what it keeps after a failed entry).
pub struct Session {
    symtab: Option<crate::compiler::symtab::SymbolTable>,
    constants: Vec<Rc<Object>>,
    globals: Option<Vec<Rc<Object>>>,
}

pub enum Step {
    ParseErrors(Vec<String>),
    CompileError { msg: String, line: usize },
    Ran(Ran),
    Panic(PanicInfo),
}

impl Session {
    pub fn new() -> Self {
        use crate::builtins::functions::BUILTINFNS;
        let mut symtab = crate::compiler::symtab::SymbolTable::default();
        for (i, sym) in BUILTINFNS.iter().enumerate() {
            symtab.define_builtin_fn(i, sym.name);
        }
        for n in BuiltinVarType::range() {
            let name: &str = BuiltinVarType::from(n).into();
            symtab.define_builtin_var(n, name);
        }
        let data = Rc::new(Object::Null);
        Self { symtab: Some(symtab), constants: vec![], globals: Some(vec![data; crate::vm::interpreter::GLOBALS_SIZE]) }
    }

    pub fn num_constants(&self) -> usize {
        self.constants.len()
    }

    pub fn step(&mut self, src: &str) -> Step {
        let parsed = catch(|| {
            let scanner = Scanner::new(src);
            let mut parser = Parser::new(scanner);
            let program = parser.parse_program();
            if !parser.parse_errors().is_empty() {
                Err(parser.parse_errors().clone())
            } else {
                Ok(program)
            }
        });
        let program = match parsed {
            Err(p) => return Step::Panic(p),
            Ok(Err(e)) => return Step::ParseErrors(e),
            Ok(Ok(p)) => p,
        };
        let symtab = self.symtab.take().unwrap();
        let constants = std::mem::take(&mut self.constants);
        let globals = self.globals.take().unwrap();
        let r = catch(move || {
            // as run_prompt does: compile with a copy, a failed line leaves the state untouched
            let mut compiler = Compiler::new_with_state(symtab.clone(), constants.clone());
            if let Err(e) = compiler.compile(program) {
                return (symtab, constants, globals, Err((e.msg.clone(), e.line)));
            }
            let bytecode = compiler.bytecode();
            let mut vm = VM::new_with_global_store(bytecode, globals);
            init_vars(&vm, &[]);
            let res = vm.run();
            let err = res.err().map(|e| (e.msg.clone(), e.line));
            let sp = vm.verif_sp();
            let last = if sp < 4096 { val_of(&vm.last_popped()) } else { Val::Null };
            let g0 = val_of(&vm.globals[0]);
            let globals = std::mem::take(&mut vm.globals);
            (compiler.symtab, compiler.constants, globals, Ok(Ran { err, last, g0, sp }))
        });
        match r {
            Ok((s, c, g, res)) => {
                self.symtab = Some(s);
                self.constants = c;
                self.globals = Some(g);
                match res {
                    Ok(ran) => Step::Ran(ran),
                    Err((msg, line)) => Step::CompileError { msg, line },
                }
            }
            Err(p) => {
                // state was moved into the panicking closure: start afresh
                *self = Session::new();
                Step::Panic(p)
            }
        }
    }
}

/// Run a computation on a thread with a big stack (the parser and the
/// reference interpreter recurse).
pub fn with_big_stack<T: Send + 'static>(f: impl FnOnce() -> T + Send + 'static) -> T {
    std::thread::Builder::new().stack_size(256 << 20).spawn(f).unwrap().join().unwrap()
}
