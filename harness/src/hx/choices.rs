//! Choice-sequence source: every structured generator is a deterministic
//! function of a byte slice.  Exhausted input yields 0 (= the simplest
//! alternative), so generation always terminates and "smaller / shorter bytes
//! = simpler case", which is what lets proptest's byte-vector shrinking shrink
//! the structured case.

pub struct Choices<'a> {
    data: &'a [u8],
    pos: usize,
}

impl<'a> Choices<'a> {
    pub fn new(data: &'a [u8]) -> Self {
        Self { data, pos: 0 }
    }
    pub fn exhausted(&self) -> bool {
        self.pos >= self.data.len()
    }
    pub fn consumed(&self) -> usize {
        self.pos.min(self.data.len())
    }
    pub fn byte(&mut self) -> u8 {
        let b = if self.pos < self.data.len() { self.data[self.pos] } else { 0 };
        self.pos += 1;
        b
    }
    /// value in 0..n, monotone in the drawn bytes (n >= 1)
    pub fn below(&mut self, n: usize) -> usize {
        if n <= 1 {
            return 0;
        }
        if n <= 256 {
            (self.byte() as usize * n) >> 8
        } else if n <= 65536 {
            let v = ((self.byte() as usize) << 8) | self.byte() as usize;
            (v * n) >> 16
        } else {
            let v = self.u32() as u64;
            ((v * n as u64) >> 32) as usize
        }
    }
    /// inclusive range
    pub fn range(&mut self, lo: i64, hi: i64) -> i64 {
        debug_assert!(lo <= hi);
        lo + self.below((hi - lo + 1) as usize) as i64
    }
    pub fn bool(&mut self) -> bool {
        self.byte() & 1 == 1
    }
    /// true with probability about num/den (false when exhausted)
    pub fn chance(&mut self, num: usize, den: usize) -> bool {
        self.below(den) >= den - num
    }
    pub fn u16(&mut self) -> u16 {
        ((self.byte() as u16) << 8) | self.byte() as u16
    }
    pub fn u32(&mut self) -> u32 {
        ((self.u16() as u32) << 16) | self.u16() as u32
    }
    pub fn u64(&mut self) -> u64 {
        ((self.u32() as u64) << 32) | self.u32() as u64
    }
    pub fn pick<'b, T: ?Sized>(&mut self, items: &'b [&'b T]) -> &'b T {
        items[self.below(items.len())]
    }
    pub fn pick_s(&mut self, items: &[&'static str]) -> &'static str {
        items[self.below(items.len())]
    }
    pub fn pickv<'b, T>(&mut self, items: &'b [T]) -> &'b T {
        &items[self.below(items.len())]
    }
    pub fn bytes(&mut self, n: usize) -> Vec<u8> {
        (0..n).map(|_| self.byte()).collect()
    }
}

/// splitmix64: used only to derive per-shard seeds from VERIF_SEED and for
/// stable case hashing, never for case generation.
pub fn mix64(mut x: u64) -> u64 {
    x = x.wrapping_add(0x9E3779B97F4A7C15);
    let mut z = x;
    z = (z ^ (z >> 30)).wrapping_mul(0xBF58476D1CE4E5B9);
    z = (z ^ (z >> 27)).wrapping_mul(0x94D049BB133111EB);
    z ^ (z >> 31)
}

pub fn hash_bytes(b: &[u8]) -> u64 {
    // FNV-1a 64 followed by a mix
    let mut h: u64 = 0xcbf29ce484222325;
    for &x in b {
        h ^= x as u64;
        h = h.wrapping_mul(0x100000001b3);
    }
    mix64(h)
}

pub fn hash_str(s: &str) -> u64 {
    hash_bytes(s.as_bytes())
}
