//! C03 — expressions group according to the documented precedence and associativity.

use serde_json::{json, Value};

use super::super::ast::*;
use super::super::choices::{hash_str, Choices};
use super::super::engine::*;
use super::super::interp::{to_val, Interp, Stop};
use super::super::p2::{run_text, Outcome, Val};
use super::Meta;

pub const META: Meta = Meta {
    rule: "(pairs, exhaustive) every ordered pair of the 18 binary operators * / % + - << >> & ^ | == != < > <= >= && || in both nesting positions ((a op1 b) op2 c and a op1 (b op2 c)) x 12 leaf \
assignments (small ints and booleans, chosen so that arithmetic, bitwise, relational and logical groupings type-check); every prefix operator ! - ~ x binary operator in both positions; prefix x postfix \
(index, call) and postfix x binary; assignment chains a = b = e and a = e1 op e2; (contexts) every operator pair again inside ten surroundings that put the parser into another mode first (after a match with `_`, `|` and range patterns, as the body of a default / range / or-pattern arm, in a function body, an if branch, after a match inside an array literal): the grouping must not depend on the surrounding; (triples, thorough) every operator triple in all 5 tree shapes; (random, proptest) trees to depth 4. \
Each tree is rendered (1) with only the parentheses the documented table (docs/language/expression-precedence.md, transcribed into the harness) requires and (2) fully parenthesised; both texts go through \
the real pipeline and must give the same outcome (value, or runtime error). Non-trivial: the harness's evaluator finds a wrong grouping of the same token sequence (one rotation of the tree) whose outcome \
differs from the intended one, i.e. the case can tell a precedence/associativity bug from none. Distinct by minimal text.",
    assumptions: &["metamorphic relation between two runs of p2sh: a defect changing both texts identically is invisible here (C02/C09 cover the absolute side)", "precedence table transcribed from docs/language/expression-precedence.md"],
    required_classes: &[("pairs", 5_000), ("prefix", 100), ("postfix", 50), ("assign", 20), ("random", 5_000), ("nontrivial", 3_000), ("context", 50_000)],
    exhaustive_when_sections: &["pairs", "prefix", "postfix", "assign"],
};

pub const BIN: &[&str] = &["*", "/", "%", "+", "-", "<<", ">>", "&", "^", "|", "==", "!=", "<", ">", "<=", ">=", "&&", "||"];
pub const PRE: &[&str] = &["!", "-", "~"];

/// documented precedence level: larger binds tighter
/// (docs/language/expression-precedence.md, highest to lowest:
///  [] . () ; unary ! - ~ ; * / % ; + - ; << >> ; & ; ^ ; | ; == != < > <= >= ; && ; || ; .. ..= ; | in patterns ; =)
pub fn level(op: &str) -> u8 {
    match op {
        "*" | "/" | "%" => 12,
        "+" | "-" => 11,
        "<<" | ">>" => 10,
        "&" => 9,
        "^" => 8,
        "|" => 7,
        "==" | "!=" | "<" | ">" | "<=" | ">=" => 6,
        "&&" => 5,
        "||" => 4,
        "=" => 1,
        _ => 0,
    }
}
const UNARY: u8 = 13;
const POSTFIX: u8 = 14;

fn node_level(e: &E) -> u8 {
    match e {
        E::Bin(op, _, _) => level(op),
        E::Un(_, _) => UNARY,
        E::Assign(_, _) => 1,
        _ => 15,
    }
}

/// render with only the parentheses the documented table requires
pub fn min_render(e: &E) -> String {
    match e {
        E::Int(i) => i.to_string(),
        E::Bool(b) => b.to_string(),
        E::Id(n) => n.clone(),
        E::Bin(op, a, b) => {
            let p = level(op);
            // left-to-right: a left child of the same level needs no parentheses, a right child does
            let l = if node_level(a) < p { format!("({})", min_render(a)) } else { min_render(a) };
            let r = if node_level(b) <= p { format!("({})", min_render(b)) } else { min_render(b) };
            format!("{} {} {}", l, op, r)
        }
        E::Un(op, x) => {
            let inner = if node_level(x) < UNARY { format!("({})", min_render(x)) } else { min_render(x) };
            format!("{}{}", op, inner)
        }
        E::Idx(a, i) => {
            let l = if node_level(a) < POSTFIX { format!("({})", min_render(a)) } else { min_render(a) };
            format!("{}[{}]", l, min_render(i))
        }
        E::Call(f, args) => {
            let l = if node_level(f) < POSTFIX { format!("({})", min_render(f)) } else { min_render(f) };
            format!("{}({})", l, args.iter().map(min_render).collect::<Vec<_>>().join(", "))
        }
        E::Assign(t, v) => {
            // right to left: the value needs no parentheses even when it is an assignment
            format!("{} = {}", min_render(t), min_render(v))
        }
        other => render_expr(other),
    }
}

/// fully parenthesised rendering
pub fn full_render(e: &E) -> String {
    match e {
        E::Bin(op, a, b) => format!("({} {} {})", full_render(a), op, full_render(b)),
        E::Un(op, x) => format!("({}{})", op, full_render(x)),
        E::Idx(a, i) => format!("({}[{}])", full_render(a), full_render(i)),
        E::Call(f, args) => format!("({}({}))", full_render(f), args.iter().map(full_render).collect::<Vec<_>>().join(", ")),
        E::Assign(t, v) => format!("{} = ({})", min_render(t), full_render_assign_value(v)),
        other => min_render(other),
    }
}

fn full_render_assign_value(v: &E) -> String {
    match v {
        E::Assign(..) => full_render(v),
        other => full_render(other),
    }
}

const PRELUDE: &str = "let arr = [3, 5, 7]; let inc = fn(v) { v + 1 }; let x = 0; let y = 0; let z = 0;\n";

fn prelude_ast() -> Vec<S> {
    vec![
        S::Let("arr".into(), E::Arr(vec![E::Int(3), E::Int(5), E::Int(7)])),
        S::Let("inc".into(), E::Fn(vec!["v".into()], vec![S::Expr(bin("+", id("v"), E::Int(1)))])),
        S::Let("x".into(), E::Int(0)),
        S::Let("y".into(), E::Int(0)),
        S::Let("z".into(), E::Int(0)),
    ]
}

#[derive(Clone, Debug, PartialEq)]
enum Out {
    Value(String),
    Error,
    Other(String),
}

fn p2_outcome(text: &str, probe_vars: bool) -> Out {
    // the expression's value, then (for assignments) the variables
    let src = if probe_vars { format!("{}let r = [{}, 0]; [r[0], x, y, z]", PRELUDE, text) } else { format!("{}{}", PRELUDE, text) };
    match run_text(&src) {
        Outcome::Ran(r) => match r.err {
            Some(_) => Out::Error,
            None => Out::Value(r.last.show()),
        },
        Outcome::Panic(p) => Out::Other(format!("PANIC {}", p.signature())),
        o => Out::Other(o.tag()),
    }
}

fn ref_outcome(e: &E) -> Option<Out> {
    let mut prog = prelude_ast();
    prog.push(S::Expr(e.clone()));
    let mut it = Interp::new(20_000);
    let (_, r) = it.run_program(&prog);
    match r {
        Ok(v) => Some(Out::Value(to_val(&v).show())),
        Err(Stop::Error(..)) => Some(Out::Error),
        _ => None,
    }
}

/// all trees obtained by one rotation (re-association of two neighbouring operators)
fn rotations(e: &E) -> Vec<E> {
    let mut out = Vec::new();
    match e {
        E::Bin(op2, l, r) => {
            if let E::Bin(op1, a, b) = &**l {
                // (a op1 b) op2 r  ->  a op1 (b op2 r)
                out.push(E::Bin(op1.clone(), a.clone(), Box::new(E::Bin(op2.clone(), b.clone(), r.clone()))));
            }
            if let E::Bin(op3, b, c) = &**r {
                // l op2 (b op3 c) -> (l op2 b) op3 c
                out.push(E::Bin(op3.clone(), Box::new(E::Bin(op2.clone(), l.clone(), b.clone())), c.clone()));
            }
            if let E::Un(u, a) = &**l {
                // (u a) op2 r -> u (a op2 r)
                out.push(E::Un(u.clone(), Box::new(E::Bin(op2.clone(), a.clone(), r.clone()))));
            }
            for x in rotations(l) {
                out.push(E::Bin(op2.clone(), Box::new(x), r.clone()));
            }
            for x in rotations(r) {
                out.push(E::Bin(op2.clone(), l.clone(), Box::new(x)));
            }
        }
        E::Un(u, x) => {
            if let E::Bin(op, a, b) = &**x {
                // u (a op b) -> (u a) op b
                out.push(E::Bin(op.clone(), Box::new(E::Un(u.clone(), a.clone())), b.clone()));
            }
            if let E::Idx(a, i) = &**x {
                // u (a[i]) -> (u a)[i]
                out.push(E::Idx(Box::new(E::Un(u.clone(), a.clone())), i.clone()));
            }
            if let E::Call(f, args) = &**x {
                out.push(E::Call(Box::new(E::Un(u.clone(), f.clone())), args.clone()));
            }
            for y in rotations(x) {
                out.push(E::Un(u.clone(), Box::new(y)));
            }
        }
        E::Idx(a, i) => {
            if let E::Bin(op, l, r) = &**a {
                // (l op r)[i] -> l op (r[i])
                out.push(E::Bin(op.clone(), l.clone(), Box::new(E::Idx(r.clone(), i.clone()))));
            }
            if let E::Un(u, x) = &**a {
                out.push(E::Un(u.clone(), Box::new(E::Idx(x.clone(), i.clone()))));
            }
        }
        E::Call(f, args) => {
            if let E::Bin(op, l, r) = &**f {
                out.push(E::Bin(op.clone(), l.clone(), Box::new(E::Call(r.clone(), args.clone()))));
            }
            if let E::Un(u, x) = &**f {
                out.push(E::Un(u.clone(), Box::new(E::Call(x.clone(), args.clone()))));
            }
        }
        _ => {}
    }
    out
}

fn ops_of(e: &E, out: &mut Vec<String>) {
    match e {
        E::Bin(op, a, b) => {
            ops_of(a, out);
            out.push(op.clone());
            ops_of(b, out);
        }
        E::Un(op, x) => {
            out.push(format!("u{}", op));
            ops_of(x, out);
        }
        E::Idx(a, _) => {
            ops_of(a, out);
            out.push("[]".into());
        }
        E::Call(f, _) => {
            ops_of(f, out);
            out.push("()".into());
        }
        E::Assign(_, v) => {
            out.push("=".into());
            ops_of(v, out);
        }
        _ => {}
    }
}

fn check_tree(ctx: &mut Ctx, section: &str, class: &str, e: &E) -> Vec<Violation> {
    let min = min_render(e);
    let full = full_render(e);
    guard(section, "src", &min);
    let assign = matches!(e, E::Assign(..));
    let a = p2_outcome(&min, assign);
    let b = p2_outcome(&full, assign);
    // non-trivial: some single rotation evaluates differently
    let intended = ref_outcome(e);
    let mut nontrivial = false;
    if let Some(i) = &intended {
        for r in rotations(e) {
            if let Some(o) = ref_outcome(&r) {
                if &o != i {
                    nontrivial = true;
                    break;
                }
            }
        }
    }
    if assign {
        nontrivial = true;
    }
    ctx.case(hash_str(&min), nontrivial);
    ctx.class(class);
    if nontrivial {
        ctx.class("nontrivial");
    }
    if ctx.want_sample() && nontrivial && ctx.res.evals % 257 == 5 {
        ctx.sample(json!({"minimal": min, "full": full, "outcome": format!("{:?}", a)}));
    }
    let mut out = Vec::new();
    let mut ops = Vec::new();
    ops_of(e, &mut ops);
    ops.truncate(3);
    let case = json!({ "tree": e });
    if let Out::Other(t) = &a {
        let sig = if t.starts_with("PANIC ") { t[6..].to_string() } else { format!("minimal-text-rejected:{}", ops.join(",")) };
        out.push(Violation::new(section, sig, format!("the minimally parenthesised text `{}` did not run: {}", min, t), case));
    } else if a != b {
        out.push(Violation::new(
            section,
            format!("grouping:{}", ops.join(",")),
            format!("`{}` evaluates to {:?} but the fully parenthesised `{}` evaluates to {:?}", min, a, full, b),
            case,
        ));
    }
    out
}

fn leafsets() -> Vec<[E; 3]> {
    let i = |v: i64| E::Int(v);
    let t = E::Bool(true);
    let f = E::Bool(false);
    vec![
        [i(7), i(2), i(3)],
        [i(1), i(5), i(2)],
        [i(9), i(4), i(1)],
        [i(2), i(3), i(8)],
        [i(6), i(6), i(2)],
        [i(0), i(1), i(3)],
        [i(8), i(1), i(1)],
        [t.clone(), f.clone(), t.clone()],
        [f.clone(), t.clone(), f.clone()],
        [i(3), i(3), t.clone()],
        [t.clone(), i(2), i(5)],
        [i(5), f.clone(), i(1)],
    ]
}

fn pairs(ctx: &mut Ctx) {
    let mut idx = 0u64;
    for op1 in BIN {
        for op2 in BIN {
            for ls in leafsets() {
                for shape in 0..2 {
                    idx += 1;
                    if !ctx.mine(idx) {
                        continue;
                    }
                    let [a, b, c] = ls.clone();
                    let e = if shape == 0 { bin(op2, bin(op1, a, b), c) } else { bin(op1, a, bin(op2, b, c)) };
                    for v in check_tree(ctx, "pairs", "pairs", &e) {
                        ctx.report(v);
                    }
                }
            }
        }
    }
    ctx.exhaustive("pairs");
}

/// Surroundings in which an expression is parsed by the same parser instance after (or inside) constructs that
/// switch the parser into another mode: match patterns (`|`, `..`, `_`), arm bodies, function and block bodies.
/// (pre, open, close): the program is PRELUDE + pre + `let r = [` + open + TEXT + close + `, 0]; [r[0], x, y, z]`.
const CONTEXTS: &[(&str, &str, &str, &str)] = &[
    ("after-match-default", "let pre = match 2 { 1 => 10, _ => 20 };\n", "", ""),
    ("after-fn-with-match", "fn cls(n) { match n { 0..5 => \"s\", 7 | 9 => \"o\", _ => \"x\" } }\n", "", ""),
    ("after-match-or-pattern", "let pre = match 3 { 1 | 3 => 1, 4..=6 => 2 };\n", "", ""),
    ("default-arm-body", "", "match 99 { 1 => 0, _ => ", " }"),
    ("range-arm-body", "", "match 4 { 1..9 => ", ", _ => 0 }"),
    ("or-arm-body", "", "match 4 { 3 | 4 => ", ", _ => 0 }"),
    ("arm-block-body", "", "match 4 { 3 | 4 => { ", " } _ => { 0 } }"),
    ("fn-body", "", "fn() { ", " }()"),
    ("call-argument", "", "inc(inc)(", ")"),
    ("after-match-in-array", "", "[match 1 { _ => 5 }, ", "][1]"),
    ("if-branch", "", "if 1 < 2 { ", " } else { 0 }"),
];

fn in_context(k: usize, text: &str) -> String {
    let (_, pre, open, close) = CONTEXTS[k];
    format!("{}{}let r = [{}{}{}, 0]; [r[0], x, y, z]", PRELUDE, pre, open, text, close)
}

fn outcome_of(src: &str) -> Out {
    match run_text(src) {
        Outcome::Ran(r) => match r.err {
            Some(_) => Out::Error,
            None => Out::Value(r.last.show()),
        },
        Outcome::Panic(p) => Out::Other(format!("PANIC {}", p.signature())),
        o => Out::Other(o.tag()),
    }
}

/// the grouping of an expression does not depend on what the parser has seen before it
fn contexts(ctx: &mut Ctx) {
    let mut idx = 0u64;
    for op1 in BIN {
        for op2 in BIN {
            for ls in leafsets() {
                for shape in 0..2 {
                    idx += 1;
                    if !ctx.mine(idx) {
                        continue;
                    }
                    let [a, b, c] = ls.clone();
                    let e = if shape == 0 { bin(op2, bin(op1, a, b), c) } else { bin(op1, a, bin(op2, b, c)) };
                    let min = min_render(&e);
                    let full = full_render(&e);
                    // a call argument that is not a function only tells groupings apart by the error: leave it to the others
                    for k in 0..CONTEXTS.len() {
                        if CONTEXTS[k].0 == "call-argument" {
                            continue;
                        }
                        let (smin, sfull) = (in_context(k, &min), in_context(k, &full));
                        guard("contexts", "src", &smin);
                        let (oa, ob) = (outcome_of(&smin), outcome_of(&sfull));
                        ctx.case(hash_str(&smin), min != full);
                        ctx.class("context");
                        if ctx.want_sample() && ctx.res.evals % 1009 == 7 {
                            ctx.sample(json!({"context": CONTEXTS[k].0, "minimal": smin, "outcome": format!("{:?}", oa)}));
                        }
                        // only groupings are judged here: a surrounding that does not take the bare text at all is not this section's business
                        if matches!(oa, Out::Other(_)) || matches!(ob, Out::Other(_)) {
                            if let Out::Other(t) = &oa {
                                if t.starts_with("PANIC ") {
                                    ctx.report(Violation::new("contexts", t[6..].to_string(), format!("`{}` crashed", smin), json!({"tree": e, "context": k})));
                                }
                            }
                            continue;
                        }
                        if oa != ob {
                            ctx.report(Violation::new(
                                "contexts",
                                format!("grouping-in-context:{}:{},{}", CONTEXTS[k].0, op1, op2),
                                format!("in the surrounding `{}` the text `{}` evaluates to {:?} but the fully parenthesised `{}` evaluates to {:?}", CONTEXTS[k].0, min, oa, full, ob),
                                json!({"tree": e, "context": k}),
                            ));
                        }
                    }
                }
            }
        }
    }
}

fn prefix_postfix_assign(ctx: &mut Ctx) {
    let mut idx = 0u64;
    let leaves = [E::Int(7), E::Int(2), E::Bool(true), E::Int(0)];
    for u in PRE {
        for op in BIN {
            for a in &leaves {
                for b in &leaves {
                    idx += 1;
                    if !ctx.mine(idx) {
                        continue;
                    }
                    for e in [bin(op, un(u, a.clone()), b.clone()), un(u, bin(op, a.clone(), b.clone())), bin(op, a.clone(), un(u, b.clone()))] {
                        for v in check_tree(ctx, "prefix", "prefix", &e) {
                            ctx.report(v);
                        }
                    }
                }
            }
        }
        for u2 in PRE {
            idx += 1;
            if ctx.mine(idx) {
                for a in &leaves {
                    for v in check_tree(ctx, "prefix", "prefix", &un(u, un(u2, a.clone()))) {
                        ctx.report(v);
                    }
                }
            }
        }
    }
    ctx.exhaustive("prefix");
    // postfix: index and call bind tighter than prefix and binary operators
    for u in PRE {
        idx += 1;
        if !ctx.mine(idx) {
            continue;
        }
        for e in [
            un(u, idx_(id("arr"), E::Int(1))),
            un(u, call("inc", vec![E::Int(4)])),
            idx_(E::Arr(vec![un(u, E::Int(3)), E::Int(9)]), E::Int(0)),
        ] {
            for v in check_tree(ctx, "postfix", "postfix", &e) {
                ctx.report(v);
            }
        }
    }
    for op in BIN {
        idx += 1;
        if !ctx.mine(idx) {
            continue;
        }
        for e in [
            bin(op, idx_(id("arr"), E::Int(0)), idx_(id("arr"), E::Int(2))),
            bin(op, call("inc", vec![E::Int(1)]), call("inc", vec![E::Int(6)])),
            bin(op, E::Int(2), idx_(id("arr"), bin(op, E::Int(0), E::Int(1)))),
            idx_(id("arr"), bin(op, E::Int(5), E::Int(4))),
            call("inc", vec![bin(op, E::Int(7), E::Int(2))]),
            bin(op, call("inc", vec![idx_(id("arr"), E::Int(0))]), E::Int(3)),
        ] {
            for v in check_tree(ctx, "postfix", "postfix", &e) {
                ctx.report(v);
            }
        }
    }
    ctx.exhaustive("postfix");
    // assignment: lowest precedence, right to left
    for op in BIN {
        idx += 1;
        if !ctx.mine(idx) {
            continue;
        }
        for e in [
            assign(id("x"), bin(op, E::Int(7), E::Int(2))),
            assign(id("x"), assign(id("y"), bin(op, E::Int(6), E::Int(3)))),
            assign(id("x"), assign(id("y"), assign(id("z"), E::Int(4)))),
            assign(id("x"), un("-", bin(op, E::Int(1), E::Int(2)))),
            assign(id("x"), bin(op, un("-", E::Int(1)), E::Int(2))),
            assign(id("x"), bin(op, bin("+", E::Int(1), E::Int(2)), E::Int(3))),
            assign(idx_(id("arr"), E::Int(0)), assign(id("y"), bin(op, E::Int(8), E::Int(1)))),
        ] {
            for v in check_tree(ctx, "assign", "assign", &e) {
                ctx.report(v);
            }
        }
    }
    ctx.exhaustive("assign");
}

fn idx_(a: E, i: E) -> E {
    E::Idx(Box::new(a), Box::new(i))
}

fn triples(ctx: &mut Ctx) {
    let mut idx = 0u64;
    let ls = leafsets();
    for o1 in BIN {
        for o2 in BIN {
            for o3 in BIN {
                idx += 1;
                if !ctx.mine(idx) {
                    continue;
                }
                let l = &ls[(idx % ls.len() as u64) as usize];
                let (a, b, c, d) = (l[0].clone(), l[1].clone(), l[2].clone(), E::Int(4));
                let shapes = [
                    bin(o3, bin(o2, bin(o1, a.clone(), b.clone()), c.clone()), d.clone()),
                    bin(o3, bin(o1, a.clone(), bin(o2, b.clone(), c.clone())), d.clone()),
                    bin(o2, bin(o1, a.clone(), b.clone()), bin(o3, c.clone(), d.clone())),
                    bin(o1, a.clone(), bin(o3, bin(o2, b.clone(), c.clone()), d.clone())),
                    bin(o1, a.clone(), bin(o2, b.clone(), bin(o3, c.clone(), d.clone()))),
                ];
                for e in shapes {
                    for v in check_tree(ctx, "triples", "triples", &e) {
                        ctx.report(v);
                    }
                }
            }
        }
    }
    ctx.exhaustive("triples");
}

fn rand_tree(c: &mut Choices, depth: usize) -> E {
    if depth == 0 || c.below(5) == 0 {
        return match c.below(8) {
            0 => E::Bool(c.bool()),
            1 => idx_(id("arr"), E::Int(c.range(0, 2))),
            2 => call("inc", vec![E::Int(c.range(0, 9))]),
            _ => E::Int(c.range(0, 9)),
        };
    }
    match c.below(8) {
        0 => un(c.pick(PRE), rand_tree(c, depth - 1)),
        _ => {
            let op = c.pick(BIN);
            bin(op, rand_tree(c, depth - 1), rand_tree(c, depth - 1))
        }
    }
}

pub fn run(ctx: &mut Ctx) {
    pairs(ctx);
    contexts(ctx);
    prefix_postfix_assign(ctx);
    if ctx.tier == Tier::Thorough {
        triples(ctx);
    }
    ctx.more_samples(3);
    let n = ctx.nshards as u32;
    drive(ctx, "random", ctx.tier.pick(160_000, 1_600_000) / n, 8, 80, |ctx, bytes| {
        let mut c = Choices::new(bytes);
        let e = rand_tree(&mut c, 4);
        check_tree(ctx, "random", "random", &e)
    });
}

pub fn replay(section: &str, case: &Value, ctx: &mut Ctx) {
    match serde_json::from_value::<E>(case["tree"].clone()) {
        Ok(e) if case.get("context").is_some() => {
            let k = (case["context"].as_u64().unwrap_or(0) as usize).min(CONTEXTS.len() - 1);
            let (smin, sfull) = (in_context(k, &min_render(&e)), in_context(k, &full_render(&e)));
            let (oa, ob) = (outcome_of(&smin), outcome_of(&sfull));
            if !matches!(oa, Out::Other(_)) && !matches!(ob, Out::Other(_)) && oa != ob {
                ctx.report(Violation::new("contexts", format!("grouping-in-context:{}", CONTEXTS[k].0), format!("`{}`: {:?} vs {:?}", smin, oa, ob), case.clone()));
            }
        }
        Ok(e) => {
            for v in check_tree(ctx, section, "replay", &e) {
                ctx.report(v);
            }
        }
        Err(_) => ctx.infra("C03 replay: case has no tree"),
    }
}

#[allow(dead_code)]
fn _unused(_: &Val) {}
