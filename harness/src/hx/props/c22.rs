//! C22 — operating-system I/O failures become error objects, not crashes.

use serde_json::{json, Value};

use super::super::choices::{hash_str, Choices};
use super::super::e2e::{self, Opts, Stdin};
use super::super::engine::*;
use super::super::p2::{run_text, Outcome, Val};
use super::super::pcapfile::{fill, scratch, GHdr, PcapFile, Rec, MAGIC_US};
use super::Meta;

pub const META: Meta = Meta {
    rule: "(sequences, proptest, in-process) scripts made of 1..6 scenarios, each aiming one builtin at a failing target prepared in a scratch directory and logging is_error of every result: open on a missing file (ENOENT), on a directory for \
writing (EISDIR), with mode x on an existing file (EEXIST), through a regular file (ENOTDIR); read / read(n) / read_line / read_to_string on a handle of a directory (EISDIR) and of /proc/self/mem (EIO); write and flush on /dev/full (ENOSPC; small buffered \
writes may succeed, then flush must report it; a write larger than the buffer must report it); pcap_open on a missing file, a directory, garbage, a short header, an empty file, /proc/self/mem, and with w/x on failing paths; pcap_write of a 9000-byte \
packet to /dev/full. Every call marked must-fail has to return an error object (is_error true) and the script has to run to its end: a runtime error or a panic is a violation. \
(process, e2e) the real binary with stdin = garbage / empty / short / a directory for pcap_stream(stdin), read(stdin), read_line(stdin), and stdout = /dev/full for write(stdout, ..) + flush(stdout) and pcap_stream(stdout) + pcap_write. \
Non-trivial: every case (each contains at least one must-fail call); distinct by script text.",
    assumptions: &[
        "EACCES is exercised by running the real binary as uid/gid 65534 against a mode-000 file and a directory owned by root (the checks themselves run as root, which bypasses permission bits); if the sandbox forbids dropping privileges those runs fail to spawn and are reported as inconclusive",
        "a small write into a buffered writer on a full device may report success; the failure must then surface at flush",
        "print / println to a failing stdout are not in the property's list and are not exercised",
    ],
    required_classes: &[("sequence", 3_000), ("scn:open-missing", 300), ("scn:dir-read", 300), ("scn:devfull", 300), ("scn:pcap-open-bad", 300), ("scn:eio", 200), ("process", 40)],
    exhaustive_when_sections: &[],
};

struct Targets {
    dir: String,
    file: String,
    missing: String,
    notdir_child: String,
    valid_pcap: String,
    garbage_pcap: String,
    short_pcap: String,
    empty: String,
}

fn prepare() -> Targets {
    let base = scratch("c22");
    let _ = std::fs::create_dir_all(format!("{}/adir", base));
    let t = Targets {
        dir: format!("{}/adir", base),
        file: format!("{}/afile", base),
        missing: format!("{}/nope/missing.dat", base),
        notdir_child: format!("{}/afile/child", base),
        valid_pcap: format!("{}/valid.pcap", base),
        garbage_pcap: format!("{}/garbage.pcap", base),
        short_pcap: format!("{}/short.pcap", base),
        empty: format!("{}/empty.pcap", base),
    };
    let _ = std::fs::write(&t.file, b"hello\nworld\n");
    let _ = std::fs::remove_file(format!("{}/nope", base));
    let f = PcapFile {
        hdr: GHdr { magic: MAGIC_US, major: 2, minor: 4, thiszone: 0, sigfigs: 0, snaplen: 65535, linktype: 1 },
        recs: vec![Rec { sec: 1, usec: 2, wirelen: 9000, data: fill(7, 9000) }, Rec { sec: 3, usec: 4, wirelen: 60, data: fill(8, 60) }],
    };
    let _ = std::fs::write(&t.valid_pcap, f.bytes());
    let _ = std::fs::write(&t.garbage_pcap, fill(99, 64));
    let _ = std::fs::write(&t.short_pcap, &f.bytes()[..10]);
    let _ = std::fs::write(&t.empty, b"");
    // a valid global header followed by something that is not a pcap record (caplen far above snaplen)
    {
        let mut b = f.bytes()[..24].to_vec();
        b.extend_from_slice(&[1, 0, 0, 0, 2, 0, 0, 0, 0xff, 0xff, 0xff, 0x7f, 9, 0, 0, 0]);
        b.extend_from_slice(&fill(5, 200));
        let _ = std::fs::write(format!("{}/badrec.pcap", base), b);
        // the same with a global header that announces a snap length within a few bytes of u32::MAX
        for (i, snap) in [0xffff_fffcu32, 0xffff_fffd, 0xffff_fffe].iter().enumerate() {
            let mut h = f.bytes()[..24].to_vec();
            h[16..20].copy_from_slice(&snap.to_le_bytes());
            h.extend_from_slice(&[0xff; 16]);
            h.extend_from_slice(&fill(6, 100));
            let _ = std::fs::write(format!("{}/badrec{}.pcap", base, i + 1), h);
        }
    }
    // for the unprivileged runs (EACCES): a file nobody may open, a directory nobody else may write to
    {
        use std::os::unix::fs::PermissionsExt;
        let noperm = format!("{}/noperm", base);
        let _ = std::fs::write(&noperm, b"secret");
        let _ = std::fs::set_permissions(&noperm, std::fs::Permissions::from_mode(0o000));
        let rootdir = format!("{}/rootdir", base);
        let _ = std::fs::create_dir_all(&rootdir);
        let _ = std::fs::set_permissions(&rootdir, std::fs::Permissions::from_mode(0o755));
    }
    t
}

/// what a logged result has to be
#[derive(Clone, Debug, PartialEq)]
enum Need {
    /// is_error must be true
    Fail,
    /// anything
    Any,
    /// at least one entry of this group must be an error
    Group(u32),
}

struct Scn {
    name: &'static str,
    /// script lines; `L(tag, expr)` logs is_error(expr)
    src: String,
    needs: Vec<(String, Need)>,
}

struct B {
    src: String,
    needs: Vec<(String, Need)>,
    n: usize,
    prefix: String,
}

impl B {
    fn new(prefix: &str) -> Self {
        B { src: String::new(), needs: vec![], n: 0, prefix: prefix.to_string() }
    }
    fn tag(&mut self, what: &str) -> String {
        self.n += 1;
        format!("{}.{}:{}", self.prefix, self.n, what)
    }
    /// `let VAR = EXPR; log`
    fn bind(&mut self, var: &str, expr: &str, need: Need, what: &str) {
        let t = self.tag(what);
        self.src.push_str(&format!("let {} = {};\npush(log, [\"{}\", is_error({})]);\n", var, expr, t, var));
        self.needs.push((t, need));
    }
    fn log(&mut self, expr: &str, need: Need, what: &str) {
        let t = self.tag(what);
        self.src.push_str(&format!("push(log, [\"{}\", is_error({})]);\n", t, expr));
        self.needs.push((t, need));
    }
    fn raw(&mut self, s: &str) {
        self.src.push_str(s);
    }
    fn done(self, name: &'static str) -> Scn {
        Scn { name, src: self.src, needs: self.needs }
    }
}

fn read_call(c: &mut Choices, h: &str) -> (String, &'static str) {
    match c.below(4) {
        0 => (format!("read({})", h), "read"),
        1 => (format!("read({}, 10)", h), "read-n"),
        2 => (format!("read_line({})", h), "read_line"),
        _ => (format!("read_to_string({})", h), "read_to_string"),
    }
}

fn scenario(c: &mut Choices, t: &Targets, k: usize) -> Scn {
    let p = format!("s{}", k);
    let mut b = B::new(&p);
    let h = format!("h{}", k);
    match c.below(12) {
        11 => {
            // the header is fine, the first record is not pcap content: whichever read builtin meets it reports it
            let bad = format!("{}/badrec{}.pcap", scratch("c22"), ["", "", "1", "2", "3"][c.below(5)]);
            b.bind(&h, &format!("pcap_open(\"{}\")", bad), Need::Any, "pcap_open-badrec");
            b.raw(&format!("if !is_error({}) {{\n", h));
            match c.below(3) {
                0 => b.log(&format!("pcap_read_all({})", h), Need::Fail, "pcap_read_all-non-pcap-record"),
                1 => b.log(&format!("pcap_read_all({}, 5)", h), Need::Fail, "pcap_read_all-n-non-pcap-record"),
                _ => b.log(&format!("pcap_read_next({})", h), Need::Fail, "pcap_read_next-non-pcap-record"),
            }
            b.raw("}\n");
            b.done("scn:pcap-bad-record")
        }
        0 => {
            let mode = ["", ", \"r\""][c.below(2)];
            b.log(&format!("open(\"{}\"{})", t.missing, mode), Need::Fail, "open-missing");
            b.done("scn:open-missing")
        }
        1 => {
            b.bind(&h, &format!("open(\"{}\")", t.dir), Need::Any, "open-dir");
            let (call, what) = read_call(c, &h);
            b.raw(&format!("if !is_error({}) {{\n", h));
            b.log(&call, Need::Fail, what);
            b.raw("}\n");
            b.done("scn:dir-read")
        }
        2 => {
            let mode = ["w", "a", "x"][c.below(3)];
            b.log(&format!("open(\"{}\", \"{}\")", t.dir, mode), Need::Fail, "open-dir-for-writing");
            b.done("scn:dir-write")
        }
        3 => {
            b.log(&format!("open(\"{}\", \"x\")", t.file), Need::Fail, "open-x-existing");
            b.done("scn:exists-x")
        }
        4 => {
            let mode = ["r", "w", "a", "x"][c.below(4)];
            b.log(&format!("open(\"{}\", \"{}\")", t.notdir_child, mode), Need::Fail, "open-through-file");
            b.done("scn:notdir")
        }
        5 | 6 => {
            // a full device
            let mode = ["w", "a"][c.below(2)];
            b.bind(&h, &format!("open(\"/dev/full\", \"{}\")", mode), Need::Any, "open-devfull");
            b.raw(&format!("if !is_error({}) {{\n", h));
            let g = k as u32;
            let n = c.below(3);
            for _ in 0..n {
                let data = ["\"abc\"", "b'x'", "[b'a', b'b']", "\"line\n\""][c.below(4)];
                b.log(&format!("write({}, {})", h, data), Need::Group(g), "small-write");
            }
            // something must have been written for the flush to meet the full device
            if n == 0 || c.bool() {
                b.log(&format!("write({}, \"x\" * 20000)", h), Need::Group(g), "large-write");
            }
            b.log(&format!("flush({})", h), Need::Group(g), "flush");
            b.raw("}\n");
            b.done("scn:devfull")
        }
        7 => {
            b.bind(&h, "open(\"/proc/self/mem\")", Need::Any, "open-mem");
            let (call, what) = read_call(c, &h);
            b.raw(&format!("if !is_error({}) {{\n", h));
            b.log(&call, Need::Fail, what);
            b.raw("}\n");
            b.done("scn:eio")
        }
        8 | 9 => {
            let (path, what): (&str, &str) = match c.below(7) {
                0 => (&t.missing, "pcap_open-missing"),
                1 => (&t.dir, "pcap_open-dir"),
                2 => (&t.garbage_pcap, "pcap_open-garbage"),
                3 => (&t.short_pcap, "pcap_open-short-header"),
                4 => (&t.empty, "pcap_open-empty"),
                5 => (&t.notdir_child, "pcap_open-through-file"),
                _ => ("/proc/self/mem", "pcap_open-eio"),
            };
            let mode = if c.chance(1, 3) { ", \"r\"" } else { "" };
            b.log(&format!("pcap_open(\"{}\"{})", path, mode), Need::Fail, what);
            if c.chance(1, 3) {
                let (p2, m2, w2): (&str, &str, &str) = match c.below(3) {
                    0 => (&t.valid_pcap, "x", "pcap_open-x-existing"),
                    1 => (&t.dir, "w", "pcap_open-w-dir"),
                    _ => (&t.notdir_child, "w", "pcap_open-w-through-file"),
                };
                b.log(&format!("pcap_open(\"{}\", \"{}\")", p2, m2), Need::Fail, w2);
            }
            b.done("scn:pcap-open-bad")
        }
        _ => {
            // pcap_write of a packet larger than the writer's buffer to a full device
            b.bind(&format!("src{}", k), &format!("pcap_open(\"{}\")", t.valid_pcap), Need::Any, "pcap_open-valid");
            b.bind(&format!("big{}", k), &format!("pcap_read_next(src{})", k), Need::Any, "read-big-packet");
            b.bind(&h, "pcap_open(\"/dev/full\", \"w\")", Need::Any, "pcap_open-devfull");
            b.raw(&format!("if !is_error({}) {{\n", h));
            b.log(&format!("pcap_write({}, big{})", h, k), Need::Fail, "pcap_write-devfull");
            b.raw("}\n");
            b.done("scn:pcap-devfull")
        }
    }
}

fn judge(section: &str, log: &[Val], needs: &[(String, Need)], src: &str, case: &Value) -> Vec<Violation> {
    let mut seen: std::collections::HashMap<String, bool> = std::collections::HashMap::new();
    for e in log {
        if let Val::Arr(a) = e {
            if let (Some(Val::Str(t)), Some(Val::Bool(b))) = (a.first(), a.get(1)) {
                seen.insert(t.clone(), *b);
            }
        }
    }
    let mut out = Vec::new();
    let mut groups: std::collections::BTreeMap<u32, (bool, bool, String)> = Default::default();
    for (t, need) in needs {
        let what = t.split(':').nth(1).unwrap_or("?");
        match (need, seen.get(t)) {
            (Need::Fail, Some(false)) => {
                out.push(Violation::new(section, format!("no-error-object:{}", what), format!("the call logged as {} met an operating-system failure but its result is not an error object\n{}", t, src), case.clone()));
                return out;
            }
            (Need::Group(g), Some(b)) => {
                let e = groups.entry(*g).or_insert((false, false, String::new()));
                e.0 = true;
                e.1 |= *b;
                e.2 = what.to_string();
            }
            _ => {}
        }
    }
    for (_, (present, any_err, _)) in &groups {
        if *present && !*any_err {
            out.push(Violation::new(section, "no-error-object:devfull-write-flush", format!("writes to /dev/full followed by flush: no call reported an error object\n{}", src), case.clone()));
            return out;
        }
    }
    out
}

fn sequence(ctx: &mut Ctx, bytes: &[u8], t: &Targets) -> Vec<Violation> {
    let mut c = Choices::new(bytes);
    let n = 1 + c.below(6);
    let mut src = String::from("let log = [];\n");
    let mut needs = Vec::new();
    let mut names = Vec::new();
    for k in 0..n {
        let s = scenario(&mut c, t, k);
        src.push_str(&s.src);
        needs.extend(s.needs);
        names.push(s.name);
    }
    src.push_str("log");
    ctx.case(hash_str(&src), true);
    ctx.class("sequence");
    for nme in &names {
        ctx.class(nme);
    }
    if ctx.want_sample() && n >= 3 {
        ctx.sample(json!({"scenarios": names, "script_head": src.lines().take(8).collect::<Vec<_>>()}));
    }
    run_seq("sequences", &src, &needs)
}

fn run_seq(section: &str, src: &str, needs: &[(String, Need)]) -> Vec<Violation> {
    let case = json!({"src": src, "needs": needs.iter().map(|(t, n)| json!([t, match n { Need::Fail => "fail".to_string(), Need::Any => "any".to_string(), Need::Group(g) => format!("group:{}", g) }])).collect::<Vec<_>>()});
    guard(section, "script", src);
    let mut out = Vec::new();
    match run_text(src) {
        Outcome::Ran(r) => match (&r.err, &r.last) {
            (Some((m, l)), _) => {
                let line = src.lines().nth(l.saturating_sub(1)).unwrap_or("");
                let what = needs.iter().map(|(t, _)| t.as_str()).find(|t| line.contains(*t)).and_then(|t| t.split(':').nth(1)).unwrap_or("?");
                out.push(Violation::new(section, format!("runtime-error:{}:{}", what, msg_class(m)), format!("line {} `{}` stopped the program with a runtime error: {}\n{}", l, line, m, src), case));
            }
            (None, Val::Arr(log)) => out.extend(judge(section, log, needs, src, &case)),
            (None, o) => out.push(Violation::new(section, "no-log", o.show(), case)),
        },
        Outcome::Panic(p) => out.push(Violation::new(section, p.signature(), format!("{}\n{}", p.describe(), src), case)),
        o => out.push(Violation::new(section, "harness:script-rejected", format!("{}\n{}", o.tag(), src), case)),
    }
    out
}

// ---------------------------------------------------------------- the real binary with failing stdin / stdout

fn process_case(ctx: &mut Ctx, bytes: &[u8], t: &Targets) -> Vec<Violation> {
    let mut c = Choices::new(bytes);
    let which = c.below(12);
    let base = scratch("c22");
    let (src, stdin, stdout, what): (String, Stdin, Option<&str>, &str) = match which {
        // permission denied: the binary runs as an unprivileged user against root's files
        9 => (
            format!("let a = open(\"{b}/noperm\");\nlet b = open(\"{b}/noperm\", \"a\");\nlet c = pcap_open(\"{b}/noperm\");\neprintln(\"R {{}}\", is_error(a) && is_error(b) && is_error(c));\n", b = base),
            Stdin::Null,
            None,
            "eacces-open-unreadable",
        ),
        10 => (
            format!("let a = open(\"{b}/rootdir/new\", \"w\");\nlet b = open(\"{b}/rootdir/new2\", \"x\");\nlet c = open(\"{b}/rootdir/new3\", \"a\");\neprintln(\"R {{}}\", is_error(a) && is_error(b) && is_error(c));\n", b = base),
            Stdin::Null,
            None,
            "eacces-create-in-foreign-directory",
        ),
        11 => (
            format!("let a = pcap_open(\"{b}/rootdir/new.pcap\", \"w\");\nlet b = pcap_open(\"{b}/rootdir/new2.pcap\", \"x\");\neprintln(\"R {{}}\", is_error(a) && is_error(b));\n", b = base),
            Stdin::Null,
            None,
            "eacces-pcap-create",
        ),
        0 => ("let s = pcap_stream(stdin);\neprintln(\"R {}\", is_error(s));\n".into(), Stdin::Bytes(fill(c.u64(), 24 + c.below(60))), None, "pcap_stream-garbage-stdin"),
        1 => ("let s = pcap_stream(stdin);\neprintln(\"R {}\", is_error(s));\n".into(), Stdin::Bytes(vec![]), None, "pcap_stream-empty-stdin"),
        2 => ("let s = pcap_stream(stdin);\neprintln(\"R {}\", is_error(s));\n".into(), Stdin::Bytes(fill(c.u64(), 1 + c.below(23))), None, "pcap_stream-short-stdin"),
        3 => ("let s = pcap_stream(stdin);\neprintln(\"R {}\", is_error(s));\n".into(), Stdin::Path(t.dir.clone()), None, "pcap_stream-directory-stdin"),
        4 => ("let s = read(stdin);\neprintln(\"R {}\", is_error(s));\n".into(), Stdin::Path(t.dir.clone()), None, "read-directory-stdin"),
        5 => ("let s = read_line(stdin);\neprintln(\"R {}\", is_error(s));\n".into(), Stdin::Path(t.dir.clone()), None, "read_line-directory-stdin"),
        6 => ("let a = write(stdout, \"some text\n\");\nlet b = flush(stdout);\neprintln(\"R {}\", is_error(a) || is_error(b));\n".into(), Stdin::Null, Some("/dev/full"), "write-stdout-devfull"),
        7 => (
            "let a = write(stdout, \"x\" * 20000);\nlet b = flush(stdout);\neprintln(\"R {}\", is_error(a) || is_error(b));\n".into(),
            Stdin::Null,
            Some("/dev/full"),
            "large-write-stdout-devfull",
        ),
        _ => (
            format!("let src = pcap_open(\"{}\");\nlet p = pcap_read_next(src);\nlet o = pcap_stream(stdout);\nlet a = if is_error(o) {{ o }} else {{ pcap_write(o, p) }};\nlet b = flush(stdout);\neprintln(\"R {{}}\", is_error(a) || is_error(b));\n", t.valid_pcap),
            Stdin::Null,
            Some("/dev/full"),
            "pcap_write-stdout-devfull",
        ),
    };
    ctx.case(hash_str(&src) ^ which as u64 ^ c.u64(), true);
    ctx.class("process");
    ctx.class(&format!("process:{}", what));
    run_process(ctx, &src, stdin, stdout, what)
}

fn run_process(ctx: &mut Ctx, src: &str, stdin: Stdin, stdout: Option<&str>, what: &str) -> Vec<Violation> {
    let script = e2e::script_file("c22.p2", src);
    let stdin_desc = match &stdin {
        Stdin::Bytes(b) => json!({"bytes": super::super::pkt::hex(b)}),
        Stdin::Path(p) => json!({"path": p}),
        _ => json!(null),
    };
    let case = json!({"process": true, "src": src, "stdin": stdin_desc, "stdout": stdout, "what": what});
    let mut o = Opts::new(vec![script]).stdin(stdin);
    if let Some(p) = stdout {
        o = o.stdout_to(p);
    }
    if what.starts_with("eacces") {
        o = o.as_user(65534);
    }
    let r = e2e::run(o);
    let mut out = Vec::new();
    if r.spawn_error.is_some() || r.timed_out {
        ctx.infra(format!("C22 process run: spawn error / timeout ({:?}) {}", r.spawn_error, what));
        return out;
    }
    let err = r.err_text();
    if let Some(c) = r.crashed() {
        out.push(Violation::new("process", format!("crash:{}", what), format!("{}: the interpreter died: {}\n{}", what, c, src), case));
        return out;
    }
    if err.contains("Runtime error") {
        out.push(Violation::new("process", format!("runtime-error:{}", what), format!("{}: {}\n{}", what, err.trim(), src), case));
        return out;
    }
    if !err.contains("R true") {
        out.push(Violation::new("process", format!("no-error-object:{}", what), format!("{}: stderr {:?}\n{}", what, err, src), case));
    }
    out
}

pub fn run(ctx: &mut Ctx) {
    let t = prepare();
    let n = ctx.nshards as u32;
    drive(ctx, "sequences", ctx.tier.pick(96_000, 1_200_000) / n, 16, 200, |ctx, b| sequence(ctx, b, &t));
    set_shrink_iters(40);
    let e2e_shards = 4.min(ctx.nshards);
    if ctx.shard < e2e_shards {
        drive(ctx, "process", ctx.tier.pick(240, 6_000) / e2e_shards as u32, 8, 64, |ctx, b| process_case(ctx, b, &t));
    }
}

pub fn replay(section: &str, case: &Value, ctx: &mut Ctx) {
    let t = prepare();
    let _ = &t;
    let src = case["src"].as_str().unwrap_or("");
    if case.get("process").is_some() {
        let stdin = if let Some(h) = case["stdin"]["bytes"].as_str() {
            Stdin::Bytes(super::super::pkt::unhex(h))
        } else if case["stdin"]["path"].is_string() {
            Stdin::Path(t.dir.clone())
        } else {
            Stdin::Null
        };
        let what = case["what"].as_str().unwrap_or("?").to_string();
        let so = case["stdout"].as_str().map(|s| s.to_string());
        let src = rebase(src, &scratch("c22"));
        for v in run_process(ctx, &src, stdin, so.as_deref(), &what) {
            ctx.report(v);
        }
        return;
    }
    // paths inside a stored script point into the scratch directory of the run that found it
    let base = scratch("c22");
    let src = rebase(src, &base);
    let needs: Vec<(String, Need)> = case["needs"]
        .as_array()
        .map(|a| {
            a.iter()
                .map(|e| {
                    let t = e[0].as_str().unwrap_or("").to_string();
                    let n = match e[1].as_str().unwrap_or("") {
                        "fail" => Need::Fail,
                        "any" => Need::Any,
                        g => Need::Group(g.trim_start_matches("group:").parse().unwrap_or(0)),
                    };
                    (t, n)
                })
                .collect()
        })
        .unwrap_or_default();
    for v in run_seq(section, &src, &needs) {
        ctx.report(v);
    }
}

/// replace `<anything>/c22/` path prefixes by the current scratch directory
fn rebase(src: &str, base: &str) -> String {
    let mut out = String::new();
    let mut rest = src;
    while let Some(i) = rest.find("/c22/") {
        // back up to the opening quote
        let start = rest[..i].rfind('"').map(|q| q + 1).unwrap_or(i);
        out.push_str(&rest[..start]);
        out.push_str(base);
        out.push('/');
        rest = &rest[i + 5..];
    }
    out.push_str(rest);
    out
}
