//! Property registry: one module per property.

use serde_json::Value;

use super::engine::Ctx;

pub mod c01;
pub mod c02;
pub mod c09;

pub struct Meta {
    /// how cases are generated and what makes one non-trivial / distinct
    pub rule: &'static str,
    pub assumptions: &'static [&'static str],
    /// classes the generator is built to reach, with the minimum count below
    /// which the run is declared unhealthy (exit 2), never a pass
    pub required_classes: &'static [(&'static str, u64)],
    /// the run is flagged `exhaustive` only if all these sections completed
    pub exhaustive_when_sections: &'static [&'static str],
}

pub const ALL: &[&str] = &["C01", "C02", "C09"];

pub fn run(id: &str, ctx: &mut Ctx) {
    match id {
        "C01" => c01::run(ctx),
        "C02" => c02::run(ctx),
        "C09" => c09::run(ctx),
        _ => ctx.infra(format!("no such property {}", id)),
    }
}

pub fn replay(id: &str, section: &str, case: &Value, ctx: &mut Ctx) {
    match id {
        "C01" => c01::replay(section, case, ctx),
        "C02" => c02::replay(section, case, ctx),
        "C09" => c09::replay(section, case, ctx),
        _ => ctx.infra(format!("no such property {}", id)),
    }
}

pub fn meta(id: &str) -> Meta {
    match id {
        "C01" => c01::META,
        "C02" => c02::META,
        "C09" => c09::META,
        _ => Meta { rule: "", assumptions: &[], required_classes: &[], exhaustive_when_sections: &[] },
    }
}
