//! Property registry: one module per property.

use serde_json::Value;

use super::engine::Ctx;

pub struct Meta {
    /// how cases are generated and what makes one non-trivial / distinct
    pub rule: &'static str,
    pub assumptions: &'static [&'static str],
    /// classes the generator is built to reach, with the minimum count below
    /// which the run is declared unhealthy (exit 2), never a pass
    pub required_classes: &'static [(&'static str, u64)],
    /// the run is flagged `exhaustive` only if all these sections completed
    pub exhaustive_when_sections: &'static [&'static str],
}

macro_rules! props {
    ($($id:literal => $m:ident),* $(,)?) => {
        $(pub mod $m;)*
        pub const ALL: &[&str] = &[$($id),*];
        pub fn run(id: &str, ctx: &mut Ctx) {
            match id {
                $($id => $m::run(ctx),)*
                _ => ctx.infra(format!("no such property {}", id)),
            }
        }
        pub fn replay(id: &str, section: &str, case: &Value, ctx: &mut Ctx) {
            // inputs found by the coverage-guided targets are replayed through the same entry point
            if section == "fuzz" {
                let data = super::pkt::unhex(case["bytes"].as_str().unwrap_or(""));
                for v in super::fuzz::fuzz_one(&id.to_lowercase(), &data) {
                    ctx.report(v);
                }
                return;
            }
            match id {
                $($id => $m::replay(section, case, ctx),)*
                _ => ctx.infra(format!("no such property {}", id)),
            }
        }
        pub fn meta(id: &str) -> Meta {
            match id {
                $($id => $m::META,)*
                _ => Meta { rule: "", assumptions: &[], required_classes: &[], exhaustive_when_sections: &[] },
            }
        }
    };
}

props! {
    "C01" => c01,
    "C02" => c02,
    "C03" => c03,
    "C04" => c04,
    "C05" => c05,
    "C06" => c06,
    "C07" => c07,
    "C08" => c08,
    "C09" => c09,
    "C10" => c10,
    "C11" => c11,
    "C12" => c12,
    "C13" => c13,
    "C14" => c14,
    "C15" => c15,
    "C16" => c16,
    "C17" => c17,
    "C18" => c18,
    "C19" => c19,
    "C20" => c20,
    "C21" => c21,
    "C22" => c22,
    "C23" => c23,
    "C24" => c24,
}
