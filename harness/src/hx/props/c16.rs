//! C16 — header accessors decode the RFC-defined fields and layers.

use serde_json::{json, Value};

use super::super::choices::{hash_bytes, Choices};
use super::super::codec::*;
use super::super::engine::*;
use super::super::frames::{gen_frame, stack_frame};
use super::super::p2::{make_packet, Val};
use super::super::pkt::*;
use super::Meta;

pub const META: Meta = Meta {
    rule: "(fields) for every readable property of the Ethernet, VLAN, IPv4, IPv6, TCP and UDP objects: a well-formed frame of one of 8 stacks (incl. VLAN / QinQ, IPv4 and TCP options, IPv6-in-IPv4) with random \
contents in which that field takes every value (width <= 8 bits: all; 9..16 bits: boundaries + 256 random in quick, all 65536 in thorough; wider: boundaries + random), all surrounding bits random; the value read through \
($d).name must equal the reference extraction (bit offset/width table of DESIGN.md Appendix B; addresses compared through a reference parser; payload = bytes after the header that IHL / data offset / the fixed size delimits); \
(dispatch) all 65536 EtherTypes on untagged and VLAN-tagged frames, all 256 IPv4 protocols and IPv6 next headers: $n and the named layer properties must descend exactly into the layer the field selects, yield null for \
unsupported ones and an error object for truncated ones; a mismatching named property (.ipv4 on IPv6, .udp on TCP ...) must never yield a decoded object and must not disturb a later correct access; \
(frames, proptest) structure-aware random frames incl. truncated/corrupted ones: every layer of the reference chain read in full; (record) sec usec nsec caplen wirelen payload of the packet object with random header values. \
Non-trivial: the bits around the field are not all zero, or the dispatch value is not one of the supported ones, or the layer is at depth >= 3. Distinct by frame hash + property.",
    assumptions: &[
        "TCP flags with non-zero reserved bits: 8-, 9- or 12-bit readings accepted; IHL/data offset < 5: payload and deeper layers are don't-care",
        "pcap file-object properties are checked with the file generator of C19",
    ],
    required_classes: &[("field-read", 5_000), ("dispatch:ethertype", 60_000), ("dispatch:proto", 500), ("frame", 10_000), ("mismatch-access", 2_000), ("record", 500)],
    exhaustive_when_sections: &["dispatch"],
};

fn scalar_exprs(depth: usize, layer: Layer) -> (Vec<String>, Vec<&'static Field>) {
    let fs = fields_of(layer);
    (fs.iter().map(|f| format!("(${}).{}", depth, f.name)).collect(), fs)
}

/// read every field and the payload of each layer of the reference chain and compare
pub fn check_frame(ctx: &mut Ctx, section: &str, frame: &[u8], tag: &str) -> Vec<Violation> {
    let pkt = make_packet(1, 2, frame.len() as u32, frame.len() as u32, frame);
    let (chain, end) = parse_chain(frame);
    let case = json!({"frame": hex(frame), "kind": "frame"});
    guard(section, "frame", &hex(frame));
    let mut out = Vec::new();
    let mut below_odd = false;
    for (i, p) in chain.iter().enumerate() {
        let depth = i + 1;
        if below_odd {
            break;
        }
        // `$n` is documented to stop at a fixed protocol depth (MAX_PROTO_DEPTH = 10): deeper stacks
        // (eleven and more VLAN tags ...) are outside what the accessors promise
        if depth > 10 {
            break;
        }
        let (mut exprs, fs) = scalar_exprs(depth, p.layer);
        exprs.push(format!("(${}).payload", depth));
        exprs.push(format!("${}", depth));
        match read_exprs(&pkt, &exprs) {
            Read::Values(vals) => {
                for (k, f) in fs.iter().enumerate() {
                    let ok = if p.layer == Layer::Tcp && f.name == "flags" {
                        tcp_flags_ok(frame, p.start, &vals[k])
                    } else {
                        matches_expected(&expected_field(frame, p.start, f), &vals[k])
                    };
                    if !ok {
                        out.push(Violation::new(
                            section,
                            format!("field:{}.{}", p.layer.name(), f.name),
                            format!("{} (${}).{} = {}, expected {}\nframe: {} (layer starts at {})", tag, depth, f.name, vals[k].show(), show_expected(&expected_field(frame, p.start, f)), hex(frame), p.start),
                            case.clone(),
                        ));
                    }
                }
                if !p.odd_len {
                    let exp = bytes_val(&frame[p.start + p.header_len..]);
                    if !exp.same(&vals[fs.len()]) {
                        out.push(Violation::new(
                            section,
                            format!("payload:{}", p.layer.name()),
                            format!("{} (${}).payload has {} bytes / differs; expected the {} bytes after the {}-byte header\nframe: {}", tag, depth, match &vals[fs.len()] { Val::Arr(a) => a.len(), _ => 0 }, frame.len() - p.start - p.header_len, p.header_len, hex(frame)),
                            case.clone(),
                        ));
                    }
                }
                if !matches!(&vals[fs.len() + 1], Val::Other(t) if t == p.layer.obj_tag()) {
                    out.push(Violation::new(section, format!("layer-kind:{}", p.layer.name()), format!("${} is {} but the dispatch fields select {}\nframe: {}", depth, vals[fs.len() + 1].show(), p.layer.name(), hex(frame)), case.clone()));
                }
            }
            Read::RuntimeError(m) => out.push(Violation::new(
                section,
                format!("layer-unreadable:{}", p.layer.name()),
                format!("{} reading the {} layer at ${} raised: {}\nframe: {}", tag, p.layer.name(), depth, m, hex(frame)),
                case.clone(),
            )),
            Read::Panic(sig, d) => {
                out.push(Violation::new(section, sig, format!("crash reading ${}: {}\nframe: {}", depth, d, hex(frame)), case.clone()));
                return out;
            }
            Read::Other(o) => ctx.infra(format!("C16 harness: {}", o)),
        }
        if p.odd_len {
            below_odd = true;
        }
    }
    // what lies below the last layer of the chain
    if !below_odd {
        let d = chain.len() + 1;
        if d <= 10 {
            match read_exprs(&pkt, &[format!("${}", d)]) {
                Read::Values(v) => {
                    let ok = match &end {
                        ChainEnd::Unsupported | ChainEnd::Leaf => matches!(v[0], Val::Null),
                        ChainEnd::Truncated(_) => matches!(v[0], Val::Err(_)),
                    };
                    if !ok {
                        out.push(Violation::new(
                            section,
                            format!("chain-end:{}", match &end { ChainEnd::Unsupported => "unsupported-not-null", ChainEnd::Leaf => "below-transport-not-null", ChainEnd::Truncated(_) => "truncated-not-error" }),
                            format!("${} is {} but the reference chain ends with {:?}\nframe: {}", d, v[0].show(), end, hex(frame)),
                            case.clone(),
                        ));
                    }
                }
                Read::RuntimeError(m) => out.push(Violation::new(section, "chain-end:runtime-error", format!("${} raised {} (reference chain end {:?})\nframe: {}", d, m, end, hex(frame)), case.clone())),
                Read::Panic(sig, dd) => out.push(Violation::new(section, sig, format!("crash reading ${}: {}\nframe: {}", d, dd, hex(frame)), case.clone())),
                Read::Other(_) => {}
            }
        }
    }
    out
}

/// named layer properties: the selected one decodes, the others yield null / an error object
/// and do not disturb a later correct access
fn check_named(ctx: &mut Ctx, section: &str, frame: &[u8]) -> Vec<Violation> {
    let (chain, end) = parse_chain(frame);
    let case = json!({"frame": hex(frame), "kind": "named"});
    let mut out = Vec::new();
    for (i, p) in chain.iter().enumerate() {
        if p.odd_len {
            break;
        }
        let depth = i + 1;
        let next: Option<Layer> = chain.get(i + 1).map(|x| x.layer);
        let truncated_next = if i + 1 == chain.len() { matches!(&end, ChainEnd::Truncated(_)) } else { false };
        for prop in layer_props(p.layer) {
            // a fresh packet per property: mismatching access first, then the correct one
            let pkt = make_packet(1, 2, frame.len() as u32, frame.len() as u32, frame);
            ctx.class("mismatch-access");
            let exprs = vec![format!("(${}).{}", depth, prop.name()), format!("${}", depth + 1)];
            match read_exprs(&pkt, &exprs) {
                Read::Values(v) => {
                    if Some(*prop) == next {
                        if !matches!(&v[0], Val::Other(t) if t == prop.obj_tag()) {
                            out.push(Violation::new(section, format!("named:{}.{}:not-decoded", p.layer.name(), prop.name()), format!("(${}).{} is {} although the dispatch field selects {}\nframe: {}", depth, prop.name(), v[0].show(), prop.name(), hex(frame)), case.clone()));
                        }
                    } else {
                        if matches!(&v[0], Val::Other(_)) {
                            out.push(Violation::new(
                                section,
                                format!("named:{}.{}:wrong-layer-decoded", p.layer.name(), prop.name()),
                                format!("(${}).{} yields {} but the dispatch field selects {:?}\nframe: {}", depth, prop.name(), v[0].show(), next.map(|l| l.name()), hex(frame)),
                                case.clone(),
                            ));
                        }
                        // the later correctly typed access must be unaffected
                        let ok = match next {
                            Some(l) => matches!(&v[1], Val::Other(t) if t == l.obj_tag()),
                            None => {
                                if truncated_next {
                                    matches!(&v[1], Val::Err(_))
                                } else {
                                    matches!(&v[1], Val::Null)
                                }
                            }
                        };
                        if !ok {
                            out.push(Violation::new(
                                section,
                                format!("named:{}.{}:disturbs-later-access", p.layer.name(), prop.name()),
                                format!("after (${}).{}, ${} is {} (reference: {:?})\nframe: {}", depth, prop.name(), depth + 1, v[1].show(), next.map(|l| l.name()), hex(frame)),
                                case.clone(),
                            ));
                        }
                    }
                }
                Read::RuntimeError(m) => out.push(Violation::new(section, format!("named:{}.{}:runtime-error", p.layer.name(), prop.name()), format!("(${}).{} raised {}\nframe: {}", depth, prop.name(), m, hex(frame)), case.clone())),
                Read::Panic(sig, d) => out.push(Violation::new(section, sig, format!("crash: {}\nframe: {}", d, hex(frame)), case.clone())),
                Read::Other(_) => {}
            }
            // the other order: the layer below has already been parsed (and cached) through `$n`; a named property
            // that the dispatch field does not select must still not hand out that cached object
            if Some(*prop) != next {
                let pkt2 = make_packet(1, 2, frame.len() as u32, frame.len() as u32, frame);
                let exprs2 = vec![format!("${}", depth + 1), format!("(${}).{}", depth, prop.name())];
                if let Read::Values(v) = read_exprs(&pkt2, &exprs2) {
                    if matches!(&v[1], Val::Other(_)) {
                        out.push(Violation::new(
                            section,
                            format!("named:{}.{}:wrong-layer-after-cached-access", p.layer.name(), prop.name()),
                            format!("after ${}, (${}).{} yields {} but the dispatch field selects {:?}\nframe: {}", depth + 1, depth, prop.name(), v[1].show(), next.map(|l| l.name()), hex(frame)),
                            case.clone(),
                        ));
                    }
                }
            }
        }
    }
    out
}

fn field_values(c: &mut Choices, width: usize, thorough: bool) -> Vec<u128> {
    let max: u128 = if width >= 128 { u128::MAX } else { (1u128 << width) - 1 };
    if width <= 8 {
        return (0..=max).collect();
    }
    if width <= 16 && thorough {
        return (0..=max).collect();
    }
    let mut v: Vec<u128> = vec![0, 1, max, max - 1, max / 2, max / 2 + 1, 1 << (width - 1), 0x5555_5555_5555_5555_5555_5555_5555_5555 & max, 0xaaaa_aaaa_aaaa_aaaa_aaaa_aaaa_aaaa_aaaa & max];
    for b in 0..width {
        v.push(1u128 << b);
    }
    let n = if width <= 16 { 256 } else { 64 };
    for _ in 0..n {
        let r = ((c.u64() as u128) << 64) | c.u64() as u128;
        v.push(r & max);
    }
    v
}

/// which stacks contain a layer, and at which depth ($d)
fn stacks_with(layer: Layer) -> Vec<(u8, usize)> {
    match layer {
        Layer::Eth => vec![(0, 1), (5, 1)],
        Layer::Vlan => vec![(4, 2), (5, 2), (5, 3)],
        Layer::Ipv4 => vec![(0, 2), (4, 3), (6, 2)],
        Layer::Ipv6 => vec![(2, 2), (5, 4), (7, 3)],
        Layer::Tcp => vec![(0, 3), (2, 3), (6, 3), (7, 4)],
        Layer::Udp => vec![(1, 3), (3, 3), (5, 5)],
    }
}

fn fields_section(ctx: &mut Ctx) {
    let thorough = ctx.tier == Tier::Thorough;
    let mut idx = 0u64;
    for f in FIELDS {
        let mut seedbytes: Vec<u8> = Vec::new();
        let mut x = super::super::choices::mix64(ctx.seed ^ super::super::choices::hash_str(f.name) ^ f.bit as u64);
        for _ in 0..4096 {
            x = super::super::choices::mix64(x);
            seedbytes.push((x >> 32) as u8);
        }
        let mut c = Choices::new(&seedbytes);
        let values = field_values(&mut c, f.width, thorough);
        let stacks = stacks_with(f.layer);
        for (vi, v) in values.iter().enumerate() {
            idx += 1;
            if !ctx.mine(idx) {
                continue;
            }
            // a fresh random frame for every value (own choice stream per value)
            let mut vb: Vec<u8> = Vec::new();
            let mut y = super::super::choices::mix64(x ^ (vi as u64).wrapping_mul(0x9e37_79b9));
            for _ in 0..200 {
                y = super::super::choices::mix64(y);
                vb.push((y >> 24) as u8);
            }
            let mut fc = Choices::new(&vb);
            let (stack, depth) = stacks[vi % stacks.len()];
            let mut frame = stack_frame(&mut fc, stack);
            let (chain, _) = parse_chain(&frame);
            let p = match chain.get(depth - 1) {
                Some(p) if p.layer == f.layer => p.clone(),
                _ => {
                    ctx.infra(format!("C16 harness: stack {} has no {} at depth {}", stack, f.layer.name(), depth));
                    continue;
                }
            };
            set_bits(&mut frame, p.start, f.bit, f.width, *v);
            let pkt = make_packet(3, 4, frame.len() as u32, frame.len() as u32, &frame);
            let expr = format!("(${}).{}", depth, f.name);
            guard("fields", "frame", &hex(&frame));
            let lo = p.start + f.bit / 8;
            let hi = p.start + (f.bit + f.width + 7) / 8;
            let around_nonzero = frame[lo.saturating_sub(1)..(hi + 1).min(frame.len())].iter().any(|b| *b != 0);
            let mut h = frame.clone();
            h.extend_from_slice(f.name.as_bytes());
            ctx.case(hash_bytes(&h), around_nonzero || depth >= 3);
            ctx.class("field-read");
            if ctx.want_sample() && vi == 3 {
                ctx.sample(json!({"property": format!("{}.{}", f.layer.name(), f.name), "value": v.to_string(), "frame": hex(&frame), "read_as": expr}));
            }
            let case = json!({"frame": hex(&frame), "kind": "field", "depth": depth, "layer": f.layer.name(), "field": f.name});
            match read_exprs(&pkt, &[expr.clone()]) {
                Read::Values(vals) => {
                    // structural fields change the chain; the field itself must still read back when the layer parses
                    let ok = if f.layer == Layer::Tcp && f.name == "flags" { tcp_flags_ok(&frame, p.start, &vals[0]) } else { matches_expected(&expected_field(&frame, p.start, f), &vals[0]) };
                    if !ok {
                        // a structural value may legitimately make the layer unparsable (error object)
                        let (chain2, end2) = parse_chain(&frame);
                        let still = chain2.get(depth - 1).map(|q| q.layer == f.layer).unwrap_or(false);
                        if still || !matches!(end2, ChainEnd::Truncated(_)) {
                            let v2 = Violation::new(
                                "fields",
                                format!("field:{}.{}", f.layer.name(), f.name),
                                format!("{} = {}, expected {} (field value {} at bit {} width {})\nframe: {}", expr, vals[0].show(), show_expected(&expected_field(&frame, p.start, f)), v, f.bit, f.width, hex(&frame)),
                                case,
                            );
                            ctx.report(v2);
                        }
                    }
                }
                Read::RuntimeError(m) => {
                    let (chain2, _) = parse_chain(&frame);
                    let still = chain2.get(depth - 1).map(|q| q.layer == f.layer).unwrap_or(false);
                    if still {
                        ctx.report(Violation::new("fields", format!("field:{}.{}:runtime-error", f.layer.name(), f.name), format!("{} raised {}\nframe: {}", expr, m, hex(&frame)), case));
                    }
                }
                Read::Panic(sig, d) => {
                    ctx.report(Violation::new("fields", sig, format!("crash reading {}: {}\nframe: {}", expr, d, hex(&frame)), case));
                }
                Read::Other(o) => ctx.infra(format!("C16 harness: {}", o)),
            }
        }
    }
}

fn dispatch_section(ctx: &mut Ctx) {
    // all EtherTypes, untagged and behind one VLAN tag
    let mut idx = 0u64;
    for t in 0..=0xffffu32 {
        idx += 1;
        if !ctx.mine(idx) {
            continue;
        }
        for tagged in [false, true] {
            if tagged && t % 16 != 3 && !matches!(t, 0x8100 | 0x0800 | 0x86DD) {
                continue;
            }
            let mut frame: Vec<u8> = (0..12).map(|i| (t as u8).wrapping_mul(7).wrapping_add(i)).collect();
            if tagged {
                frame.extend_from_slice(&[0x81, 0x00, 0x2a, 0xbc]);
            }
            frame.extend_from_slice(&(t as u16).to_be_bytes());
            // enough bytes for any next layer; IPv4 with ihl 5, proto 253; IPv6 next header 59
            let mut body: Vec<u8> = (0..64u32).map(|i| (i as u8).wrapping_mul(13).wrapping_add(t as u8)).collect();
            body[0] = 0x45;
            body[9] = 253;
            body[6] = 59;
            frame.extend_from_slice(&body);
            ctx.case(hash_bytes(&frame), !matches!(t, 0x8100 | 0x0800 | 0x86DD));
            ctx.class("dispatch:ethertype");
            for v in check_frame(ctx, "dispatch", &frame, "dispatch") {
                ctx.report(v);
            }
            if t % 4096 == 0x800 % 4096 || t % 997 == 0 {
                for v in check_named(ctx, "dispatch", &frame) {
                    ctx.report(v);
                }
            }
        }
    }
    // all IPv4 protocols / IPv6 next headers
    for proto in 0..=255u32 {
        idx += 1;
        if !ctx.mine(idx) {
            continue;
        }
        for v6 in [false, true] {
            let mut frame: Vec<u8> = (0..12).map(|i| (proto as u8).wrapping_add(i * 3)).collect();
            frame.extend_from_slice(&(if v6 { 0x86DDu16 } else { 0x0800 }).to_be_bytes());
            let mut ip: Vec<u8> = (0..(if v6 { 40 } else { 20 })).map(|i| (i as u8).wrapping_mul(29).wrapping_add(proto as u8)).collect();
            if v6 {
                ip[0] = 0x6a;
                ip[6] = proto as u8;
            } else {
                ip[0] = 0x45;
                ip[9] = proto as u8;
            }
            frame.extend_from_slice(&ip);
            let mut l4: Vec<u8> = (0..60u32).map(|i| (i as u8).wrapping_mul(17).wrapping_add(5)).collect();
            l4[12] = 0x50; // TCP data offset 5, reserved 0
            l4[0] = 0x60; // if it is IPv6-in-IPv4
            l4[6] = 59;
            frame.extend_from_slice(&l4);
            ctx.case(hash_bytes(&frame), !matches!(proto, 6 | 17 | 41));
            ctx.class("dispatch:proto");
            for v in check_frame(ctx, "dispatch", &frame, "dispatch") {
                ctx.report(v);
            }
            for v in check_named(ctx, "dispatch", &frame) {
                ctx.report(v);
            }
        }
    }
    ctx.exhaustive("dispatch");
}

fn record_section(ctx: &mut Ctx) {
    for k in 0..600u64 {
        if !ctx.mine(k) {
            continue;
        }
        let x = super::super::choices::mix64(k ^ ctx.seed);
        let y = super::super::choices::mix64(x);
        let (sec, usec, wirelen) = match k % 4 {
            0 => (0u32, 0u32, 0u32),
            1 => (u32::MAX, u32::MAX, u32::MAX),
            _ => (x as u32, (x >> 32) as u32, y as u32),
        };
        let n = (y >> 40) as usize % 80;
        let data: Vec<u8> = (0..n).map(|i| (i as u8).wrapping_mul(11).wrapping_add(k as u8)).collect();
        let pkt = make_packet(sec, usec, n as u32, wirelen, &data);
        let exprs: Vec<String> = ["($0).sec", "($0).usec", "($0).nsec", "($0).caplen", "($0).wirelen", "($0).payload"].iter().map(|s| s.to_string()).collect();
        ctx.case(super::super::choices::mix64(k.wrapping_mul(77)), true);
        ctx.class("record");
        let case = json!({"kind": "record", "sec": sec, "usec": usec, "wirelen": wirelen, "data": hex(&data)});
        match read_exprs(&pkt, &exprs) {
            Read::Values(v) => {
                let exp = [Val::Int(sec as i64), Val::Int(usec as i64), Val::Int(usec as i64), Val::Int(n as i64), Val::Int(wirelen as i64), bytes_val(&data)];
                for (i, e) in exp.iter().enumerate() {
                    if !e.same(&v[i]) {
                        ctx.report(Violation::new("record", format!("record:{}", exprs[i]), format!("{} = {}, expected {}", exprs[i], v[i].show(), e.show()), case.clone()));
                    }
                }
            }
            Read::RuntimeError(m) => {
                ctx.report(Violation::new("record", "record:runtime-error", format!("reading the record properties raised {}", m), case));
            }
            Read::Panic(sig, d) => {
                ctx.report(Violation::new("record", sig, d, case));
            }
            Read::Other(_) => {}
        }
    }
}

pub fn run(ctx: &mut Ctx) {
    fields_section(ctx);
    dispatch_section(ctx);
    record_section(ctx);
    ctx.more_samples(2);
    let n = ctx.nshards as u32;
    drive(ctx, "frames", ctx.tier.pick(200_000, 3_000_000) / n, 24, 300, |ctx, bytes| {
        let mut c = Choices::new(bytes);
        let f = gen_frame(&mut c);
        let (chain, _) = parse_chain(&f.bytes);
        ctx.case(hash_bytes(&f.bytes), chain.len() >= 2);
        ctx.class("frame");
        if ctx.want_sample() && chain.len() >= 3 && ctx.res.evals % 301 == 9 {
            ctx.sample(json!({"frame": hex(&f.bytes), "labels": f.labels, "reference_chain": chain.iter().map(|p| p.layer.name()).collect::<Vec<_>>()}));
        }
        let mut vs = check_frame(ctx, "frames", &f.bytes, "frame");
        if c.below(3) == 0 {
            vs.extend(check_named(ctx, "frames", &f.bytes));
        }
        vs
    });
}

pub fn replay(section: &str, case: &Value, ctx: &mut Ctx) {
    let kind = case["kind"].as_str().unwrap_or("frame");
    if kind == "record" {
        return; // record cases are regenerated by the section itself
    }
    let frame = unhex(case["frame"].as_str().unwrap_or(""));
    let mut vs = check_frame(ctx, section, &frame, "replay");
    if kind == "named" {
        vs.extend(check_named(ctx, section, &frame));
    }
    for v in vs {
        ctx.report(v);
    }
}
