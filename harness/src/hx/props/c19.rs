//! C19 — pcap file reading and writing preserve records in order.

use serde_json::{json, Value};

use super::super::choices::{hash_bytes, mix64, Choices};
use super::super::engine::*;
use super::super::p2::{run_text, Outcome, Val};
use super::super::pcapfile::*;
use super::super::pkt::{bytes_val, hex, unhex};
use super::Meta;

pub const META: Meta = Meta {
    rule: "(interleave, proptest) random well-formed pcap files (0..50 records, both magics, snaplen 64..2^32-1 or exactly the largest caplen, record sizes clustered so that record ends and record headers straddle multiples of the \
reader's 8 KiB buffer, random version/zone/sigfigs/linktype) read by a generated script with 1..12 calls of pcap_read_next / pcap_read_all(f) / pcap_read_all(f, n) (n in 0, 1, 2, k, remaining, remaining+3); every result is compared with a \
reference reader (sec usec caplen wirelen payload of each record, null / [] after the end) and the file object's magic major minor thiszone sigfigs snaplen linktype with the header. \
(stdout-write, through the real binary) 1..6 records shaped around line feeds (none, only line feeds, a line feed followed by 1000..9000 bytes without one, a line feed inside the record header) copied with pcap_write to pcap_stream(stdout): the bytes after the global header must be exactly the records, every call must return 16 + caplen. (truncate) small files cut at EVERY byte offset, read with four call patterns: exactly the complete records, then null or an error object. (corrupt) 1..3 byte edits inside the global header or a record header; the reference reader run on \
the edited bytes decides (bad magic -> pcap_open yields an error object; caplen > snaplen -> the records before it, then null or an error object). (roundtrip) all packets read are written with pcap_write to a new file; \
that file parsed by the reference reader and re-read by p2sh must give the same records. Non-trivial: >= 2 records and (two different kinds of read call or a record crossing an 8192-byte boundary), or a cut strictly inside a record, or an edit that changes the record structure. Distinct by file hash + call sequence.",
    assumptions: &[
        "pcap_read_all(f, n) with negative n, the global header of a written file, and reads after the first error object on a corrupted file are don't-care",
        "pcap_read_all running into the corrupted/truncated region may return the complete records read so far or an error object",
        "byte-swapped (big-endian) magic numbers are not generated",
    ],
    required_classes: &[("interleave", 4_000), ("truncate:inside-record", 50_000), ("truncate:inside-global-header", 1_000), ("corrupt", 3_000), ("roundtrip", 400), ("crosses-8k", 300), ("stdout-write", 200)],
    exhaustive_when_sections: &[],
};

#[derive(Clone, Debug, PartialEq)]
pub enum Op {
    Next,
    All,
    AllN(i64),
}

const PRELUDE: &str = "fn rec(p) { [p.sec, p.usec, p.caplen, p.wirelen, p.payload] }
fn recs(a) { let o = []; let i = 0; while i < len(a) { push(o, rec(a[i])); i = i + 1; } o }
fn one(r) { if is_error(r) { \"E\" } else { if r == null { null } else { rec(r) } } }
fn many(r) { if is_error(r) { \"E\" } else { recs(r) } }
let log = [];
";

pub fn read_script(path: &str, ops: &[Op]) -> String {
    let mut s = String::from(PRELUDE);
    s.push_str(&format!("let f = pcap_open(\"{}\");\n", path));
    s.push_str("if is_error(f) { push(log, \"open-error\"); } else {\n");
    s.push_str("  push(log, [f.magic, f.major, f.minor, f.thiszone, f.sigfigs, f.snaplen, f.linktype]);\n");
    for op in ops {
        match op {
            Op::Next => s.push_str("  push(log, one(pcap_read_next(f)));\n"),
            Op::All => s.push_str("  push(log, many(pcap_read_all(f)));\n"),
            Op::AllN(n) => s.push_str(&format!("  push(log, many(pcap_read_all(f, {})));\n", n)),
        }
    }
    s.push_str("}\nlog");
    s
}

fn rec_val(r: &Rec) -> Val {
    Val::Arr(vec![Val::Int(r.sec as i64), Val::Int(r.usec as i64), Val::Int(r.data.len() as i64), Val::Int(r.wirelen as i64), bytes_val(&r.data)])
}

fn short(v: &Val) -> String {
    let s = v.show();
    if s.len() > 160 {
        format!("{}…", s.chars().take(160).collect::<String>())
    } else {
        s
    }
}

/// compare the log of a read script with the reference reader's view of the same bytes
pub fn judge(bytes: &[u8], ops: &[Op], log: &[Val]) -> Option<(String, String)> {
    let (hdr, recs, end) = parse(bytes);
    let k = recs.len();
    let hdr = match hdr {
        None => {
            return if log.len() == 1 && log[0].same(&Val::Str("open-error".into())) {
                None
            } else {
                Some((format!("open-accepts:{:?}", end).split('(').next().unwrap_or("").to_string(), format!("pcap_open did not return an error object for a file whose global header is {:?}", end)))
            };
        }
        Some(h) => h,
    };
    if log.is_empty() || log[0].same(&Val::Str("open-error".into())) {
        return Some(("open-rejects-well-formed-header".into(), format!("pcap_open returned an error object; header {:?}", hdr)));
    }
    let want_hdr = Val::Arr(vec![Val::Int(hdr.magic as i64), Val::Int(hdr.major as i64), Val::Int(hdr.minor as i64), Val::Int(hdr.thiszone as i64), Val::Int(hdr.sigfigs as i64), Val::Int(hdr.snaplen as i64), Val::Int(hdr.linktype as i64)]);
    if !log[0].same(&want_hdr) {
        return Some(("header-properties".into(), format!("[magic major minor thiszone sigfigs snaplen linktype] read {} but the file has {}", log[0].show(), want_hdr.show())));
    }
    if log.len() != ops.len() + 1 {
        return Some(("log-length".into(), format!("{} results for {} calls", log.len() - 1, ops.len())));
    }
    let mut idx = 0usize;
    for (i, op) in ops.iter().enumerate() {
        let got = &log[i + 1];
        let is_e = got.same(&Val::Str("E".into()));
        match op {
            Op::Next => {
                if idx < k {
                    if !got.same(&rec_val(&recs[idx])) {
                        return Some((format!("read_next:wrong-record:{}", if is_e || matches!(got, Val::Null) { "missing" } else { "different" }), format!("call {} (pcap_read_next) should return record {} = {} but returned {}", i, idx, short(&rec_val(&recs[idx])), short(got))));
                    }
                    idx += 1;
                } else {
                    match end {
                        End::Clean => {
                            if !matches!(got, Val::Null) {
                                return Some(("read_next:not-null-at-end".into(), format!("call {} (pcap_read_next) after the last record returned {}", i, short(got))));
                            }
                        }
                        _ => {
                            if !matches!(got, Val::Null) && !is_e {
                                return Some(("read_next:record-from-damaged-tail".into(), format!("call {} (pcap_read_next) after the {} complete records ({:?}) returned {}", i, k, end, short(got))));
                            }
                            if end == End::CaplenExceedsSnaplen {
                                return None;
                            }
                        }
                    }
                }
            }
            Op::All | Op::AllN(_) => {
                let remaining = k - idx;
                let (want, satisfied) = match op {
                    Op::AllN(n) => ((*n as usize).min(remaining), (*n as usize) <= remaining),
                    _ => (remaining, false),
                };
                let satisfied = satisfied || (end == End::Clean);
                if is_e {
                    if satisfied {
                        return Some(("read_all:error-on-intact-part".into(), format!("call {} ({:?}) returned an error object although {} complete records were available", i, op, remaining)));
                    }
                    if end == End::CaplenExceedsSnaplen {
                        return None;
                    }
                    idx = k;
                    continue;
                }
                let exp = Val::Arr(recs[idx..idx + want].iter().map(rec_val).collect());
                if !got.same(&exp) {
                    let n_got = match got {
                        Val::Arr(a) => a.len() as i64,
                        _ => -1,
                    };
                    let kind = if n_got < 0 { "not-an-array" } else if (n_got as usize) < want { "too-few" } else if n_got as usize > want { "too-many" } else { "different" };
                    return Some((format!("read_all:{}", kind), format!("call {} ({:?}) should return {} records (records {}..{}) but returned {} : {}", i, op, want, idx, idx + want, n_got, short(got))));
                }
                idx += want;
                if !satisfied && end == End::CaplenExceedsSnaplen {
                    return None;
                }
            }
        }
    }
    None
}

pub struct RunOut {
    pub viol: Option<(String, String)>,
}

pub fn run_read(section: &str, bytes: &[u8], ops: &[Op], tag: &str) -> Vec<Violation> {
    let path = scratch(&format!("c19-{}.pcap", tag));
    if std::fs::write(&path, bytes).is_err() {
        return vec![];
    }
    let src = read_script(&path, ops);
    let case = json!({"file": hex(bytes), "ops": ops.iter().map(|o| match o { Op::Next => "next".to_string(), Op::All => "all".to_string(), Op::AllN(n) => format!("all:{}", n) }).collect::<Vec<_>>()});
    guard(section, "file", &format!("{} ops={:?}", hex(&bytes[..bytes.len().min(4096)]), ops));
    let mut out = Vec::new();
    match run_text(&src) {
        Outcome::Ran(r) => match (&r.err, &r.last) {
            (Some((m, line)), _) => out.push(Violation::new(section, format!("runtime-error:{}", msg_class(m)), format!("the read script stopped with a runtime error at line {}: {}\n{}", line, m, src), case)),
            (None, Val::Arr(log)) => {
                if let Some((sig, detail)) = judge(bytes, ops, log) {
                    out.push(Violation::new(section, sig, format!("{}\nfile ({} bytes): {}", detail, bytes.len(), hex(&bytes[..bytes.len().min(600)])), case));
                }
            }
            (None, other) => out.push(Violation::new(section, "no-log", format!("script result {}", short(other)), case)),
        },
        Outcome::Panic(p) => out.push(Violation::new(section, p.signature(), format!("crash while reading: {}\nops {:?}", p.describe(), ops), case)),
        o => out.push(Violation::new(section, "harness:script-rejected", o.tag(), case)),
    }
    let _ = std::fs::remove_file(&path);
    out
}

fn gen_ops(c: &mut Choices, k: usize) -> Vec<Op> {
    let n = 1 + c.below(12);
    let mut ops = Vec::new();
    let mut idx = 0usize;
    for _ in 0..n {
        let remaining = k.saturating_sub(idx);
        let op = match c.below(10) {
            0..=4 => Op::Next,
            5 => Op::All,
            6 => Op::AllN(0),
            7 => Op::AllN(1 + c.below(2) as i64),
            8 => Op::AllN(if c.bool() { remaining as i64 } else { c.below(k + 1) as i64 }),
            _ => Op::AllN(remaining as i64 + 3),
        };
        match &op {
            Op::Next => idx += 1,
            Op::All => idx = k,
            Op::AllN(n) => idx += *n as usize,
        }
        ops.push(op);
    }
    ops
}

fn crosses_8k(f: &PcapFile) -> bool {
    let mut o = 24usize;
    for r in &f.recs {
        let e = o + 16 + r.data.len();
        if o / 8192 != (e.saturating_sub(1)) / 8192 {
            return true;
        }
        o = e;
    }
    false
}

fn interleave(ctx: &mut Ctx, bytes: &[u8]) -> Vec<Violation> {
    let mut c = Choices::new(bytes);
    let huge = ctx.tier == Tier::Thorough;
    let file = gen_file(&mut c, &GenCfg { max_records: 50, huge, small: false });
    let ops = gen_ops(&mut c, file.recs.len());
    let fb = file.bytes();
    let kinds = ops.iter().map(|o| std::mem::discriminant(o)).collect::<Vec<_>>();
    let two_kinds = kinds.iter().any(|k| *k != kinds[0]);
    let x8 = crosses_8k(&file);
    ctx.case(hash_bytes(&fb) ^ mix64(hash_bytes(format!("{:?}", ops).as_bytes())), file.recs.len() >= 2 && (two_kinds || x8));
    ctx.class("interleave");
    if x8 {
        ctx.class("crosses-8k");
    }
    if file.hdr.magic == MAGIC_NS {
        ctx.class("magic:ns");
    }
    if file.recs.is_empty() {
        ctx.class("empty-file");
    }
    if ctx.want_sample() && file.recs.len() >= 3 && two_kinds {
        ctx.sample(json!({"header": format!("{:?}", file.hdr), "record_sizes": file.recs.iter().map(|r| r.data.len()).collect::<Vec<_>>(), "calls": format!("{:?}", ops)}));
    }
    run_read("interleave", &fb, &ops, "i")
}

fn patterns(k: usize, which: usize) -> Vec<Op> {
    match which % 4 {
        0 => (0..k + 2).map(|_| Op::Next).collect(),
        1 => vec![Op::All, Op::Next, Op::All],
        2 => vec![Op::AllN(1), Op::All, Op::Next],
        _ => vec![Op::Next, Op::AllN(2), Op::Next, Op::All, Op::Next],
    }
}

fn truncate(ctx: &mut Ctx) {
    let files = ctx.tier.pick(220u64, 2_500);
    for fi in 0..files {
        if !ctx.mine(fi) {
            continue;
        }
        let seed = fill(mix64(fi ^ ctx.seed ^ 0x7c19), 600);
        let mut c = Choices::new(&seed);
        let file = gen_file(&mut c, &GenCfg { max_records: 9, huge: false, small: true });
        let fb = file.bytes();
        let ends = file.ends();
        for t in 0..fb.len() {
            let cut = &fb[..t];
            let k = ends.iter().filter(|e| **e <= t).count();
            let inside = t > 24 && !ends.contains(&t);
            ctx.case(mix64(fi.wrapping_mul(1_000_003) ^ t as u64), inside);
            ctx.class(if t < 24 { "truncate:inside-global-header" } else if inside { "truncate:inside-record" } else { "truncate:at-boundary" });
            let ops = patterns(k, t + fi as usize);
            if ctx.want_sample() && t == 24 + 16 + 3 {
                ctx.sample(json!({"truncated_at": t, "file_len": fb.len(), "complete_records": k, "calls": format!("{:?}", ops)}));
            }
            for v in run_read("truncate", cut, &ops, "t") {
                ctx.report(v);
            }
        }
    }
}

fn corrupt(ctx: &mut Ctx, bytes: &[u8]) -> Vec<Violation> {
    let mut c = Choices::new(bytes);
    let small = c.bool();
    let file = gen_file(&mut c, &GenCfg { max_records: 8, huge: false, small });
    let mut fb = file.bytes();
    let ends = file.ends();
    let edits = 1 + c.below(3);
    for _ in 0..edits {
        // a position inside the global header or inside a record header
        let pos = if file.recs.is_empty() || c.chance(1, 4) {
            c.below(24)
        } else {
            let r = c.below(file.recs.len());
            let start = if r == 0 { 24 } else { ends[r - 1] };
            start + if c.chance(2, 3) { 8 + c.below(4) } else { c.below(16) }
        };
        let v = match c.below(4) {
            0 => 0xff,
            1 => 0,
            2 => fb[pos] ^ (1 << c.below(8)),
            _ => c.byte(),
        };
        fb[pos] = v;
    }
    // byte-swapped magic: don't-care
    if fb[..4] == [0xa1, 0xb2, 0xc3, 0xd4] || fb[..4] == [0xa1, 0xb2, 0x3c, 0x4d] {
        ctx.excluded(1);
        return vec![];
    }
    let (_, recs, end) = parse(&fb);
    let ops = if c.bool() { gen_ops(&mut c, recs.len()) } else { patterns(recs.len(), c.below(4)) };
    let changed = recs.len() != file.recs.len() || end != End::Clean;
    ctx.case(hash_bytes(&fb) ^ mix64(ops.len() as u64), changed);
    ctx.class("corrupt");
    ctx.class(match end {
        End::Clean => "corrupt:still-clean",
        End::BadMagic(_) => "corrupt:bad-magic",
        End::CaplenExceedsSnaplen => "corrupt:caplen>snaplen",
        End::ShortData => "corrupt:short-data",
        End::ShortRecordHeader => "corrupt:short-record-header",
        End::ShortGlobalHeader => "corrupt:short-global-header",
    });
    run_read("corrupt", &fb, &ops, "c")
}

fn roundtrip(ctx: &mut Ctx, bytes: &[u8]) -> Vec<Violation> {
    let mut c = Choices::new(bytes);
    let huge = ctx.tier == Tier::Thorough && c.chance(1, 6);
    let file = gen_file(&mut c, &GenCfg { max_records: 30, huge, small: false });
    let style = c.below(3);
    let fb = file.bytes();
    let a = scratch("c19-a.pcap");
    let b = scratch("c19-b.pcap");
    let _ = std::fs::remove_file(&b);
    if std::fs::write(&a, &fb).is_err() {
        return vec![];
    }
    let over = file.recs.iter().any(|r| r.data.len() > 65535);
    ctx.case(hash_bytes(&fb) ^ style as u64, file.recs.len() >= 2);
    ctx.class("roundtrip");
    if over {
        ctx.class("roundtrip:record>65535");
    }
    let copy = match style {
        0 => "let ps = pcap_read_all(f);\nlet i = 0;\nwhile i < len(ps) { push(w, pcap_write(g, ps[i])); i = i + 1; }\n".to_string(),
        1 => "loop { let p = pcap_read_next(f); if p == null { break; } push(w, pcap_write(g, p)); }\n".to_string(),
        _ => "loop { let ps = pcap_read_all(f, 3); if len(ps) == 0 { break; } let i = 0; while i < len(ps) { push(w, pcap_write(g, ps[i])); i = i + 1; } }\n".to_string(),
    };
    let src = format!("let f = pcap_open(\"{}\");\nlet g = pcap_open(\"{}\", \"w\");\nlet w = [];\n{}w", a, b, copy);
    let case = if over {
        json!({"roundtrip": true, "sizes": file.recs.iter().map(|r| r.data.len()).collect::<Vec<_>>(), "snaplen": file.hdr.snaplen, "style": style})
    } else {
        json!({"roundtrip": true, "file": hex(&fb), "style": style})
    };
    guard("roundtrip", "file", &hex(&fb[..fb.len().min(4096)]));
    let mut out = Vec::new();
    let fail = |sig: String, detail: String| Violation::new("roundtrip", sig, detail, case.clone());
    match run_text(&src) {
        Outcome::Ran(r) => {
            if let Some((m, line)) = &r.err {
                out.push(fail(format!("runtime-error:{}", msg_class(m)), format!("copy script failed at line {}: {}\n{}", line, m, src)));
            } else {
                let want_w = Val::Arr(file.recs.iter().map(|r| Val::Int(16 + r.data.len() as i64)).collect());
                let written = std::fs::read(&b).unwrap_or_default();
                let (h, recs, end) = parse(&written);
                if h.is_none() {
                    out.push(fail("written-file:no-valid-header".into(), format!("the file written by pcap_write starts with {}", hex(&written[..written.len().min(24)]))));
                } else if recs != file.recs && !(over && end == End::CaplenExceedsSnaplen) {
                    let first = recs.iter().zip(file.recs.iter()).position(|(x, y)| x != y).unwrap_or(recs.len().min(file.recs.len()));
                    out.push(fail(format!("written-file:records-differ:{:?}", end), format!("{} records written for {} read; first difference at record {} ({:?})", recs.len(), file.recs.len(), first, end)));
                } else if over && end == End::CaplenExceedsSnaplen {
                    out.push(fail("written-file:record-exceeds-declared-snaplen".into(), format!("pcap_write wrote a record of more than {} bytes into a file whose header declares snaplen {}; the file cannot be read back", h.as_ref().map(|h| h.snaplen).unwrap_or(0), h.as_ref().map(|h| h.snaplen).unwrap_or(0))));
                } else if !r.last.same(&want_w) {
                    ctx.class("roundtrip:write-return-differs");
                }
                if out.is_empty() {
                    // p2sh reads its own output
                    let log = run_read("roundtrip", &written, &[Op::All, Op::Next], "r");
                    out.extend(log.into_iter().map(|mut v| {
                        v.sig = format!("reread:{}", v.sig);
                        v
                    }));
                }
            }
        }
        Outcome::Panic(p) => out.push(fail(p.signature(), p.describe())),
        o => out.push(fail("harness:script-rejected".into(), o.tag())),
    }
    let _ = std::fs::remove_file(&a);
    let _ = std::fs::remove_file(&b);
    out
}

/// `pcap_write` to the pcap stream on stdout (redirected into the new file): the stream must hold every record in
/// full. stdout is line-buffered with a small buffer, so record shapes are built around line feeds: none at all,
/// only line feeds, a line feed followed by a tail of 1000..9000 bytes without one, a line feed inside the record header.
fn stdout_case(seed: u64) -> (Vec<u8>, Vec<usize>) {
    let fb = fill(seed, 64);
    let mut c = Choices::new(&fb);
    let n = 1 + c.below(6);
    let mut recs = Vec::new();
    let mut shapes = Vec::new();
    for i in 0..n {
        let shape = c.below(6);
        shapes.push(shape);
        let no_lf = |v: Vec<u8>| -> Vec<u8> { v.into_iter().map(|b| if b == 0x0a { 0x0b } else { b }).collect() };
        let data: Vec<u8> = match shape {
            0 => fill(mix64(seed ^ i as u64), c.below(3000)),
            1 => {
                let mut d = no_lf(fill(mix64(seed ^ (i as u64 + 100)), c.below(200)));
                d.push(0x0a);
                let tail = [1000usize, 1023, 1024, 1025, 1500, 3000, 9000][c.below(7)];
                d.extend(no_lf(fill(mix64(seed ^ (i as u64 + 200)), tail)));
                d
            }
            2 => vec![0x0a; c.below(2000)],
            3 => no_lf(fill(mix64(seed ^ (i as u64 + 300)), 1024 + c.below(4000))),
            4 => fill(mix64(seed ^ 400), c.below(20)),
            _ => {
                let mut d = b"GET /index.html HTTP/1.1\r\nHost: example\r\n\r\n".to_vec();
                d.extend(std::iter::repeat(b'x').take(900 + c.below(1200)));
                d
            }
        };
        // a line feed byte inside the record header now and then (seconds = 10)
        let sec = if c.chance(1, 3) { 10 } else { 0x0101_0101 + i as u32 };
        recs.push(Rec { sec, usec: 0x0202_0202, wirelen: data.len() as u32, data });
    }
    let f = PcapFile { hdr: GHdr { magic: MAGIC_US, major: 2, minor: 4, thiszone: 0, sigfigs: 0, snaplen: 65535, linktype: 1 }, recs };
    (f.bytes(), shapes)
}

fn stdout_check(ctx: &mut Ctx, seed: u64) -> Vec<Violation> {
    use super::super::e2e::{self, Opts};
    let (input, shapes) = stdout_case(seed);
    let inp = scratch(&format!("c19-so-{}.pcap", std::process::id()));
    if std::fs::write(&inp, &input).is_err() {
        return vec![];
    }
    let src = format!("let f = pcap_open(\"{}\");\nlet o = pcap_stream(stdout);\nloop {{\n  let p = pcap_read_next(f);\n  if p == null {{ break; }}\n  eprintln(\"{{}}\", pcap_write(o, p));\n}}\n", inp);
    guard("stdout-write", "seed", &format!("{} shapes {:?}", seed, shapes));
    ctx.case(seed, shapes.iter().any(|s| matches!(s, 1 | 3 | 5)));
    ctx.class("stdout-write");
    let r = e2e::run(Opts::new(vec![e2e::script_file("c19-so.p2", &src)]));
    let _ = std::fs::remove_file(&inp);
    let case = json!({"stdout_write": seed});
    let mut out = Vec::new();
    if r.spawn_error.is_some() || r.timed_out {
        ctx.infra("C19: stdout-write run failed to spawn or timed out".to_string());
        return out;
    }
    if let Some(c) = r.crashed() {
        out.push(Violation::new("stdout-write", e2e::crash_signature(&c), format!("{}\n{}", c, src), case));
        return out;
    }
    let (_, recs, _) = parse(&input);
    let want_counts: String = recs.iter().map(|r| format!("{}\n", 16 + r.data.len())).collect();
    if r.err_text() != want_counts {
        out.push(Violation::new("stdout-write", "stdout-write:return-values", format!("pcap_write returned (one per line)\n{}expected\n{}record shapes {:?}", r.err_text().chars().take(300).collect::<String>(), want_counts, shapes), case));
        return out;
    }
    if r.stdout.len() < 24 || r.stdout[24..] != input[24..] {
        let d = r.stdout.iter().zip(input.iter()).skip(24).position(|(a, b)| a != b).map(|p| p + 24).unwrap_or(r.stdout.len().min(input.len()));
        let sig = if r.stdout.len() < input.len() { "stdout-write:bytes-missing" } else if r.stdout.len() > input.len() { "stdout-write:extra-bytes" } else { "stdout-write:bytes-differ" };
        out.push(Violation::new("stdout-write", sig, format!("the stream on stdout has {} bytes, the records written make {} (first difference at byte {}); record shapes {:?}", r.stdout.len(), input.len(), d, shapes), case));
    }
    out
}

pub fn run(ctx: &mut Ctx) {
    set_hang_limit(120);
    truncate(ctx);
    let n = ctx.nshards as u32;
    ctx.more_samples(3);
    drive(ctx, "interleave", ctx.tier.pick(8_000, 300_000) / n, 64, 900, |ctx, b| interleave(ctx, b));
    drive(ctx, "corrupt", ctx.tier.pick(16_000, 600_000) / n, 64, 400, |ctx, b| corrupt(ctx, b));
    drive(ctx, "roundtrip", ctx.tier.pick(1_600, 60_000) / n, 64, 600, |ctx, b| roundtrip(ctx, b));
    // through the real binary (few shards: process creation does not scale here)
    let e2e_shards = 4.min(ctx.nshards);
    if ctx.shard < e2e_shards {
        let total = ctx.tier.pick(240u64, 6_000);
        for k in 0..total {
            if k % e2e_shards as u64 != ctx.shard as u64 {
                continue;
            }
            for v in stdout_check(ctx, mix64(ctx.seed ^ (k * 0x9e37 + 11))) {
                ctx.report(v);
            }
        }
    }
}

pub fn replay(section: &str, case: &Value, ctx: &mut Ctx) {
    if let Some(seed) = case.get("stdout_write").and_then(|v| v.as_u64()) {
        for v in stdout_check(ctx, seed) {
            ctx.report(v);
        }
        return;
    }
    let mut fb = unhex(case["file"].as_str().unwrap_or(""));
    if let Some(sizes) = case.get("sizes").and_then(|s| s.as_array()) {
        // compact form: a file of records of the given sizes under the given snaplen
        let recs = sizes.iter().enumerate().map(|(i, n)| Rec { sec: i as u32, usec: 7, wirelen: n.as_u64().unwrap_or(0) as u32, data: fill(i as u64 + 1, n.as_u64().unwrap_or(0) as usize) }).collect();
        let hdr = GHdr { magic: MAGIC_US, major: 2, minor: 4, thiszone: 0, sigfigs: 0, snaplen: case["snaplen"].as_u64().unwrap_or(65535) as u32, linktype: 1 };
        fb = PcapFile { hdr, recs }.bytes();
    }
    if case.get("roundtrip").is_some() {
        // replayed through the generic path: the file is re-read and rewritten with style 0
        let a = scratch("c19-ra.pcap");
        let b = scratch("c19-rb.pcap");
        let _ = std::fs::remove_file(&b);
        let _ = std::fs::write(&a, &fb);
        let (_, want, _) = parse(&fb);
        let src = format!("let f = pcap_open(\"{}\");\nlet g = pcap_open(\"{}\", \"w\");\nlet ps = pcap_read_all(f);\nlet i = 0;\nwhile i < len(ps) {{ pcap_write(g, ps[i]); i = i + 1; }}\n0", a, b);
        let _ = run_text(&src);
        let written = std::fs::read(&b).unwrap_or_default();
        let (h, recs, end) = parse(&written);
        if h.is_none() || recs != want {
            ctx.report(Violation::new(section, if end == End::CaplenExceedsSnaplen { "written-file:record-exceeds-declared-snaplen".to_string() } else { format!("written-file:records-differ:{:?}", end) }, "replay".to_string(), case.clone()));
        }
        return;
    }
    let ops: Vec<Op> = case["ops"]
        .as_array()
        .map(|a| {
            a.iter()
                .filter_map(|o| o.as_str())
                .map(|s| match s {
                    "next" => Op::Next,
                    "all" => Op::All,
                    x => Op::AllN(x.trim_start_matches("all:").parse().unwrap_or(0)),
                })
                .collect()
        })
        .unwrap_or_default();
    for v in run_read(section, &fb, &ops, "p") {
        ctx.report(v);
    }
}
