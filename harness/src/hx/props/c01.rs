//! C01 — scanning, parsing and compiling are total on every source text.

use serde_json::{json, Value};

use super::super::choices::{hash_str, Choices};
use super::super::engine::*;
use super::super::p2::{compile_text, Compiled};
use super::Meta;

pub const META: Meta = Meta {
    rule: "Texts: (unicode) every Unicode scalar value (quick tier: all below U+3000 and every 13th above) in ten positions: alone, at the start of a token inside an expression, directly after a digit, after a letter, after `0x` and `1.`, \
inside a string, a char literal and a comment, doubled; (chars3) every string of length<=3 over a 42-symbol alphabet built from the scanner's dispatch characters; \
(tokens) every sequence of <=3 (quick) / <=4 (thorough) tokens from a ~80-entry vocabulary, joined with ' ' and with ''; \
(soup) proptest byte-vectors decoded into token soup of 4..60 tokens with random joiners; (mutants) example/grammar texts with 1..5 random \
token/character deletions, insertions, replacements, duplications and truncation. Bracket nesting is capped at 64 by construction. \
Oracle: scan->parse->(no parse errors => compile) returns one of {parse errors, compile error, bytecode}; a panic, native crash or hang is a violation. \
Non-trivial: >=2 tokens reach the parser AND (>=1 parse error reported, or a compile error, or >=1 statement compiled). Distinct by text hash \
(enumerated token sequences joined by ' ' are distinct by construction and counted, not hashed).",
    assumptions: &[
        "in-process pipeline mirrors run_buf in src/main.rs: the compiler runs only when the parser reported no errors",
        "harness build has the dev profile's overflow-checks and debug-assertions",
        "nesting deeper than 64 is outside the property's domain and not generated",
    ],
    required_classes: &[("outcome:parse-errors", 1000), ("outcome:compile-error", 100), ("outcome:compiled", 1000)],
    exhaustive_when_sections: &[],
};

pub const ALPHABET: &[&str] = &[
    ";", ",", ":", "(", ")", "{", "}", "[", "]", "+", "-", "*", "/", "%", "^", "~", "$", "@", "!", "&", "|", "=", "<", ">", "\"", "'", "#", ".", "_",
    "0", "1", "9", "b", "x", "o", "e", "a", " ", "\n", "\r", "\0", "é", "💖",
];

pub const VOCAB: &[&str] = &[
    // keywords
    "let", "fn", "true", "false", "if", "else", "return", "null", "map", "loop", "while", "break", "continue", "match", "struct", "stdin",
    "stdout", "stderr", "end", "_",
    // operators
    "=", "+", "-", "*", "/", "%", "!", "&&", "||", "<", "<=", ">", ">=", "==", "!=", "=>", "&", "|", "^", "~", "<<", ">>",
    // delimiters and specials
    ",", ":", ";", "(", ")", "{", "}", "[", "]", "$", "@", ".", "..", "..=", "#", "//",
    // literals (also malformed ones)
    "0", "1", "0x1", "0o7", "0b1", "0x", "0o", "0b", "1.5", "1e3", "1e", ".5", "\"s\"", "'c'", "b'c'", "'", "\"", "b'", "''",
    // identifiers
    "a", "x", "len", "eth",
];

/// how a case enters the distinct-non-trivial count
#[derive(Clone, Copy, PartialEq)]
pub enum Count {
    /// by text hash
    Hashed,
    /// distinct by construction: counted without a hash
    Distinct,
    /// possibly a duplicate of another enumerated text: evaluated, never counted as distinct
    Uncounted,
}

fn check_text(ctx: &mut Ctx, section: &str, text: &str, ntok: usize, count: Count) -> Vec<Violation> {
    guard(section, "text", text);
    let mut out = Vec::new();
    match compile_text(text) {
        Err(p) => {
            ctx.class("outcome:panic");
            match count {
                Count::Hashed => ctx.case(hash_str(text), ntok >= 2),
                Count::Distinct => ctx.case_enum(ntok >= 2),
                Count::Uncounted => ctx.case_enum(false),
            }
            out.push(Violation::new(
                section,
                p.signature(),
                format!("scan/parse/compile panicked on {:?}: {}", text, p.describe()),
                json!({ "text": text }),
            ));
        }
        Ok(c) => {
            let nontrivial = ntok >= 2
                && match &c {
                    Compiled::ParseErrors(e) => !e.is_empty(),
                    Compiled::CompileError { .. } => true,
                    Compiled::Ok(b) => b.1 >= 1,
                };
            ctx.class(match &c {
                Compiled::ParseErrors(_) => "outcome:parse-errors",
                Compiled::CompileError { .. } => "outcome:compile-error",
                Compiled::Ok(_) => "outcome:compiled",
            });
            match count {
                Count::Hashed => ctx.case(hash_str(text), nontrivial),
                Count::Distinct => ctx.case_enum(nontrivial),
                Count::Uncounted => ctx.case_enum(false),
            }
            if nontrivial && ctx.want_sample() && ctx.res.evals % 997 == 1 {
                ctx.sample(json!({"section": section, "text": text, "outcome": c.tag()}));
            }
        }
    }
    out
}

fn enum_chars(ctx: &mut Ctx) {
    let n = ALPHABET.len() as u64;
    let mut idx = 0u64;
    for len in 1..=3u32 {
        let total = n.pow(len);
        for k in 0..total {
            idx += 1;
            if !ctx.mine(idx) {
                continue;
            }
            let mut s = String::new();
            let mut r = k;
            for _ in 0..len {
                s.push_str(ALPHABET[(r % n) as usize]);
                r /= n;
            }
            let vs = check_text(ctx, "chars3", &s, len as usize, Count::Hashed);
            for v in vs {
                ctx.report(v);
            }
        }
    }
    ctx.exhaustive("chars3");
}

fn enum_tokens(ctx: &mut Ctx, maxlen: u32) {
    let n = VOCAB.len() as u64;
    let mut idx = 0u64;
    for len in 1..=maxlen {
        let total = n.pow(len);
        for k in 0..total {
            idx += 1;
            if !ctx.mine(idx) {
                continue;
            }
            let mut toks: Vec<&str> = Vec::with_capacity(len as usize);
            let mut r = k;
            for _ in 0..len {
                toks.push(VOCAB[(r % n) as usize]);
                r /= n;
            }
            for (j, joiner) in [" ", "", "\n"].iter().enumerate() {
                if j == 2 && len > 3 {
                    continue;
                }
                if j > 0 && len == 1 {
                    continue;
                }
                let s = toks.join(joiner);
                let vs = check_text(ctx, "tokens", &s, len as usize, if j == 0 { Count::Distinct } else { Count::Uncounted });
                for v in vs {
                    ctx.report(v);
                }
            }
        }
    }
    ctx.exhaustive(if maxlen >= 4 { "tokens4" } else { "tokens3" });
}

/// Keep bracket nesting within the property's bound of 64.
pub fn nesting_ok(text: &str) -> bool {
    let mut depth: i32 = 0;
    let mut run = 0;
    for ch in text.chars() {
        match ch {
            '(' | '[' | '{' => {
                depth += 1;
                if depth > 60 {
                    return false;
                }
            }
            ')' | ']' | '}' => depth = (depth - 1).max(0),
            _ => {}
        }
        // chains of prefix operators / assignments nest the parser as well
        if matches!(ch, '!' | '-' | '~' | '=' | '$') {
            run += 1;
            if run > 60 {
                return false;
            }
        } else if !ch.is_whitespace() {
            run = 0;
        }
    }
    true
}

fn soup(c: &mut Choices) -> (String, usize) {
    let n = 4 + c.below(57);
    let mut s = String::new();
    for i in 0..n {
        if i > 0 {
            match c.below(8) {
                0 => {}
                1 => s.push('\n'),
                2 => s.push_str("\r\n"),
                _ => s.push(' '),
            }
        }
        if c.below(10) == 0 {
            s.push_str(c.pick(ALPHABET));
        } else {
            s.push_str(c.pick(VOCAB));
        }
    }
    (s, n)
}

/// base texts for the mutation section: the repository's example scripts and
/// a set of well-formed snippets covering every statement form.
fn base_texts() -> Vec<String> {
    let mut v: Vec<String> = SNIPPETS.iter().map(|s| s.to_string()).collect();
    let root = format!("{}/examples", repo_dir());
    let mut stack = vec![std::path::PathBuf::from(root)];
    let mut files = Vec::new();
    while let Some(d) = stack.pop() {
        if let Ok(rd) = std::fs::read_dir(&d) {
            for e in rd.flatten() {
                let p = e.path();
                if p.is_dir() {
                    stack.push(p);
                } else if p.extension().map(|x| x == "p2").unwrap_or(false) {
                    files.push(p);
                }
            }
        }
    }
    files.sort();
    for f in files {
        if let Ok(s) = std::fs::read_to_string(&f) {
            if s.len() < 6000 {
                v.push(s);
            }
        }
    }
    v
}

pub const SNIPPETS: &[&str] = &[
    "let a = 1; let b = a + 2 * 3; puts(a, b);",
    "fn add(x, y) { return x + y; } add(1, 2)",
    "let f = fn(x) { if x < 2 { x } else { f(x - 1) + f(x - 2) } }; f(10)",
    "let i = 0; while i < 10 { i = i + 1; if i == 5 { continue; } if i > 8 { break; } }",
    "outer: loop { inner: loop { break outer; } }",
    "let m = map {\"a\": 1, 2: [1, 2, 3]}; m[\"a\"] = m[2][0];",
    "let x = match 5 { 1 | 2 => \"a\", 3..5 => \"b\", 5..=9 => { \"c\" } _ => \"d\" };",
    "let c = 'c'; let b = b'x'; let s = \"str\"; let f = 1.5e3; let h = 0xff + 0o17 + 0b101;",
    "@ NP < 10 && ($1).type == 0x800 { eprintln(\"{}: {}\", NP, PL); } @ end { puts(NP) }",
    "@ true",
    "let a = [1, 2, 3]; a[0] = a[1] = 5; !true; -a[0]; ~a[1]; a[0] << 2 >> 1 & 3 | 4 ^ 5;",
    "let p = pcap_open(\"f\"); let k = pcap_read_next(p); k.eth.ipv4.src = \"1.2.3.4\"; ($0).caplen",
    "{ let a = 1; { let b = a; } }",
    "if true { 1 } else if false { 2 } else { 3 }",
    "let adder = fn(x) { fn(y) { x + y } }; adder(1)(2);",
    "# comment\n// another\nlet z = null; z == null || z != 1 && true;",
    "format(\"{:>5}{0}\", 1, 2); println(\"{}\", [1, map {1: 2}]);",
];

fn mutate(c: &mut Choices, bases: &[String]) -> (String, usize) {
    let base = &bases[c.below(bases.len())];
    let mut chars: Vec<char> = base.chars().collect();
    let nmut = 1 + c.below(5);
    for _ in 0..nmut {
        if chars.is_empty() {
            break;
        }
        let pos = c.below(chars.len());
        match c.below(7) {
            0 => {
                // delete a span
                let n = 1 + c.below(6);
                let end = (pos + n).min(chars.len());
                chars.drain(pos..end);
            }
            1 => {
                // insert a vocabulary token
                let t: Vec<char> = c.pick(VOCAB).chars().collect();
                for (i, ch) in t.into_iter().enumerate() {
                    chars.insert(pos + i, ch);
                }
            }
            2 => {
                // insert an alphabet character
                let t: Vec<char> = c.pick(ALPHABET).chars().collect();
                for (i, ch) in t.into_iter().enumerate() {
                    chars.insert(pos + i, ch);
                }
            }
            3 => {
                // replace one character
                let t: Vec<char> = c.pick(ALPHABET).chars().collect();
                chars[pos] = t[0];
            }
            4 => {
                // duplicate a span
                let n = 1 + c.below(8);
                let end = (pos + n).min(chars.len());
                let span: Vec<char> = chars[pos..end].to_vec();
                for (i, ch) in span.into_iter().enumerate() {
                    chars.insert(pos + i, ch);
                }
            }
            5 => {
                // truncate
                chars.truncate(pos);
            }
            _ => {
                // swap two characters
                let q = c.below(chars.len());
                chars.swap(pos, q);
            }
        }
    }
    let s: String = chars.into_iter().collect();
    let ntok = s.split_whitespace().count().max(if s.trim().is_empty() { 0 } else { 2 });
    (s, ntok)
}

/// Every Unicode scalar value (quick tier: everything below U+3000 and every 13th above) at the start of a token,
/// after a digit, after a letter, inside a string, a char literal and a comment: the scanner classifies characters
/// with several predicates (`is_alphabetic`, `is_ascii_digit`, `is_numeric`, `is_whitespace` ...) that disagree
/// outside ASCII.
fn enum_unicode(ctx: &mut Ctx) {
    let thorough = ctx.tier == Tier::Thorough;
    let mut idx = 0u64;
    for cp in 0x80u32..0x110000 {
        let ch = match char::from_u32(cp) {
            Some(c) => c,
            None => continue,
        };
        if !thorough && cp >= 0x3000 && cp % 13 != 0 {
            continue;
        }
        idx += 1;
        if !ctx.mine(idx) {
            continue;
        }
        for (k, t) in [
            format!("{}", ch),
            format!("let v = 40 + {};", ch),
            format!("1{} + 2;", ch),
            format!("x{};", ch),
            format!("\"{}\";", ch),
            format!("'{}';", ch),
            format!("# {}\n1;", ch),
            format!("0x{} ", ch),
            format!("1.{};", ch),
            format!("{}{}", ch, ch),
        ]
        .iter()
        .enumerate()
        {
            let vs = check_text(ctx, "unicode", t, 1 + k, if k == 0 { Count::Distinct } else { Count::Hashed });
            for v in vs {
                ctx.report(v);
            }
        }
        ctx.class("unicode-scalar");
    }
}

pub fn run(ctx: &mut Ctx) {
    enum_chars(ctx);
    enum_unicode(ctx);
    enum_tokens(ctx, ctx.tier.pick(3, 4));
    ctx.more_samples(3);
    let n = ctx.nshards as u32;
    drive(ctx, "soup", ctx.tier.pick(120_000, 6_000_000) / n, 8, 160, |ctx, bytes| {
        let mut c = Choices::new(bytes);
        let (s, ntok) = soup(&mut c);
        if !nesting_ok(&s) {
            return vec![];
        }
        check_text(ctx, "soup", &s, ntok, Count::Hashed)
    });
    ctx.more_samples(3);
    let bases = base_texts();
    drive(ctx, "mutants", ctx.tier.pick(80_000, 4_000_000) / n, 4, 48, |ctx, bytes| {
        let mut c = Choices::new(bytes);
        let (s, ntok) = mutate(&mut c, &bases);
        if !nesting_ok(&s) {
            return vec![];
        }
        check_text(ctx, "mutants", &s, ntok, Count::Hashed)
    });
}

pub fn replay(section: &str, case: &Value, ctx: &mut Ctx) {
    let text = case["text"].as_str().unwrap_or("");
    let vs = check_text(ctx, section, text, 2, Count::Hashed);
    for v in vs {
        ctx.report(v);
    }
}
