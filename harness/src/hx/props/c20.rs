//! C20 — filter mode emits exactly the selected packets with correct per-packet state.

use serde_json::{json, Value};

use super::super::ast::*;
use super::super::choices::{hash_bytes, hash_str, Choices};
use super::super::codec::{get_bits, parse_mac, set_bits, FIELDS};
use super::super::e2e::{self, Opts, Stdin};
use super::super::engine::*;
use super::super::frames::stack_frame;
use super::super::interp::{falsey, lookup, to_val, Env, Interp, Kind, RV};
use super::super::p2::Val;
use super::super::pcapfile::*;
use super::super::pkt::{hex, unhex};
use super::Meta;

pub const META: Meta = Meta {
    rule: "proptest: a pcap stream (0..40 records, both magics, random version / zone / sigfigs / snaplen / linktype, Ethernet frames of 8 stacks or all of one IPv4/TCP or IPv4/UDP stack, random timestamps and wire lengths) x a generated filter \
program: global prologue (counters, an array, a function updating a global), 1..5 filters interleaved with the other statements, whose patterns are boolean expressions over NP, PL, WL, TSS, TSU, ($0).sec/usec/caplen/wirelen, ($1).type, \
globals and calls (and ($2).ttl/proto/id, ($3).srcport/dstport on uniform streams), with actions that update globals and action-local variables, print, and assign record / Ethernet / IPv4 / L4 fields, action-less filters, pattern-less filters, \
with and without an `@ end` filter; each run twice: without -s (prints on stderr) and with -s (prints on stdout). \
Oracle: a reference filter-mode model on the reference interpreter: prologue once; per packet in order every filter in source order with NP = 1-based index, PL/WL/TSS/TSU from the record; an action-less filter whose pattern is true appends \
the packet as modified so far; end runs once with NP = packets read. stdout without -s must equal input global header + the selected records byte for byte; with -s it must equal exactly the printed text; the printed text must match in both runs. \
Non-trivial: >= 2 packets and >= 2 filters with >= 1 packet selected and >= 1 not, or a modification followed by a selecting filter, or an end filter reading a global updated per packet. Distinct by stream hash + program text.",
    assumptions: &[
        "patterns are boolean; runtime errors inside filters, assignments to caplen and to structural fields on streams whose deeper layers are read are not generated (don't-care)",
        "address-valued properties are only assigned, never compared (their display form is C18's business)",
    ],
    required_classes: &[("case", 300), ("selected-some-not-all", 80), ("modified-then-selected", 40), ("with-end", 100), ("empty-stream", 5), ("uniform-stream", 60)],
    exhaustive_when_sections: &[],
};

#[derive(Clone, Debug, serde::Serialize, serde::Deserialize)]
struct Filt {
    pattern: Option<E>,
    action: Option<Vec<S>>,
    /// the action ends in `if NP == n { exit(code); }`: the run stops there with what was written so far
    #[serde(default)]
    exit_at: Option<(u32, u8)>,
}

#[derive(Clone, Debug, serde::Serialize, serde::Deserialize)]
enum Item {
    Stmt(S),
    Filter(Filt),
    End(Vec<S>),
}

/// pseudo variables: rendered as property accesses, bound as plain variables in the reference
#[derive(Clone, Copy)]
struct FV {
    text: &'static str,
    /// 0 = record header field index (0 sec 1 usec 2 caplen 3 wirelen), else layer depth
    depth: usize,
    field: &'static str,
    assignable: bool,
    addr: bool,
    uniform_only: bool,
}

const FVS: &[FV] = &[
    FV { text: "($0).sec", depth: 0, field: "sec", assignable: true, addr: false, uniform_only: false },
    FV { text: "($0).usec", depth: 0, field: "usec", assignable: true, addr: false, uniform_only: false },
    FV { text: "($0).caplen", depth: 0, field: "caplen", assignable: false, addr: false, uniform_only: false },
    FV { text: "($0).wirelen", depth: 0, field: "wirelen", assignable: true, addr: false, uniform_only: false },
    FV { text: "($1).type", depth: 1, field: "type", assignable: true, addr: false, uniform_only: false },
    FV { text: "($1).src", depth: 1, field: "src", assignable: true, addr: true, uniform_only: false },
    FV { text: "($1).dst", depth: 1, field: "dst", assignable: true, addr: true, uniform_only: false },
    FV { text: "($2).ttl", depth: 2, field: "ttl", assignable: true, addr: false, uniform_only: true },
    FV { text: "($2).proto", depth: 2, field: "proto", assignable: false, addr: false, uniform_only: true },
    FV { text: "($2).id", depth: 2, field: "id", assignable: true, addr: false, uniform_only: true },
    FV { text: "($3).srcport", depth: 3, field: "srcport", assignable: false, addr: false, uniform_only: true },
    FV { text: "($3).dstport", depth: 3, field: "dstport", assignable: true, addr: false, uniform_only: true },
];

const SPECIALS: &[&str] = &["NP", "PL", "WL", "TSS", "TSU"];

struct Gn<'a, 'b> {
    c: &'a mut Choices<'b>,
    uniform: Option<u8>, // Some(0) tcp / Some(1) udp
    locals: Vec<String>,
    in_filter: bool,
}

impl<'a, 'b> Gn<'a, 'b> {
    fn readable(&self) -> Vec<&'static FV> {
        FVS.iter().filter(|f| !f.addr && (!f.uniform_only || self.uniform.is_some())).collect()
    }
    fn int(&mut self, depth: usize) -> E {
        let n = if depth == 0 { 5 } else { 9 };
        match self.c.below(n) {
            0 => E::Int(self.c.below(10) as i64),
            1 => E::Int([0, 1, 2, 14, 60, 64, 100, 1500, 2048, 34525, 65535, 1_000_000][self.c.below(12)]),
            2 if self.in_filter => id(SPECIALS[self.c.below(SPECIALS.len())]),
            3 => id(["g0", "g1", "cnt"][self.c.below(3)]),
            4 if self.in_filter => {
                let r = self.readable();
                id(r[self.c.below(r.len())].text)
            }
            5 if !self.locals.is_empty() => id(&self.locals[self.c.below(self.locals.len())].clone()),
            6 => {
                let a = self.int(depth - 1);
                let k = [2, 3, 5, 7, 10, 256][self.c.below(6)];
                bin("%", a, E::Int(k))
            }
            7 => {
                let op = ["+", "-", "*"][self.c.below(3)];
                let a = self.int(depth - 1);
                let b = if op == "*" { E::Int(self.c.below(4) as i64) } else { self.int(depth - 1) };
                bin(op, a, b)
            }
            8 => call("len", vec![id("acc")]),
            _ => E::Int(self.c.below(100) as i64),
        }
    }
    fn boolean(&mut self, depth: usize) -> E {
        let n = if depth == 0 { 3 } else { 7 };
        match self.c.below(n) {
            0 | 1 | 2 => {
                let op = ["==", "!=", "<", "<=", ">", ">="][self.c.below(6)];
                let a = self.int(1);
                let b = self.int(1);
                bin(op, a, b)
            }
            3 => {
                let a = self.boolean(depth - 1);
                let b = self.boolean(depth - 1);
                bin(["&&", "||"][self.c.below(2)], a, b)
            }
            4 => un("!", self.boolean(depth - 1)),
            5 => E::Bool(self.c.bool()),
            _ => {
                // a call with a side effect inside a pattern
                let a = self.int(0);
                bin(">", call("bump", vec![a]), E::Int(self.c.below(50) as i64))
            }
        }
    }
    fn action_stmt(&mut self, depth: usize) -> S {
        match self.c.below(10) {
            0 | 1 => {
                let g = ["g0", "g1", "cnt"][self.c.below(3)];
                let e = self.int(2);
                S::Expr(assign(id(g), bin("+", id(g), e)))
            }
            2 => {
                let name = format!("loc{}", self.locals.len());
                let e = self.int(2);
                self.locals.push(name.clone());
                S::Let(name, e)
            }
            3 => S::Expr(call("push", vec![id("acc"), self.int(2)])),
            4 => S::Expr(call("say", vec![self.int(2)])),
            5 if depth > 0 => {
                let c = self.boolean(1);
                let saved = self.locals.len();
                let t = vec![self.action_stmt(depth - 1)];
                self.locals.truncate(saved);
                let e = if self.c.bool() {
                    let s = vec![self.action_stmt(depth - 1)];
                    self.locals.truncate(saved);
                    Some(Box::new(Else::Block(s)))
                } else {
                    None
                };
                S::Expr(E::If(Box::new(c), t, e))
            }
            6 | 7 if self.in_filter => {
                // assign a field
                let cands: Vec<&FV> = FVS.iter().filter(|f| f.assignable && (!f.uniform_only || self.uniform.is_some()) && !(self.uniform.is_some() && f.field == "type")).collect();
                let f = cands[self.c.below(cands.len())];
                let v = if f.addr {
                    E::Str(["02:00:00:00:00:01", "ff:ff:ff:ff:ff:ff", "00:1b:21:3c:4d:5e", "0a:0b:0c:0d:0e:0f"][self.c.below(4)].to_string())
                } else {
                    let max: i64 = match f.field {
                        "sec" | "usec" | "wirelen" => 0xffff_ffff,
                        "ttl" => 255,
                        _ => 65535,
                    };
                    match self.c.below(4) {
                        0 => E::Int(max),
                        1 => E::Int(0),
                        2 => bin("%", id("NP"), E::Int(200)),
                        _ => E::Int((self.c.u32() as i64) % (max + 1)),
                    }
                };
                S::Expr(assign(id(f.text), v))
            }
            8 => S::Expr(call("bump", vec![self.int(1)])),
            _ => S::Expr(call("say", vec![id(["g0", "g1", "cnt"][self.c.below(3)])])),
        }
    }
    fn action(&mut self) -> Vec<S> {
        self.locals.clear();
        // sometimes an action with more locals than the program has globals, all of them used at the end
        if self.c.chance(1, 6) {
            let k = 7 + self.c.below(8);
            let mut v = Vec::new();
            for i in 0..k {
                let name = format!("loc{}", i);
                let e = if i == 0 { self.int(1) } else { bin("+", id(&format!("loc{}", i - 1)), E::Int(1 + self.c.below(9) as i64)) };
                self.locals.push(name.clone());
                v.push(S::Let(name, e));
            }
            let mut sum = id("loc0");
            for i in 1..k {
                sum = bin("+", sum, bin("*", id(&format!("loc{}", i)), E::Int(1 + (i as i64 % 3))));
            }
            v.push(S::Expr(assign(id("g0"), bin("+", id("g0"), bin("%", sum, E::Int(1000))))));
            v.push(S::Expr(call("say", vec![id(&format!("loc{}", k - 1))])));
            return v;
        }
        let n = 1 + self.c.below(4);
        (0..n).map(|_| self.action_stmt(1)).collect()
    }
}

struct Prog {
    items: Vec<Item>,
}

fn gen_prog(c: &mut Choices, uniform: Option<u8>) -> Prog {
    let mut g = Gn { c, uniform, locals: vec![], in_filter: false };
    let mut items = vec![
        Item::Stmt(S::Let("g0".into(), E::Int(0))),
        Item::Stmt(S::Let("g1".into(), E::Int(g.c.below(5) as i64))),
        Item::Stmt(S::Let("cnt".into(), E::Int(0))),
        Item::Stmt(S::Let("acc".into(), E::Arr(vec![]))),
        Item::Stmt(S::FnDef("bump".into(), vec!["x".into()], vec![S::Expr(assign(id("g0"), bin("+", id("g0"), id("x")))), S::Expr(id("g0"))])),
    ];
    // (now and then no per-packet filter at all: a program whose only filter is `@ end`)
    let end_only = g.c.chance(1, 12);
    let nf = if end_only { 0 } else { 1 + g.c.below(5) };
    let mut extra: Vec<Item> = Vec::new();
    let mut selecting = 0;
    for k in 0..nf {
        g.in_filter = true;
        g.locals.clear();
        // most programs get at least one action-less (selecting) filter
        let force_select = k + 1 == nf && selecting == 0 && g.c.chance(3, 4);
        let f = match if force_select { 0 } else { g.c.below(6) } {
            0 | 1 => Filt { pattern: Some(g.boolean(2)), action: None, exit_at: None },
            2 => Filt { pattern: None, action: Some(g.action()), exit_at: None },
            _ => {
                let p = g.boolean(2);
                Filt { pattern: Some(p), action: Some(g.action()), exit_at: None }
            }
        };
        let mut f = f;
        if f.action.is_some() && g.c.chance(1, 8) {
            f.exit_at = Some((1 + g.c.below(8) as u32, [0u8, 0, 3, 7][g.c.below(4)]));
        }
        g.in_filter = false;
        g.locals.clear();
        if f.action.is_none() {
            selecting += 1;
        }
        extra.push(Item::Filter(f));
        // non-filter statements between and after the filters still run first
        if g.c.chance(1, 3) {
            g.locals.clear();
            let e = g.int(1);
            extra.push(Item::Stmt(S::Expr(assign(id("g1"), bin("+", id("g1"), e)))));
        }
        if g.c.chance(1, 6) {
            extra.push(Item::Stmt(S::Expr(call("say", vec![id("g1")]))));
        }
    }
    items.extend(extra);
    if end_only || g.c.chance(2, 3) {
        g.locals.clear();
        let mut a = vec![S::Expr(call("say", vec![id("NP")])), S::Expr(call("say", vec![id("g0")])), S::Expr(call("say", vec![id("g1")])), S::Expr(call("say", vec![id("cnt")])), S::Expr(call("say", vec![call("len", vec![id("acc")])]))];
        if g.c.bool() {
            a.push(S::Expr(call("say", vec![call("first", vec![id("acc")])])));
            a.push(S::Expr(call("say", vec![call("last", vec![id("acc")])])));
        }
        let at = if g.c.chance(1, 4) { 5 + g.c.below(items.len() - 4) } else { items.len() };
        items.insert(at.min(items.len()), Item::End(a));
    }
    Prog { items }
}

fn render_prog(p: &Prog, silent: bool) -> String {
    let mut s = String::new();
    s.push_str(if silent { "fn say(x) { puts(x); }\n" } else { "fn say(x) { eprintln(\"{}\", x); }\n" });
    for it in &p.items {
        match it {
            Item::Stmt(st) => s.push_str(&render(std::slice::from_ref(st))),
            Item::Filter(f) => {
                s.push_str("@ ");
                if let Some(e) = &f.pattern {
                    s.push_str(&render_expr(e));
                    s.push(' ');
                }
                if let Some(a) = &f.action {
                    s.push_str("{\n");
                    s.push_str(&render(a));
                    if let Some((np, code)) = f.exit_at {
                        s.push_str(&format!("if NP == {} {{ exit({}); }}\n", np, code));
                    }
                    s.push_str("}");
                }
                s.push('\n');
            }
            Item::End(a) => {
                s.push_str("@ end {\n");
                s.push_str(&render(a));
                s.push_str("}\n");
            }
        }
        if !s.ends_with('\n') {
            s.push('\n');
        }
    }
    s
}

struct Expected {
    out_records: Vec<u8>,
    text: String,
    selected: usize,
    modified_then_selected: bool,
    unspecified: Option<String>,
    /// the program called exit(code) inside a filter action
    exit: Option<u8>,
}

fn layer_start(data: &[u8], depth: usize) -> usize {
    match depth {
        1 => 0,
        2 => 14,
        _ => 14 + 4 * (data[14] & 0x0f) as usize,
    }
}

fn layer_of(depth: usize, uniform: Option<u8>) -> super::super::codec::Layer {
    use super::super::codec::Layer;
    match depth {
        1 => Layer::Eth,
        2 => Layer::Ipv4,
        _ => {
            if uniform == Some(1) {
                Layer::Udp
            } else {
                Layer::Tcp
            }
        }
    }
}

fn set_cell(env: &Env, name: &str, v: RV) {
    if let Some(c) = lookup(env, name) {
        *c.borrow_mut() = v;
    }
}

fn model(p: &Prog, file: &PcapFile, uniform: Option<u8>) -> Expected {
    let mut it = Interp::new(2_000_000);
    let mut env: Env = None;
    let mut x = Expected { out_records: vec![], text: String::new(), selected: 0, modified_then_selected: false, unspecified: None, exit: None };
    let mut pre: Vec<S> = SPECIALS.iter().map(|n| S::Let(n.to_string(), E::Null)).collect();
    for f in FVS {
        pre.push(S::Let(f.text.to_string(), E::Null));
    }
    pre.push(S::FnDef("say".into(), vec!["x".into()], vec![S::Expr(call("puts", vec![id("x")]))]));
    let _ = it.run_more(&pre, &mut env);
    let prologue: Vec<S> = p.items.iter().filter_map(|i| if let Item::Stmt(s) = i { Some(s.clone()) } else { None }).collect();
    if let Err(e) = it.run_more(&prologue, &mut env) {
        x.unspecified = Some(format!("prologue: {:?}", e));
        return x;
    }
    let filters: Vec<&Filt> = p.items.iter().filter_map(|i| if let Item::Filter(f) = i { Some(f) } else { None }).collect();
    set_cell(&env, "NP", RV::Int(0));
    let fvs: Vec<&FV> = FVS.iter().filter(|f| !f.uniform_only || uniform.is_some()).collect();
    for (i, rec) in file.recs.iter().enumerate() {
        let mut hdr = [rec.sec, rec.usec, rec.data.len() as u32, rec.wirelen];
        let mut data = rec.data.clone();
        let mut modified = false;
        set_cell(&env, "NP", RV::Int(i as i64 + 1));
        set_cell(&env, "PL", RV::Int(hdr[2] as i64));
        set_cell(&env, "WL", RV::Int(hdr[3] as i64));
        set_cell(&env, "TSS", RV::Int(hdr[0] as i64));
        set_cell(&env, "TSU", RV::Int(hdr[1] as i64));
        let current = |f: &FV, hdr: &[u32; 4], data: &[u8]| -> Option<i64> {
            if f.addr {
                return None;
            }
            if f.depth == 0 {
                return Some(hdr[["sec", "usec", "caplen", "wirelen"].iter().position(|n| *n == f.field).unwrap()] as i64);
            }
            let layer = layer_of(f.depth, uniform);
            let fd = FIELDS.iter().find(|d| d.layer == layer && d.name == f.field)?;
            Some(get_bits(data, layer_start(data, f.depth), fd.bit, fd.width) as i64)
        };
        let load = |env: &Env, hdr: &[u32; 4], data: &[u8]| {
            for f in &fvs {
                match current(f, hdr, data) {
                    Some(v) => set_cell(env, f.text, RV::Int(v)),
                    None => set_cell(env, f.text, RV::Null),
                }
            }
        };
        load(&env, &hdr, &data);
        for f in &filters {
            let truth = match &f.pattern {
                None => true,
                Some(e) => match it.eval(e, &env) {
                    Ok(v) => !falsey(&v),
                    Err(e) => {
                        x.unspecified = Some(format!("pattern: {:?}", e));
                        x.text = it.out.clone();
                        return x;
                    }
                },
            };
            if !truth {
                continue;
            }
            match &f.action {
                None => {
                    x.selected += 1;
                    if modified {
                        x.modified_then_selected = true;
                    }
                    for h in hdr {
                        x.out_records.extend_from_slice(&h.to_le_bytes());
                    }
                    x.out_records.extend_from_slice(&data);
                }
                Some(a) => {
                    let mut e2 = env.clone();
                    if let Err(e) = it.stmt(&S::Block(a.clone()), &mut e2, Kind::Local) {
                        x.unspecified = Some(format!("action: {:?}", e));
                        x.text = it.out.clone();
                        return x;
                    }
                    // field assignments made by the action
                    for fv in &fvs {
                        let now = lookup(&env, fv.text).map(|c| c.borrow().clone()).unwrap_or(RV::Null);
                        match (fv.addr, to_val(&now)) {
                            (true, Val::Str(s)) => {
                                if let Some(m) = parse_mac(&s) {
                                    let off = if fv.field == "dst" { 0 } else { 6 };
                                    if data[off..off + 6] != m {
                                        data[off..off + 6].copy_from_slice(&m);
                                        modified = true;
                                    }
                                }
                                set_cell(&env, fv.text, RV::Null);
                            }
                            (false, Val::Int(v)) => {
                                if Some(v) != current(fv, &hdr, &data) {
                                    modified = true;
                                    if fv.depth == 0 {
                                        let k = ["sec", "usec", "caplen", "wirelen"].iter().position(|n| *n == fv.field).unwrap();
                                        hdr[k] = v as u32;
                                    } else {
                                        let layer = layer_of(fv.depth, uniform);
                                        if let Some(fd) = FIELDS.iter().find(|d| d.layer == layer && d.name == fv.field) {
                                            let st = layer_start(&data, fv.depth);
                                            set_bits(&mut data, st, fd.bit, fd.width, v as u128);
                                        }
                                    }
                                }
                            }
                            _ => {}
                        }
                    }
                    load(&env, &hdr, &data);
                    if let Some((np, code)) = f.exit_at {
                        if np as usize == i + 1 {
                            x.exit = Some(code);
                            x.text = it.out.clone();
                            return x;
                        }
                    }
                }
            }
        }
    }
    set_cell(&env, "PL", RV::Null);
    set_cell(&env, "WL", RV::Null);
    for it_ in &p.items {
        if let Item::End(a) = it_ {
            let mut e2 = env.clone();
            if let Err(e) = it.stmt(&S::Block(a.clone()), &mut e2, Kind::Local) {
                x.unspecified = Some(format!("end: {:?}", e));
            }
        }
    }
    x.text = it.out.clone();
    x
}

fn gen_stream(c: &mut Choices) -> (PcapFile, Option<u8>) {
    let uniform = match c.below(4) {
        0 => Some(0u8),
        1 => Some(1u8),
        _ => None,
    };
    let mut f = gen_file(c, &GenCfg { max_records: 0, huge: false, small: true });
    let n = if c.chance(1, 15) { 0 } else { c.below(41) };
    f.hdr.snaplen = [65535, 262144, 2000, u32::MAX][c.below(4)];
    for _ in 0..n {
        let stack = match uniform {
            Some(u) => u,
            None => c.below(8) as u8,
        };
        // frame contents from a seed: a frame must not use up the choice sequence
        let fb = fill(c.u64(), 260);
        let mut fc = Choices::new(&fb);
        let data = stack_frame(&mut fc, stack);
        let wirelen = if c.bool() { data.len() as u32 } else { data.len() as u32 + c.below(1400) as u32 };
        let (sec, usec) = if c.chance(1, 5) { (c.u32(), c.u32()) } else { (1_700_000_000 + c.below(1000) as u32, c.below(1_000_000) as u32) };
        f.recs.push(Rec { sec, usec, wirelen, data });
    }
    // a stream without records sometimes announces snap length 0 (the header is echoed as it is)
    if f.recs.is_empty() && c.bool() {
        f.hdr.snaplen = 0;
    }
    // every third stream: the snap length is exactly the longest captured length
    if !f.recs.is_empty() && c.chance(1, 3) {
        f.hdr.snaplen = f.recs.iter().map(|r| r.data.len() as u32).max().unwrap_or(0);
    }
    (f, uniform)
}

fn first_diff(a: &[u8], b: &[u8]) -> usize {
    a.iter().zip(b.iter()).position(|(x, y)| x != y).unwrap_or(a.len().min(b.len()))
}

fn check(ctx: &mut Ctx, p: &Prog, file: &PcapFile, uniform: Option<u8>) -> Vec<Violation> {
    let x = model(p, file, uniform);
    let input = file.bytes();
    let src_a = render_prog(p, false);
    let src_b = render_prog(p, true);
    let case = json!({"stream": hex(&input), "uniform": uniform, "items": serde_json::to_value(&p.items).unwrap_or(Value::Null)});
    guard("filters", "program", &src_a);
    let mut out = Vec::new();
    if let Some(u) = &x.unspecified {
        ctx.class("model:unspecified");
        ctx.note(format!("C20 model left its domain: {}", u.chars().take(80).collect::<String>()));
        return out;
    }
    if x.selected > 0 && x.selected < file.recs.len() * p.items.iter().filter(|i| matches!(i, Item::Filter(f) if f.action.is_none())).count().max(1) {
        ctx.class("selected-some-not-all");
    }
    if x.modified_then_selected {
        ctx.class("modified-then-selected");
    }
    let fail = |sig: &str, detail: String| Violation::new("filters", sig.to_string(), detail, case.clone());
    let pa = e2e::script_file("c20-a.p2", &src_a);
    let ra = e2e::run(Opts::new(vec![pa]).stdin(Stdin::Bytes(input.clone())));
    let pb = e2e::script_file("c20-b.p2", &src_b);
    let rb = e2e::run(Opts::new(vec!["-s".into(), pb]).stdin(Stdin::Bytes(input.clone())));
    for (name, r) in [("without -s", &ra), ("with -s", &rb)] {
        if r.spawn_error.is_some() || r.timed_out {
            ctx.infra(format!("C20: run {} failed to spawn or timed out", name));
            return out;
        }
        if let Some(c) = r.crashed() {
            out.push(fail(&e2e::crash_signature(&c), format!("{}: {}\n{}", name, c, src_a)));
            return out;
        }
    }
    if let Some(code) = x.exit {
        ctx.class("exit-in-filter");
        for (name, r) in [("without -s", &ra), ("with -s", &rb)] {
            if r.code != Some(code as i32) {
                out.push(fail("exit-in-filter:status", format!("{}: exit({}) was called in a filter action on a packet, the process ended with {:?}\n{}", name, code, r.code, src_a)));
                return out;
            }
        }
    }
    // ---- without -s: stdout is the pcap stream, prints are on stderr
    let mut want_out = input[..24].to_vec();
    want_out.extend_from_slice(&x.out_records);
    if ra.err_text() != x.text {
        let (g, w) = (ra.err_text(), x.text.clone());
        let sig = if g.contains("Runtime error") || g.contains("error") { "prints-differ:error-reported" } else { "prints-differ" };
        out.push(fail(sig, format!("without -s the program printed (stderr)\n{}\nthe model prints\n{}\n--- program\n{}\nstream: {} records", g.chars().take(600).collect::<String>(), w.chars().take(600).collect::<String>(), src_a, file.recs.len())));
        return out;
    }
    if ra.stdout != want_out {
        let d = first_diff(&ra.stdout, &want_out);
        let sig = if ra.stdout.len() >= 24 && want_out.len() >= 24 && ra.stdout[..24] != want_out[..24] {
            "output:global-header-differs"
        } else if ra.stdout.len() < want_out.len() {
            "output:records-missing"
        } else if ra.stdout.len() > want_out.len() {
            "output:extra-records"
        } else {
            "output:record-bytes-differ"
        };
        out.push(fail(
            sig,
            format!("without -s stdout has {} bytes, expected {} (input header + {} selected records); first difference at byte {}\n got:  {}\n want: {}\n--- program\n{}", ra.stdout.len(), want_out.len(), x.selected, d, hex(&ra.stdout[d.saturating_sub(8)..(d + 24).min(ra.stdout.len())]), hex(&want_out[d.saturating_sub(8)..(d + 24).min(want_out.len())]), src_a),
        ));
        return out;
    }
    // ---- with -s: stdout carries only what the program prints
    if rb.stdout != x.text.as_bytes() {
        let sig = if rb.stdout.len() >= 4 && (rb.stdout[..4] == input[..4]) { "silent:pcap-on-stdout" } else { "silent:prints-differ" };
        out.push(fail(sig, format!("with -s stdout is\n{}\nthe model prints\n{}\n--- program\n{}", String::from_utf8_lossy(&rb.stdout).chars().take(600).collect::<String>(), x.text.chars().take(600).collect::<String>(), src_b)));
        return out;
    }
    if !rb.stderr.is_empty() {
        out.push(fail("silent:stderr-not-empty", format!("with -s stderr: {}", rb.err_text().chars().take(300).collect::<String>())));
    }
    out
}

fn one(ctx: &mut Ctx, bytes: &[u8]) -> Vec<Violation> {
    let mut c = Choices::new(bytes);
    let (file, uniform) = gen_stream(&mut c);
    let p = gen_prog(&mut c, uniform);
    let src = render_prog(&p, false);
    let nfilters = p.items.iter().filter(|i| matches!(i, Item::Filter(_))).count();
    let has_end = p.items.iter().any(|i| matches!(i, Item::End(_)));
    ctx.case(hash_bytes(&file.bytes()) ^ hash_str(&src), file.recs.len() >= 2 && nfilters >= 2);
    ctx.class("case");
    if has_end {
        ctx.class("with-end");
    }
    if file.recs.is_empty() {
        ctx.class("empty-stream");
    }
    if uniform.is_some() {
        ctx.class("uniform-stream");
    }
    if file.hdr.magic == MAGIC_NS {
        ctx.class("magic:ns");
    }
    if ctx.want_sample() && nfilters >= 2 && file.recs.len() >= 3 && ctx.res.evals % 3 == 0 {
        ctx.sample(json!({"records": file.recs.len(), "header": format!("{:?}", file.hdr), "program": src}));
    }
    check(ctx, &p, &file, uniform)
}

pub fn run(ctx: &mut Ctx) {
    let n = ctx.nshards as u32;
    set_shrink_iters(120);
    ctx.more_samples(2);
    drive(ctx, "filters", ctx.tier.pick(900, 40_000) / n, 64, 1500, |ctx, b| one(ctx, b));
}

pub fn replay(_section: &str, case: &Value, ctx: &mut Ctx) {
    let stream = unhex(case["stream"].as_str().unwrap_or(""));
    let (hdr, recs, _) = parse(&stream);
    let items: Vec<Item> = serde_json::from_value(case["items"].clone()).unwrap_or_default();
    let uniform = case["uniform"].as_u64().map(|u| u as u8);
    if let Some(hdr) = hdr {
        let file = PcapFile { hdr, recs };
        for v in check(ctx, &Prog { items }, &file, uniform) {
            ctx.report(v);
        }
    }
}
