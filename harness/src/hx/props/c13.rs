//! C13 — runtime errors report the source line of the failing operation.

use serde_json::{json, Value};

use super::super::ast::*;
use super::super::choices::{hash_str, Choices};
use super::super::engine::*;
use super::super::p2::{run_text, Outcome};
use super::Meta;

pub const META: Meta = Meta {
    rule: "proptest byte-vectors decoded into: 0..40 lines of non-failing filler (blank lines, # and // comments, multi-line blocks, function definitions, filter statements, \
multi-line array/map/match/string constructs, loops) followed by exactly one failing single-line construct at a generator-known line L (division/modulo by zero, bad index, missing key, \
bad operand kinds for every operator class, unary on a wrong kind, calling a non-function, wrong arity for a user function, wrong arity/kind for each pure builtin, property access on a \
non-packet), placed at top level, inside a function called from another line, inside a closure, inside a loop body, inside an if branch, or nested in a larger expression; LF and CRLF line \
terminators. Oracle: the runtime error's line == L (the renderer records the line of the marked construct). Non-trivial: L >= 2 AND (the construct is inside a function/closure, or a \
function / filter / multi-line construct precedes it). Distinct by source-text hash.",
    assumptions: &["only constructs written on a single line are generated (the property's proviso)", "filler statements are fixed, known-good snippets"],
    required_classes: &[("ctx:top", 500), ("ctx:function", 500), ("ctx:closure", 300), ("ctx:loop", 300), ("kind:builtin", 500), ("kind:div-zero", 200), ("nl:crlf", 500), ("filler:multiline-string", 200)],
    exhaustive_when_sections: &[],
};

/// (class, expression text); every one fails at run time when evaluated
const FAILING: &[(&str, &str)] = &[
    ("div-zero", "1 / 0"),
    ("div-zero", "7 % 0"),
    ("div-zero", "1.5 / 0.0"),
    ("index", "[1, 2][5]"),
    ("index", "[1][(-1)]"),
    ("index", "5[0]"),
    ("index", "\"abc\"[0]"),
    ("key", "map {1: 2}[3]"),
    ("key", "map {\"a\": 1}[\"b\"]"),
    ("operands", "1 + \"a\""),
    ("operands", "\"a\" - \"b\""),
    ("operands", "[1] * 2"),
    ("operands", "true < false"),
    ("operands", "1 & 1.5"),
    ("operands", "1 << \"a\""),
    ("operands", "null + 1"),
    ("operands", "[1] - [2]"),
    ("operands", "\"ab\" * (-1)"),
    ("operands", "1 | true"),
    ("operands", "'a' * 'b'"),
    ("unary", "-\"a\""),
    ("unary", "~1.5"),
    ("unary", "-[1]"),
    ("call", "5(1)"),
    ("call", "\"f\"()"),
    ("call", "null(1, 2)"),
    ("arity", "one(1, 2)"),
    ("arity", "one()"),
    ("arity", "two(1)"),
    ("builtin", "len()"),
    ("builtin", "len(1)"),
    ("builtin", "len(1, 2)"),
    ("builtin", "first(1)"),
    ("builtin", "last(\"a\")"),
    ("builtin", "rest(5)"),
    ("builtin", "push(1, 2)"),
    ("builtin", "push([1])"),
    ("builtin", "pop(3)"),
    ("builtin", "get(1, 2)"),
    ("builtin", "get([1], \"a\")"),
    ("builtin", "contains(1, 2)"),
    ("builtin", "insert([1], 1, 2)"),
    ("builtin", "str()"),
    ("builtin", "str(len)"),
    ("builtin", "int([1])"),
    ("builtin", "float(null)"),
    ("builtin", "char([1])"),
    ("builtin", "byte(null)"),
    ("builtin", "tolower(1)"),
    ("builtin", "toupper([1])"),
    ("builtin", "sort(1)"),
    ("builtin", "chars(1)"),
    ("builtin", "join(1)"),
    ("builtin", "join([1])"),
    ("builtin", "encode_utf8(1)"),
    ("builtin", "decode_utf8(1)"),
    ("builtin", "decode_utf8([1])"),
    ("builtin", "is_error()"),
    ("builtin", "round(1, 2)"),
    ("builtin", "round(1.5, \"a\")"),
    ("builtin", "format()"),
    ("builtin", "format(\"{}\")"),
    ("builtin", "format(\"{1}\", 1)"),
    ("property", "(5).src"),
    ("property", "\"pkt\".eth"),
    ("property", "[1].payload"),
];

/// filler statements; none of them fails, none defines `one`/`two`
const FILLER: &[(&str, &str)] = &[
    ("blank", ""),
    ("blank", "\n"),
    ("comment", "# a comment"),
    ("comment", "// another comment"),
    ("comment", "   # indented comment with 1 / 0 inside"),
    ("simple", "let f¤ = 1 + 2 * 3;"),
    ("simple", "puts_not_called;"),
    ("simple", "let s¤ = \"text\";"),
    ("simple", "let s¤ = \"with # hash and // slashes\";"),
    ("multiline-array", "let arr¤ = [1,\n  2,\n  3];"),
    ("multiline-map", "let m¤ = map {\n  \"a\": 1,\n  \"b\": [1, 2],\n};"),
    ("multiline-match", "let mm¤ = match 3 {\n  1 => 10,\n  2..5 => {\n    20\n  }\n  _ => 30\n};"),
    ("multiline-string", "let ms¤ = \"line one\nline two\nline three\";"),
    ("multiline-string", "let ms¤ = \"a\n\";"),
    ("function", "fn fun¤(a, b) {\n  let c = a + b;\n  c * 2\n}"),
    ("function", "let lam¤ = fn(x) {\n  if x > 1 {\n    x\n  } else {\n    0 - x\n  }\n};"),
    ("function", "fn crash¤() {\n  1 / 0\n}"),
    ("filter", "@ NP < 10 {\n  let q = 1 / 0;\n}"),
    ("filter", "@ true\nlet after_filter¤ = 0;"),
    ("block", "{\n  let inner¤ = 5;\n  {\n    inner¤ + 1;\n  }\n}"),
    ("loop", "let n¤ = 0;\nwhile n¤ < 3 {\n  n¤ = n¤ + 1;\n}"),
    ("loop", "let k¤ = 0;\nloop {\n  k¤ = k¤ + 1;\n  if k¤ > 2 { break; }\n}"),
    ("if", "if 1 < 2 {\n  3\n} else if false {\n  4\n} else {\n  5\n};"),
    ("call", "len([1,\n 2]);"),
    ("call", "ok_call();"),
];

pub struct Built {
    pub src: String,
    pub line: usize,
    pub class: &'static str,
    pub ctx: &'static str,
    pub crlf: bool,
    pub nontrivial: bool,
    pub fillers: Vec<&'static str>,
}

pub fn build(bytes: &[u8]) -> Built {
    let mut c = Choices::new(bytes);
    let crlf = c.below(4) == 0;
    let nfill = c.below(14);
    let mut text = String::new();
    let mut fillers = Vec::new();
    let mut uniq = 0;
    // definitions the failing constructs and fillers rely on
    text.push_str("fn one(a) { a }\nfn two(a, b) { a + b }\nfn ok_call() { 1 }\nlet puts_not_called = 0;\n");
    let mut structured = false;
    for _ in 0..nfill {
        let (class, f) = FILLER[c.below(FILLER.len())];
        uniq += 1;
        text.push_str(&f.replace('¤', &uniq.to_string()));
        text.push('\n');
        fillers.push(class);
        if matches!(class, "function" | "filter" | "multiline-array" | "multiline-map" | "multiline-match" | "multiline-string" | "block" | "loop") {
            structured = true;
        }
    }
    let (class, fail) = FAILING[c.below(FAILING.len())];
    // wrap the failing construct in a larger single-line expression sometimes
    let fail_expr = match c.below(6) {
        0 => format!("1 + ({})", fail),
        1 => format!("len([{}])", fail),
        2 => format!("[0, {}, 2]", fail),
        3 => format!("one({})", fail),
        _ => fail.to_string(),
    };
    let ctx: &'static str;
    let line_of = |t: &str| t.matches('\n').count() + 1;
    let line;
    let mut class = class;
    match c.below(10) {
        9 => {
            // unbounded recursion: the failing instruction is the recursive call (or a push on its line) deep inside,
            // not the definition's first line and not the top-level call
            ctx = "function";
            class = "stack-overflow";
            let (params, arg, call0) = [("", "", ""), ("n", "n + 1", "0"), ("a, b", "b, a", "1, 2")][c.below(3)];
            text.push_str(&format!("fn rec({}) {{\n", params));
            for _ in 0..c.below(3) {
                text.push_str("\n");
            }
            line = line_of(&text);
            let body = match c.below(3) {
                0 => format!("  rec({})\n", arg),
                1 => format!("  1 + rec({})\n", arg),
                _ => format!("  return rec({});\n", arg),
            };
            text.push_str(&body);
            text.push_str("}\n");
            for _ in 0..c.below(4) {
                text.push_str("# gap\n");
            }
            text.push_str(&format!("rec({});\n", call0));
        }
        8 => {
            // the failing operator is the range test of one arm of a match laid out over several lines
            ctx = "match-range-arm";
            class = "match-range";
            let (scrut, lo, hi) = [("\"zz\"", "5", "9"), ("null", "1", "3"), ("7", "\"a\"", "\"f\""), ("[1]", "0", "9")][c.below(4)];
            let before = c.below(3);
            text.push_str(&format!("let scrut = {};\nlet m = match scrut {{\n", scrut));
            for k in 0..before {
                text.push_str(&format!("  {} => {},\n", if lo.starts_with('"') { format!("\"q{}\"", k) } else { format!("{}", 100 + k) }, k));
            }
            line = line_of(&text);
            text.push_str(&format!("  {}..{}{} => 20,\n  _ => 30,\n}};\n", lo, if c.bool() { "=" } else { "" }, hi));
        }
        0 | 1 => {
            ctx = "top";
            line = line_of(&text);
            text.push_str(&format!("{};\n", fail_expr));
        }
        2 => {
            ctx = "top-let";
            line = line_of(&text);
            text.push_str(&format!("let z = {};\n", fail_expr));
        }
        3 => {
            ctx = "function";
            text.push_str("fn failing(p) {\n  let local = p + 1;\n");
            line = line_of(&text);
            text.push_str(&format!("  {};\n  local\n}}\n", fail_expr));
            // called from another, later line
            let gap = c.below(4);
            for _ in 0..gap {
                text.push_str("# gap\n");
            }
            text.push_str("failing(1);\n");
        }
        4 => {
            ctx = "closure";
            text.push_str("let mk = fn(a) {\n  fn(b) {\n");
            line = line_of(&text);
            text.push_str(&format!("    let r = {};\n    r\n  }}\n}};\nlet cl = mk(1);\n\ncl(2);\n", fail_expr));
        }
        5 => {
            ctx = "loop";
            text.push_str("let i = 0;\nwhile i < 3 {\n  i = i + 1;\n  if i == 2 {\n");
            line = line_of(&text);
            text.push_str(&format!("    {};\n  }}\n}}\n", fail_expr));
        }
        6 => {
            ctx = "if-condition";
            line = line_of(&text);
            text.push_str(&format!("if {} {{\n  1\n}} else {{\n  2\n}};\n", fail_expr));
        }
        _ => {
            ctx = "function";
            // function defined first, more filler, then the call
            let mut head = String::from("fn failing2() {\n");
            let l_in = line_of(&text) + 1;
            head.push_str(&format!("  {}\n}}\n", fail_expr));
            text.push_str(&head);
            line = l_in;
            text.push_str("let after = 1;\n# comment\nfailing2();\n");
        }
    }
    text.push_str("let unreachable = 1;\n");
    let nontrivial = line >= 2 && (matches!(ctx, "function" | "closure") || structured);
    let src = if crlf { text.replace('\n', "\r\n") } else { text };
    Built { src, line, class, ctx, crlf, nontrivial, fillers }
}

fn check_src(ctx: &mut Ctx, section: &str, src: &str, line: usize, class: &str) -> Vec<Violation> {
    guard(section, "src", src);
    let case = json!({"src": src, "line": line, "class": class});
    match run_text(src) {
        Outcome::Ran(r) => match r.err {
            Some((msg, l)) => {
                if l != line {
                    vec![Violation::new(
                        section,
                        format!("wrong-line:{}", class),
                        format!("the failing construct is on line {} but the runtime error reports line {} ({})\n{}", line, l, msg, src),
                        case,
                    )]
                } else {
                    vec![]
                }
            }
            None => {
                ctx.infra(format!("C13 harness: the construct of class {} did not fail:\n{}", class, src));
                vec![]
            }
        },
        Outcome::Panic(p) => vec![Violation::new(section, p.signature(), format!("crash: {}\n{}", p.describe(), src), case)],
        o => {
            ctx.infra(format!("C13 harness: program did not compile: {}\n{}", o.tag(), src));
            vec![]
        }
    }
}

pub fn run(ctx: &mut Ctx) {
    let n = ctx.nshards as u32;
    drive(ctx, "lines", ctx.tier.pick(160_000, 2_000_000) / n, 8, 64, |ctx, bytes| {
        let b = build(bytes);
        ctx.case(hash_str(&b.src), b.nontrivial);
        ctx.class(&format!("ctx:{}", b.ctx));
        ctx.class(&format!("kind:{}", b.class));
        if b.crlf {
            ctx.class("nl:crlf");
        }
        for f in &b.fillers {
            if *f == "multiline-string" || *f == "filter" || *f == "function" {
                ctx.class(&format!("filler:{}", f));
            }
        }
        if ctx.want_sample() && b.nontrivial && ctx.res.evals % 173 == 3 {
            ctx.sample(json!({"src": b.src, "expected_line": b.line, "class": b.class, "context": b.ctx}));
        }
        check_src(ctx, "lines", &b.src, b.line, b.class)
    });
    set_shrink_iters(60);
    let e2e_shards = 4.min(ctx.nshards);
    if ctx.shard < e2e_shards {
        drive(ctx, "binary", ctx.tier.pick(480, 16_000) / e2e_shards as u32, 8, 64, |ctx, bytes| binary_case(ctx, bytes));
    }
}

/// through the real binary: the `[line N]` prefix on stderr, for script files and -c, also when the text starts
/// with blank or whitespace-only lines
fn binary_case(ctx: &mut Ctx, bytes: &[u8]) -> Vec<Violation> {
    let b = build(bytes);
    if b.fillers.iter().any(|f| *f == "filter") {
        return vec![]; // filter mode waits for a stream; the in-process section covers filters
    }
    let mut c = Choices::new(bytes);
    let k = c.below(4);
    let nl = if b.crlf { "\r\n" } else { "\n" };
    let mut lead = String::new();
    for i in 0..k {
        lead.push_str(["", "  ", "\t", " \t "][(i + bytes.len()) % 4]);
        lead.push_str(nl);
    }
    let src = format!("{}{}", lead, b.src);
    let line = b.line + k;
    let cmd_mode = bytes.last().map(|x| x % 3 == 0).unwrap_or(false);
    ctx.case(hash_str(&src) ^ cmd_mode as u64, k > 0);
    ctx.class("binary");
    if k > 0 {
        ctx.class("binary:leading-blank-lines");
    }
    run_binary(ctx, &src, line, b.class, cmd_mode)
}

fn run_binary(ctx: &mut Ctx, src: &str, line: usize, class: &str, cmd_mode: bool) -> Vec<Violation> {
    use super::super::e2e::{self, Opts};
    let case = json!({"binary": true, "src": src, "line": line, "class": class, "cmd_mode": cmd_mode});
    let args = if cmd_mode { vec!["-c".to_string(), src.to_string()] } else { vec![e2e::script_file("c13.p2", src)] };
    let r = e2e::run(Opts::new(args));
    if r.spawn_error.is_some() || r.timed_out {
        ctx.infra("C13: binary run failed to spawn or timed out".to_string());
        return vec![];
    }
    if let Some(c) = r.crashed() {
        return vec![Violation::new("binary", e2e::crash_signature(&c), format!("{}\n{}", c, src), case)];
    }
    let err = r.err_text();
    let want = format!("[line {}] Runtime error", line);
    if !err.contains(&want) {
        let got = err.lines().find(|l| l.contains("Runtime error")).unwrap_or("(no runtime error line)").to_string();
        return vec![Violation::new("binary", format!("binary:wrong-line:{}", if cmd_mode { "command" } else { "script" }), format!("the failing construct is on line {} of the {}; stderr says: {}\n{}", line, if cmd_mode { "-c text" } else { "script file" }, got, src), case)];
    }
    vec![]
}

pub fn replay(section: &str, case: &Value, ctx: &mut Ctx) {
    if case.get("binary").is_some() {
        let vs = run_binary(ctx, case["src"].as_str().unwrap_or(""), case["line"].as_u64().unwrap_or(0) as usize, "replay", case["cmd_mode"].as_bool().unwrap_or(false));
        for v in vs {
            ctx.report(v);
        }
        return;
    }
    let src = case["src"].as_str().unwrap_or("");
    let line = case["line"].as_u64().unwrap_or(0) as usize;
    let class = case["class"].as_str().unwrap_or("?");
    for v in check_src(ctx, section, src, line, class) {
        ctx.report(v);
    }
}

#[allow(dead_code)]
fn unused(_: &E) {}
