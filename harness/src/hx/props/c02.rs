//! C02 — compiled programs behave as the reference semantics prescribe.

use serde_json::{json, Value};

use super::super::choices::hash_str;
use super::super::engine::*;
use super::super::gen::{gen_faulty, gen_program, Cfg};
use super::super::progcheck::*;
use super::Meta;

pub const META: Meta = Meta {
    rule: "proptest byte-vectors decoded by a type-directed program generator (literals incl. i64 boundaries and special floats, all operators, let/assignment, \
arrays, maps, indexing, if/else-if/else and match as values and statements, counter-bounded while/loop with plain and labelled break/continue, function \
statements, function literals, closures with private state, recursion, pure builtins; ~2% deliberately ill-typed operands) rendered to source text; \
each program is evaluated by an independent reference interpreter (lexical scoping, stated evaluation orders) and by the real scanner+parser+compiler+VM; \
compile-time verdict, observation sequence (probe function t(id,v) and push(obs,..)), final value and runtime-error presence/class must agree. \
(illformed) the same generator with exactly one injected fault (undefined name, use after block end, use before definition, break/continue outside a loop \
or with an unknown label, return outside a function, mixed-type match arms): the compiler must reject. \
Non-trivial: the reference run made >=1 call or loop iteration or took conditionals both ways, AND >=3 observations, AND >=3 distinct construct kinds. Distinct by source-text hash.",
    assumptions: &[
        "the reference interpreter (harness/src/hx/interp.rs, ops.rs, builtins_ref.rs) is the oracle; it was written from the property statements and docs",
        "programs entering a declared don't-care zone of DESIGN.md §3.1 (reference returns Unspecified) are executed for crashes only and not compared",
    ],
    required_classes: &[("compared", 10_000), ("illformed:compared", 1_000), ("ref:runtime-error", 200), ("nontrivial", 3_000)],
    exhaustive_when_sections: &[],
};

pub fn cfg_for(bytes: &[u8]) -> Cfg {
    // vary the size with the first byte so that small programs are frequent
    let mut cfg = Cfg::default();
    let b = bytes.first().copied().unwrap_or(0);
    cfg.max_stmts = 4 + (b as usize % 24);
    cfg.max_depth = 2 + (b as usize / 64).min(2);
    cfg
}

pub fn check(ctx: &mut Ctx, section: &str, prog: &[super::super::ast::S], nkinds: usize) -> Vec<Violation> {
    let rr = reference(prog, 300_000);
    let v = compare(section, prog, &rr);
    let obs_n = match &rr.obs {
        super::super::p2::Val::Arr(a) => a.len(),
        _ => 0,
    };
    let nontrivial = rr.rejects.is_empty() && (rr.calls > 0 || rr.loop_iters > 0 || rr.both_ways) && obs_n >= 3 && nkinds >= 3;
    let nontrivial = nontrivial || (!rr.rejects.is_empty() && v.compared);
    ctx.case(hash_str(&v.src), nontrivial && v.compared);
    if nontrivial && v.compared {
        ctx.class("nontrivial");
    }
    if v.compared {
        ctx.class(if section == "illformed" { "illformed:compared" } else { "compared" });
    }
    if let Some(u) = &rr.unspecified {
        ctx.class("ref:unspecified");
        ctx.note(format!("unspecified zone seen: {}", u.chars().take(60).collect::<String>()));
    }
    match &rr.result {
        Some(Err(_)) => ctx.class("ref:runtime-error"),
        Some(Ok(_)) => ctx.class("ref:value"),
        None => {}
    }
    if !rr.rejects.is_empty() {
        ctx.class(&format!("ref:reject:{}", reject_kind(&rr.rejects[0])));
    }
    if ctx.want_sample() && nontrivial && v.compared && ctx.res.evals % 211 == 3 {
        ctx.sample(json!({"section": section, "src": v.src, "p2sh": v.p2_tag, "reference_obs": rr.obs.show()}));
    }
    v.violations
}

pub fn run(ctx: &mut Ctx) {
    let n = ctx.nshards as u32;
    drive(ctx, "programs", ctx.tier.pick(160_000, 3_000_000) / n, 16, 600, |ctx, bytes| {
        let (prog, kinds) = gen_program(&bytes[1.min(bytes.len())..], cfg_for(bytes));
        check(ctx, "programs", &prog, kinds.len())
    });
    ctx.more_samples(2);
    drive(ctx, "illformed", ctx.tier.pick(16_000, 400_000) / n, 16, 400, |ctx, bytes| {
        let (prog, inj) = gen_faulty(&bytes[1.min(bytes.len())..], cfg_for(bytes));
        if inj.is_none() {
            return vec![];
        }
        check(ctx, "illformed", &prog, 3)
    });
}

pub fn replay(section: &str, case: &Value, ctx: &mut Ctx) {
    match parse_prog(case) {
        Some(prog) => {
            for v in check(ctx, section, &prog, 3) {
                ctx.report(v);
            }
        }
        None => ctx.infra("C02 replay: case has no program"),
    }
}
