//! C05 — conditionals, match and loops follow their documented control flow.

use serde_json::{json, Value};

use super::super::ast::*;
use super::super::choices::{hash_str, Choices};
use super::super::engine::*;
use super::super::gen::{gen_program, prologue, Cfg};
use super::super::progcheck::*;
use super::Meta;

pub const META: Meta = Meta {
    rule: "(match tables, bounded-exhaustive) scrutinee x pattern over ints 0..9 (every literal, every a..b and a..=b with 0<=a<=b<=9, alternations), chars a..f, bytes, \
one/two-character strings and booleans; single arm with and without `_`, two overlapping arms (first match wins), alternations, scrutinee wrapped in a side-effect \
probe (evaluated once), arm bodies as blocks and as expressions; (if chains, exhaustive) chains of 1..4 conditions over truthy/falsey representatives, every \
truth assignment, with/without else, branches ending in a value / empty / a let, used as value and as statement; (arm kinds) every ordered pair of pattern kinds \
(must be rejected iff the kinds differ); (loop nests, proptest) 1..3 nested while/loop with counters, some labelled, break/continue (plain and labelled, \
targeting every enclosing level) guarded by counter conditions, observations before and after each jump; (programs) the C02 generator biased to control flow. \
Oracle: reference interpreter. Non-trivial: tables - the scrutinee equals a range boundary or matches a non-first arm or nothing; loop nests - a labelled jump \
targets a loop >=2 levels out or a continue precedes later statements of its body, and >=2 iterations ran. Distinct by source-text hash.",
    assumptions: &["a match whose scrutinee is of another kind than its patterns is a don't-care zone (only 'no crash')", "reference interpreter is the oracle"],
    required_classes: &[("table:int", 10_000), ("table:char", 500), ("table:str", 200), ("table:bool", 15), ("ifchain", 1_000), ("armkinds", 60), ("loopnest", 5_000), ("boundary-hit", 2_000), ("labelled-outer-jump", 500)],
    exhaustive_when_sections: &["tables", "ifchains", "armkinds"],
};

fn obs(e: E) -> S {
    S::Expr(call("push", vec![id("obs"), e]))
}

fn arm(pats: Vec<Pat>, val: i64, as_block: bool) -> Arm {
    if as_block {
        Arm { pats, block: Some(vec![S::Expr(E::Int(val))]), expr: None }
    } else {
        Arm { pats, block: None, expr: Some(E::Int(val)) }
    }
}

fn lit_pat(kind: u8, i: i64) -> Pat {
    match kind {
        0 => Pat::Int(i),
        1 => Pat::Char((b'a' + i as u8) as char),
        2 => Pat::Byte(b'a' + i as u8),
        3 => Pat::Str(["a", "ab", "b", "ba", "c", "d"][i as usize].to_string()),
        _ => Pat::Bool(i != 0),
    }
}

fn lit_expr(kind: u8, i: i64) -> E {
    match kind {
        0 => E::Int(i),
        1 => E::Char((b'a' + i as u8) as char),
        2 => E::Byte(b'a' + i as u8),
        3 => E::Str(["a", "ab", "b", "ba", "c", "d"][i as usize].to_string()),
        _ => E::Bool(i != 0),
    }
}

/// patterns over a domain 0..n of one kind: literals, ranges (exclusive/inclusive)
fn pattern_pool(kind: u8, n: i64) -> Vec<(Pat, bool)> {
    // (pattern, is_range)
    let mut v = Vec::new();
    for i in 0..n {
        v.push((lit_pat(kind, i), false));
    }
    if kind != 4 {
        for a in 0..n {
            for b in a..n {
                v.push((Pat::Range(Box::new(lit_pat(kind, a)), Box::new(lit_pat(kind, b)), false), true));
                v.push((Pat::Range(Box::new(lit_pat(kind, a)), Box::new(lit_pat(kind, b)), true), true));
            }
        }
    }
    v
}

fn table_case(ctx: &mut Ctx, class: &str, scrut: E, arms: Vec<Arm>, probe: bool) -> Vec<Violation> {
    table_case_nt(ctx, class, scrut, arms, probe, true)
}

fn table_case_nt(ctx: &mut Ctx, class: &str, scrut: E, arms: Vec<Arm>, probe: bool, nontrivial: bool) -> Vec<Violation> {
    let mut prog = prologue();
    let s = if probe { call("t", vec![E::Int(7), scrut]) } else { scrut };
    prog.push(obs(E::Match(Box::new(s), arms)));
    prog.push(S::Expr(E::Int(0)));
    check(ctx, "tables", class, &prog, nontrivial)
}

fn check(ctx: &mut Ctx, section: &str, class: &str, prog: &[S], nontrivial_hint: bool) -> Vec<Violation> {
    let rr = reference(prog, 200_000);
    let v = compare(section, prog, &rr);
    let nontrivial = v.compared && nontrivial_hint;
    ctx.case(hash_str(&v.src), nontrivial);
    ctx.class(class);
    if nontrivial && (section == "tables") {
        ctx.class("boundary-hit");
    }
    if rr.unspecified.is_some() {
        ctx.class("ref:unspecified");
    }
    if ctx.want_sample() && nontrivial && ctx.res.evals % 499 == 11 {
        ctx.sample(json!({"section": section, "src": v.src, "reference_obs": rr.obs.show(), "p2sh": v.p2_tag}));
    }
    v.violations
}

fn range_bounds(p: &Pat) -> Option<(i64, i64)> {
    fn ord(p: &Pat) -> i64 {
        match p {
            Pat::Int(i) => *i,
            Pat::Char(c) => *c as i64 - 'a' as i64,
            Pat::Byte(b) => *b as i64 - b'a' as i64,
            _ => -1,
        }
    }
    match p {
        Pat::Range(a, b, _) => Some((ord(a), ord(b))),
        _ => None,
    }
}

fn tables(ctx: &mut Ctx) {
    let mut idx = 0u64;
    for (kind, n, class) in [(0u8, 10i64, "table:int"), (1, 6, "table:char"), (2, 6, "table:byte"), (3, 6, "table:str"), (4, 2, "table:bool")] {
        let pool = pattern_pool(kind, n);
        // reduced pool for the pairwise tables
        let small: Vec<&(Pat, bool)> = if kind == 0 {
            pool.iter().filter(|(p, _)| match range_bounds(p) {
                Some((a, b)) => a % 3 == 1 && b - a <= 4,
                None => true,
            }).collect()
        } else {
            pool.iter().filter(|(p, _)| match range_bounds(p) {
                Some((a, b)) => b - a <= 2,
                None => true,
            }).collect()
        };
        for s in 0..n {
            // single arm, with and without default, probe on odd scrutinees
            for (pi, (p, is_range)) in pool.iter().enumerate() {
                for with_default in [false, true] {
                    idx += 1;
                    if !ctx.mine(idx) {
                        continue;
                    }
                    let mut arms = vec![arm(vec![p.clone()], 1, pi % 2 == 0)];
                    if with_default {
                        arms.push(arm(vec![Pat::Default], 0, pi % 3 == 0));
                    }
                    let boundary = match range_bounds(p) {
                        Some((a, b)) => s == a || s == b || s + 1 == a || s == b + 1,
                        None => true,
                    };
                    let _ = is_range;
                    let vs = table_case_nt(ctx, class, lit_expr(kind, s), arms, s % 2 == 1, boundary);
                    for v in vs {
                        ctx.report(v);
                    }
                }
            }
            // two arms, first match wins; and the same two patterns as one alternation
            for (i, (p1, _)) in small.iter().enumerate() {
                for (j, (p2, _)) in small.iter().enumerate() {
                    idx += 1;
                    if !ctx.mine(idx) {
                        continue;
                    }
                    let arms = vec![arm(vec![p1.clone()], 1, (i + j) % 2 == 0), arm(vec![p2.clone()], 2, j % 2 == 0)];
                    for v in table_case(ctx, class, lit_expr(kind, s), arms, false) {
                        ctx.report(v);
                    }
                    if (i + j) % 3 == 0 {
                        let arms = vec![arm(vec![p1.clone(), p2.clone()], 1, false), arm(vec![Pat::Default], 0, false)];
                        for v in table_case(ctx, class, lit_expr(kind, s), arms, true) {
                            ctx.report(v);
                        }
                    }
                }
            }
        }
    }
    // scrutinee of another kind than the patterns: don't care about the value, must not crash
    for (sk, pk) in [(0u8, 1u8), (1, 0), (3, 0), (0, 3), (4, 0), (2, 1)] {
        idx += 1;
        if !ctx.mine(idx) {
            continue;
        }
        let arms = vec![arm(vec![lit_pat(pk, 1)], 1, false), arm(vec![Pat::Range(Box::new(lit_pat(pk, 0)), Box::new(lit_pat(pk, 1)), true)], 2, true)];
        let arms = if pk == 4 { vec![arm(vec![lit_pat(pk, 1)], 1, false)] } else { arms };
        for v in table_case(ctx, "table:kind-mismatch", lit_expr(sk, 1), arms, false) {
            ctx.report(v);
        }
    }
    // literal patterns against scrutinees of every kind: "equal to it" is language equality,
    // so a value of another kind matches nothing (and 1.0 matches the pattern 1)
    let scrutinees: Vec<E> = vec![
        E::Int(1), E::Int(0), E::Float(1.0), E::Float(0.0), E::Float(1.5), E::Bool(true), E::Bool(false), E::Str("a".into()), E::Str("".into()),
        E::Str("true".into()), E::Char('a'), E::Byte(b'a'), E::Null, E::Arr(vec![]), E::Arr(vec![E::Int(1)]), E::Map(vec![]),
    ];
    let pattern_sets: Vec<Vec<Pat>> = vec![
        vec![Pat::Bool(true), Pat::Bool(false)],
        vec![Pat::Int(1), Pat::Int(0)],
        vec![Pat::Str("a".into()), Pat::Str("".into())],
        vec![Pat::Char('a'), Pat::Char('b')],
        vec![Pat::Byte(b'a'), Pat::Byte(b'b')],
    ];
    for s in &scrutinees {
        for ps in &pattern_sets {
            for layout in 0..3u8 {
                idx += 1;
                if !ctx.mine(idx) {
                    continue;
                }
                let arms = match layout {
                    0 => vec![arm(vec![ps[0].clone()], 1, false), arm(vec![ps[1].clone()], 2, true)],
                    1 => vec![arm(vec![ps[1].clone(), ps[0].clone()], 1, true)],
                    _ => vec![arm(vec![ps[0].clone()], 1, false), arm(vec![ps[1].clone()], 2, false), arm(vec![Pat::Default], 3, true)],
                };
                for v in table_case(ctx, "table:cross-kind", s.clone(), arms, layout == 1) {
                    ctx.report(v);
                }
            }
        }
    }
    ctx.exhaustive("tables");
}

fn truthy_reps() -> Vec<E> {
    vec![E::Bool(true), E::Int(1), E::Str("x".into()), E::Arr(vec![E::Int(0)]), E::Float(1.5), E::Char('a'), E::Map(vec![(E::Int(1), E::Int(1))]), E::Int(-1), E::Float(1e-17), E::Float(f64::NAN), E::Float(-5e-324), E::Byte(1)]
}
fn falsey_reps() -> Vec<E> {
    vec![E::Bool(false), E::Int(0), E::Str("".into()), E::Arr(vec![]), E::Float(0.0), E::Null, E::Map(vec![]), E::Char('\0'), E::Float(-0.0), E::Byte(0)]
}

fn ifchains(ctx: &mut Ctx) {
    let mut idx = 0u64;
    for len in 1..=4usize {
        for assign in 0..(1u32 << len) {
            for has_else in [false, true] {
                for form in 0..3u8 {
                    for as_value in [false, true] {
                        for rot in 0..6usize {
                            idx += 1;
                            if !ctx.mine(idx) {
                                continue;
                            }
                            // branch k: observe its id, then a value / nothing / a let
                            let branch = |k: usize| -> Vec<S> {
                                let mut b = vec![obs(E::Int(10 + k as i64))];
                                match form {
                                    0 => b.push(S::Expr(E::Int(100 + k as i64))),
                                    1 => {}
                                    _ => b.push(S::Let(format!("z{}", k), E::Int(1))),
                                }
                                b
                            };
                            let cond = |k: usize| -> E {
                                let truthy = (assign >> k) & 1 == 1;
                                let reps = if truthy { truthy_reps() } else { falsey_reps() };
                                // conditions are wrapped in a probe so that evaluation order and count show
                                call("t", vec![E::Int(k as i64), reps[(k + rot * 2 + len) % reps.len()].clone()])
                            };
                            let mut chain: Option<Box<Else>> = if has_else { Some(Box::new(Else::Block(branch(9)))) } else { None };
                            for k in (1..len).rev() {
                                chain = Some(Box::new(Else::If(E::If(Box::new(cond(k)), branch(k), chain))));
                            }
                            let ife = E::If(Box::new(cond(0)), branch(0), chain);
                            let mut prog = prologue();
                            if as_value {
                                prog.push(obs(ife));
                            } else {
                                prog.push(S::Expr(ife));
                            }
                            prog.push(S::Expr(E::Int(0)));
                            for v in check(ctx, "ifchains", "ifchain", &prog, true) {
                                ctx.report(v);
                            }
                        }
                    }
                }
            }
        }
    }
    ctx.exhaustive("ifchains");
}

fn armkinds(ctx: &mut Ctx) {
    let kinds: Vec<(&str, Pat)> = vec![
        ("int", Pat::Int(1)),
        ("str", Pat::Str("a".into())),
        ("char", Pat::Char('a')),
        ("byte", Pat::Byte(b'a')),
        ("bool", Pat::Bool(true)),
        ("int-range", Pat::Range(Box::new(Pat::Int(1)), Box::new(Pat::Int(3)), false)),
        ("char-range", Pat::Range(Box::new(Pat::Char('a')), Box::new(Pat::Char('c')), true)),
        ("byte-range", Pat::Range(Box::new(Pat::Byte(b'a')), Box::new(Pat::Byte(b'c')), true)),
        ("str-range", Pat::Range(Box::new(Pat::Str("a".into())), Box::new(Pat::Str("c".into())), false)),
    ];
    let mut idx = 0u64;
    for (_, p1) in &kinds {
        for (_, p2) in &kinds {
            for layout in 0..3u8 {
                idx += 1;
                if !ctx.mine(idx) {
                    continue;
                }
                // two arms / one alternation / two arms plus default
                let arms = match layout {
                    0 => vec![arm(vec![p1.clone()], 1, false), arm(vec![p2.clone()], 2, true)],
                    1 => vec![arm(vec![p1.clone(), p2.clone()], 1, false)],
                    _ => vec![arm(vec![p1.clone()], 1, true), arm(vec![p2.clone()], 2, false), arm(vec![Pat::Default], 3, false)],
                };
                // the scrutinee has the first pattern's kind; inside a function that is never called
                // (rejection is a compile-time matter)
                let scrut = match p1 {
                    Pat::Int(_) => E::Int(2),
                    Pat::Str(_) => E::Str("b".into()),
                    Pat::Char(_) => E::Char('b'),
                    Pat::Byte(_) => E::Byte(b'b'),
                    Pat::Bool(_) => E::Bool(false),
                    Pat::Range(a, _, _) => match **a {
                        Pat::Int(_) => E::Int(2),
                        Pat::Char(_) => E::Char('b'),
                        Pat::Byte(_) => E::Byte(b'b'),
                        _ => E::Str("b".into()),
                    },
                    Pat::Default => E::Int(0),
                };
                let mut prog = prologue();
                if layout == 2 {
                    prog.push(S::FnDef("never".into(), vec![], vec![S::Expr(E::Match(Box::new(scrut), arms))]));
                } else {
                    prog.push(obs(E::Match(Box::new(scrut), arms)));
                }
                prog.push(S::Expr(E::Int(0)));
                for v in check(ctx, "armkinds", "armkinds", &prog, true) {
                    ctx.report(v);
                }
            }
        }
    }
    ctx.exhaustive("armkinds");
}

// ---------------------------------------------------------------- loop nests

struct Lg<'a, 'b> {
    c: &'a mut Choices<'b>,
    labels: Vec<Option<String>>,
    pub outer_jump: bool,
    pub continue_before_stmts: bool,
    fresh: usize,
}

impl<'a, 'b> Lg<'a, 'b> {
    fn counters_obs(&self, level: usize, tag: i64) -> S {
        let mut v = vec![E::Int(tag)];
        for l in 0..=level {
            v.push(id(&format!("c{}", l)));
        }
        obs(E::Arr(v))
    }
    fn jump(&mut self, level: usize) -> S {
        // target: any enclosing level
        let target = self.c.below(level + 1);
        let label = self.labels[target].clone();
        let is_break = self.c.bool();
        // an unlabelled jump always means the innermost loop
        let (label, eff_target) = match label {
            Some(l) if target != level || self.c.bool() => (Some(l), target),
            _ => (None, level),
        };
        if level - eff_target >= 1 && label.is_some() {
            self.outer_jump = true;
        }
        if !is_break {
            self.continue_before_stmts = true;
        }
        let var = format!("c{}", self.c.below(level + 1));
        let m = self.c.range(2, 3);
        let r = self.c.range(0, m - 1);
        let cond = bin("==", bin("%", id(&var), E::Int(m)), E::Int(r));
        let body = vec![self.counters_obs(level, 50), if is_break { S::Break(label) } else { S::Continue(label) }];
        S::Expr(E::If(Box::new(cond), body, None))
    }
    fn gen_loop(&mut self, level: usize, max_level: usize) -> Vec<S> {
        let counter = format!("c{}", level);
        let limit = self.c.range(1, 4);
        let is_while = self.c.bool();
        let label = if self.c.below(3) != 0 {
            self.fresh += 1;
            Some(format!("L{}", self.fresh))
        } else {
            None
        };
        self.labels.push(label.clone());
        let mut body = vec![S::Expr(assign(id(&counter), bin("+", id(&counter), E::Int(1))))];
        if !is_while {
            body.push(S::Expr(E::If(Box::new(bin(">", id(&counter), E::Int(limit))), vec![S::Break(None)], None)));
        }
        let n = 2 + self.c.below(4);
        for k in 0..n {
            match self.c.below(6) {
                0 | 1 => body.push(self.counters_obs(level, 10 + k as i64)),
                2 | 3 => {
                    let j = self.jump(level);
                    body.push(j);
                }
                4 if level < max_level => {
                    let inner = self.gen_loop(level + 1, max_level);
                    body.extend(inner);
                }
                _ => body.push(self.counters_obs(level, 30 + k as i64)),
            }
        }
        body.push(self.counters_obs(level, 99));
        self.labels.pop();
        let lp = if is_while { S::While(label, bin("<", id(&counter), E::Int(limit)), body) } else { S::Loop(label, body) };
        // the counter is (re)initialised right before the loop, in the enclosing body
        vec![S::Expr(assign(id(&counter), E::Int(0))), lp]
    }
}

fn gen_loopnest(bytes: &[u8]) -> (Vec<S>, bool, bool) {
    let mut c = Choices::new(bytes);
    let max_level = c.below(3);
    let in_fn = c.below(3) == 0;
    let mut g = Lg { c: &mut c, labels: vec![], outer_jump: false, continue_before_stmts: false, fresh: 0 };
    let mut prog = prologue();
    for l in 0..3 {
        prog.push(S::Let(format!("c{}", l), E::Int(0)));
    }
    let body = g.gen_loop(0, max_level);
    let (oj, cb) = (g.outer_jump, g.continue_before_stmts);
    if in_fn {
        // the same nest inside a function (jumps resolve within the function)
        let mut fb = body;
        fb.push(S::Expr(id("c0")));
        prog.push(S::FnDef("nest".into(), vec![], fb));
        prog.push(obs(call("nest", vec![])));
    } else {
        prog.extend(body);
    }
    prog.push(S::Expr(id("c0")));
    (prog, oj, cb)
}

pub fn run(ctx: &mut Ctx) {
    tables(ctx);
    ifchains(ctx);
    armkinds(ctx);
    ctx.more_samples(3);
    let n = ctx.nshards as u32;
    drive(ctx, "loopnests", ctx.tier.pick(60_000, 2_000_000) / n, 8, 120, |ctx, bytes| {
        let (prog, outer_jump, cont) = gen_loopnest(bytes);
        if outer_jump {
            ctx.class("labelled-outer-jump");
        }
        check(ctx, "loopnests", "loopnest", &prog, outer_jump || cont)
    });
    ctx.more_samples(2);
    drive(ctx, "programs", ctx.tier.pick(30_000, 1_000_000) / n, 16, 500, |ctx, bytes| {
        let mut cfg = Cfg::default();
        cfg.floats = false;
        cfg.maps = false;
        cfg.max_block_nesting = 4;
        cfg.max_stmts = 8 + (bytes.first().copied().unwrap_or(0) as usize % 20);
        cfg.p_fail = 5;
        let (prog, kinds) = gen_program(&bytes[1.min(bytes.len())..], cfg);
        let cf = kinds.contains("loop") || kinds.contains("match") || kinds.contains("if-stmt");
        check(ctx, "programs", "program", &prog, cf)
    });
}

pub fn replay(section: &str, case: &Value, ctx: &mut Ctx) {
    match parse_prog(case) {
        Some(prog) => {
            for v in check(ctx, section, "replay", &prog, true) {
                ctx.report(v);
            }
        }
        None => ctx.infra("C05 replay: case has no program"),
    }
}
