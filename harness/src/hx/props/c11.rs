//! C11 — pure builtins satisfy their documented contracts and round-trip laws.

use serde_json::{json, Value};

use super::super::ast::*;
use super::super::builtins_ref::{contract, is_sorted_perm, PURE};
use super::super::choices::{hash_str, Choices};
use super::super::engine::*;
use super::super::gen::prologue;
use super::super::interp::{to_val, Interp};
use super::super::ops::{satisfies, show_expect, Expect};
use super::super::p2::{run_text, Outcome, Val};
use super::super::progcheck::{compare, parse_prog, reference};
use super::Meta;

pub const META: Meta = Meta {
    rule: "(table) each of the 23 pure builtins x arity 0..3 x argument representatives of 12 kinds (null, bool, int incl. limits / surrogate-range / >0x10FFFF, float incl. NaN/inf, str incl. non-ASCII and numeric-looking, \
char incl. astral and NUL, byte, arrays incl. empty / mixed / bytes / chars / invalid UTF-8 / 3000 elements, maps, closure, builtin, error object): all representatives at arity 1, all ordered pairs at arity 2, one per kind at arity 3; \
compared with the contract table of DESIGN.md Appendix C (documented kinds -> documented result; anything else -> a runtime error whose message starts with `<name>:`); (effects) push/pop/insert/sort in programs \
checked against the reference interpreter (in-place mutation, returned values); (laws, proptest) int(str(n)) == n for random i64, float(str(x)) == x for random finite doubles, decode_utf8(encode_utf8(s)) == s, \
join(chars(s)) == s, len(encode_utf8(s)) == len(s) for random Unicode strings, sort(a) is a non-decreasing permutation for random arrays of ints / floats / mixed / strings / chars / bytes. \
Non-trivial: an argument is a boundary / non-ASCII / invalid value, or the arity differs from the documented one, or (sort) the array has >= 2 distinct elements. Distinct by call text.",
    assumptions: &["don't-care zones of Appendix C (out-of-range conversions, non-ASCII case mapping, pop on empty, round precision outside 0..15) accept any value or a runtime error, never a crash"],
    required_classes: &[("table", 60_000), ("table:expect-error", 20_000), ("table:expect-value", 1_000), ("law:int-str", 2_000), ("law:float-str", 2_000), ("law:utf8", 2_000), ("law:sort", 2_000), ("effects", 20)],
    exhaustive_when_sections: &["table"],
};

pub fn reps() -> Vec<(&'static str, E)> {
    let mut v: Vec<(&'static str, E)> = vec![("null", E::Null), ("bool", E::Bool(true)), ("bool", E::Bool(false))];
    for i in [0i64, 1, -1, 65, 255, 256, 0xD800, 0x10FFFF, 0x110000, i64::MAX, i64::MIN, (1 << 32) | 65, 15, 3] {
        v.push(("int", E::Int(i)));
    }
    for f in [0.0f64, -0.0, 1.5, -1.5, 65.9, 1e10, f64::NAN, f64::INFINITY, f64::NEG_INFINITY, 1e300, 255.9, 0.1, 2.5, 1234.5678] {
        v.push(("float", E::Float(f)));
    }
    for s in ["", "a", "abc", "Ab1", "é", "💖x", "123", "-5", "1.5", "abc def", " 12", "+7", "1e3", "NaN", "ÀÉ"] {
        v.push(("str", E::Str(s.to_string())));
    }
    for c in ['a', 'Z', 'é', '\0', '💖', '1', 'É'] {
        v.push(("char", E::Char(c)));
    }
    for b in [0u8, 65, 97, 127, 128, 255] {
        v.push(("byte", E::Byte(b)));
    }
    let arr = |xs: Vec<E>| E::Arr(xs);
    v.push(("array", arr(vec![])));
    v.push(("array", arr(vec![E::Int(1)])));
    v.push(("array", arr(vec![E::Int(3), E::Int(1), E::Int(2)])));
    v.push(("array", arr(vec![E::Char('a'), E::Char('b')])));
    v.push(("array", arr(vec![E::Char('é'), E::Char(','), E::Char(',')])));
    v.push(("array", arr(vec![E::Byte(b'a'), E::Byte(0xff)])));
    v.push(("array", arr(vec![E::Byte(0xe2), E::Byte(0x82), E::Byte(0xac)])));
    v.push(("array", arr(vec![E::Byte(0xc0), E::Byte(0xaf)])));
    v.push(("array", arr(vec![E::Byte(0xe2), E::Byte(0x82)])));
    v.push(("array", arr(vec![E::Str("b".into()), E::Str("a".into())])));
    v.push(("array", arr(vec![E::Float(1.5), E::Int(1)])));
    v.push(("array", arr(vec![arr(vec![E::Int(1)])])));
    v.push(("array", arr(vec![E::Null])));
    v.push(("array", arr(vec![E::Int(1), E::Str("a".into())])));
    v.push(("array", arr(vec![E::Int(9007199254740993), E::Int(9007199254740992)])));
    v.push(("map", E::Map(vec![])));
    v.push(("map", E::Map(vec![(E::Int(1), E::Int(2))])));
    v.push(("map", E::Map(vec![(E::Str("a".into()), E::Int(1))])));
    v.push(("fn", E::Fn(vec![], vec![S::Expr(E::Int(1))])));
    v.push(("builtin", id("len")));
    v.push(("error", call("decode_utf8", vec![E::Arr(vec![E::Byte(255)])])));
    v
}

fn value_of(e: &E) -> Option<Val> {
    let mut it = Interp::new(10_000);
    it.eval(e, &None).ok().map(|v| to_val(&v))
}

fn boundaryish(e: &E) -> bool {
    match e {
        E::Int(i) => !(0..=9).contains(i),
        E::Str(s) => s.is_empty() || !s.is_ascii(),
        E::Float(f) => !f.is_finite() || *f == 0.0 || f.abs() > 1e9,
        E::Char(c) => !c.is_ascii() || *c == '\0',
        E::Bool(_) => false,
        _ => true,
    }
}

fn check_call(ctx: &mut Ctx, section: &str, name: &str, args: &[E], arity_doc: bool) -> Vec<Violation> {
    let text = format!("{}({})", name, args.iter().map(render_expr).collect::<Vec<_>>().join(", "));
    guard(section, "src", &text);
    let vals: Option<Vec<Val>> = args.iter().map(value_of).collect();
    let vals = match vals {
        Some(v) => v,
        None => {
            ctx.infra(format!("C11 harness: cannot evaluate arguments of {}", text));
            return vec![];
        }
    };
    let expect = contract(name, &vals);
    let nontrivial = !arity_doc || args.iter().any(boundaryish);
    ctx.case(hash_str(&text), nontrivial);
    ctx.class("table");
    match &expect {
        Expect::Error => ctx.class("table:expect-error"),
        Expect::DontCare => ctx.class("table:dont-care"),
        _ => ctx.class("table:expect-value"),
    }
    let case = json!({"name": name, "args": args});
    let kinds: Vec<&str> = vals.iter().map(|v| v.kind()).collect();
    let mut out = Vec::new();
    match run_text(&text) {
        Outcome::Ran(r) => {
            let got: Result<Val, String> = match &r.err {
                Some((m, _)) => Err(m.clone()),
                None => Ok(r.last.clone()),
            };
            if !satisfies(&expect, &got) {
                let class = match (&expect, &got) {
                    (Expect::Error, Ok(_)) => "missing-error",
                    (_, Err(_)) => "unexpected-error",
                    _ => "wrong-value",
                };
                out.push(Violation::new(
                    section,
                    format!("builtin:{}:{}:{}", name, kinds.join(","), class),
                    format!("`{}`: expected {}, got {}", text, show_expect(&expect), match &got { Ok(v) => v.show(), Err(m) => format!("runtime error ({})", m) }),
                    case,
                ));
            } else if let (Expect::Error, Err(m)) = (&expect, &got) {
                if !m.starts_with(&format!("{}:", name)) {
                    out.push(Violation::new(
                        section,
                        format!("builtin:{}:error-does-not-name-the-builtin", name),
                        format!("`{}`: the runtime error does not name the builtin: {}", text, m),
                        case,
                    ));
                }
            }
        }
        Outcome::Panic(p) => out.push(Violation::new(section, p.signature(), format!("`{}` crashed: {}", text, p.describe()), case)),
        o => ctx.infra(format!("C11 harness: `{}` did not compile: {}", text, o.tag())),
    }
    if ctx.want_sample() && nontrivial && ctx.res.evals % 2003 == 17 {
        ctx.sample(json!({"call": text, "expected": show_expect(&expect)}));
    }
    out
}

fn documented_arity(name: &str) -> &'static [usize] {
    match name {
        "push" | "get" | "contains" | "round" => &[2],
        "insert" => &[3],
        "join" => &[1, 2],
        _ => &[1],
    }
}

fn table(ctx: &mut Ctx) {
    let r = reps();
    // one representative per kind for arity 3
    let mut one_per_kind: Vec<&E> = Vec::new();
    let mut seen: Vec<&str> = Vec::new();
    for (k, e) in &r {
        if !seen.contains(k) {
            seen.push(k);
            one_per_kind.push(e);
        }
    }
    let mut idx = 0u64;
    for name in PURE {
        let doc = documented_arity(name);
        idx += 1;
        if ctx.mine(idx) {
            for v in check_call(ctx, "table", name, &[], doc.contains(&0)) {
                ctx.report(v);
            }
        }
        for (_, a) in &r {
            idx += 1;
            if !ctx.mine(idx) {
                continue;
            }
            for v in check_call(ctx, "table", name, &[a.clone()], doc.contains(&1)) {
                ctx.report(v);
            }
        }
        for (_, a) in &r {
            for (_, b) in &r {
                idx += 1;
                if !ctx.mine(idx) {
                    continue;
                }
                for v in check_call(ctx, "table", name, &[a.clone(), b.clone()], doc.contains(&2)) {
                    ctx.report(v);
                }
            }
        }
        for a in &one_per_kind {
            for b in &one_per_kind {
                for c in &one_per_kind {
                    idx += 1;
                    if !ctx.mine(idx) {
                        continue;
                    }
                    for v in check_call(ctx, "table", name, &[(*a).clone(), (*b).clone(), (*c).clone()], doc.contains(&3)) {
                        ctx.report(v);
                    }
                }
            }
        }
    }
    // insert with every key representative on a map (arity 3 in full for the documented kinds)
    for (_, k) in &r {
        idx += 1;
        if !ctx.mine(idx) {
            continue;
        }
        for m in [E::Map(vec![]), E::Map(vec![(E::Int(1), E::Int(2))]), E::Map(vec![(E::Str("a".into()), E::Int(1))])] {
            for v in check_call(ctx, "table", "insert", &[m, k.clone(), E::Int(9)], true) {
                ctx.report(v);
            }
        }
    }
    ctx.exhaustive("table");
}

fn obs(e: E) -> S {
    S::Expr(call("push", vec![id("obs"), e]))
}

fn effects(ctx: &mut Ctx) {
    let arrays = [vec![], vec![E::Int(1)], vec![E::Int(3), E::Int(1), E::Int(2)], vec![E::Str("b".into()), E::Str("a".into()), E::Str("c".into())]];
    let mut idx = 0u64;
    for a in &arrays {
        for variant in 0..6 {
            idx += 1;
            if !ctx.mine(idx) {
                continue;
            }
            let mut p = prologue();
            p.push(S::Let("a".into(), E::Arr(a.clone())));
            p.push(S::Let("alias".into(), id("a")));
            match variant {
                0 => {
                    p.push(obs(call("push", vec![id("a"), E::Int(7)])));
                    p.push(obs(call("push", vec![id("a"), E::Arr(vec![E::Int(8)])])));
                }
                1 => {
                    if a.is_empty() {
                        continue;
                    }
                    p.push(obs(call("pop", vec![id("a")])));
                }
                2 => {
                    p.push(S::Let("s".into(), call("sort", vec![id("a")])));
                    p.push(obs(id("s")));
                    // sort returns the same (shared) array
                    p.push(S::Expr(call("push", vec![id("s"), E::Int(99)])));
                }
                3 => {
                    p.push(obs(call("rest", vec![id("a")])));
                    p.push(obs(call("first", vec![id("a")])));
                    p.push(obs(call("last", vec![id("a")])));
                }
                4 => {
                    p.push(S::Let("r".into(), call("rest", vec![id("a")])));
                    // rest is a new array: pushing to it does not change the original
                    p.push(S::Expr(E::If(Box::new(bin("!=", id("r"), E::Null)), vec![S::Expr(call("push", vec![id("r"), E::Int(5)]))], None)));
                    p.push(obs(id("r")));
                }
                _ => {
                    p.push(obs(call("get", vec![id("a"), E::Int(0)])));
                    p.push(obs(call("get", vec![id("a"), E::Int(5)])));
                    p.push(obs(call("len", vec![id("a")])));
                }
            }
            p.push(obs(id("a")));
            p.push(obs(id("alias")));
            p.push(S::Expr(E::Int(0)));
            let rr = reference(&p, 50_000);
            let v = compare("effects", &p, &rr);
            ctx.case(hash_str(&v.src), true);
            ctx.class("effects");
            for x in v.violations {
                ctx.report(x);
            }
        }
    }
    // insert / contains / get on a shared map
    for variant in 0..4 {
        idx += 1;
        if !ctx.mine(idx) {
            continue;
        }
        let mut p = prologue();
        p.push(S::Let("m".into(), E::Map(vec![(E::Str("a".into()), E::Int(1))])));
        p.push(S::Let("alias".into(), id("m")));
        match variant {
            0 => {
                p.push(obs(call("insert", vec![id("m"), E::Str("a".into()), E::Int(2)])));
                p.push(obs(call("insert", vec![id("m"), E::Str("b".into()), E::Int(3)])));
            }
            1 => {
                p.push(obs(call("insert", vec![id("m"), E::Str("c".into()), E::Null])));
                p.push(obs(call("contains", vec![id("m"), E::Str("c".into())])));
                p.push(obs(call("get", vec![id("m"), E::Str("c".into())])));
                p.push(obs(call("insert", vec![id("m"), E::Str("c".into()), E::Int(1)])));
            }
            2 => {
                p.push(obs(call("get", vec![id("m"), E::Str("zz".into())])));
                p.push(obs(call("contains", vec![id("m"), E::Str("zz".into())])));
            }
            _ => {
                p.push(obs(call("insert", vec![id("alias"), E::Int(1), E::Arr(vec![])])));
                p.push(S::Expr(call("push", vec![call("get", vec![id("m"), E::Int(1)]), E::Int(4)])));
            }
        }
        p.push(obs(call("len", vec![id("m")])));
        p.push(obs(call("get", vec![id("alias"), E::Str("a".into())])));
        p.push(obs(call("get", vec![id("alias"), E::Int(1)])));
        p.push(S::Expr(E::Int(0)));
        let rr = reference(&p, 50_000);
        let v = compare("effects", &p, &rr);
        ctx.case(hash_str(&v.src), true);
        ctx.class("effects");
        for x in v.violations {
            ctx.report(x);
        }
    }
}

fn rand_string(c: &mut Choices) -> String {
    let n = c.below(12);
    let mut s = String::new();
    for _ in 0..n {
        let ch = match c.below(8) {
            0 => char::from_u32(0x80 + c.below(0x700) as u32),
            1 => char::from_u32(0x800 + c.below(0xD000) as u32),
            2 => char::from_u32(0x10000 + c.below(0xFFFF) as u32),
            3 => Some(*c.pickv(&['\n', '\t', ' ', '\\', '\'', '{', '}', '#'])),
            // scalars that tolerant decoders like to treat specially: BOM / zero-width, line separators, the last
            // code points of each encoding length, non-characters, the replacement character
            4 => Some(*c.pickv(&['\u{feff}', '\u{fffe}', '\u{ffff}', '\u{200b}', '\u{2028}', '\u{85}', '\u{7f}', '\u{7ff}', '\u{800}', '\u{d7ff}', '\u{e000}', '\u{fffd}', '\u{10ffff}', '\u{1}', '\r'])),
            _ => char::from_u32(0x20 + c.below(0x5f) as u32),
        };
        match ch {
            Some('"') | Some('\0') | None => s.push('q'),
            Some(x) => s.push(x),
        }
    }
    s
}

fn law(ctx: &mut Ctx, class: &str, text: &str, nontrivial: bool, ok: impl Fn(&Val) -> bool, what: &str) -> Vec<Violation> {
    guard("laws", "src", text);
    ctx.case(hash_str(text), nontrivial);
    ctx.class(class);
    let case = json!({"law": class, "src": text});
    if ctx.want_sample() && nontrivial && ctx.res.evals % 1009 == 1 {
        ctx.sample(json!({"law": class, "src": text}));
    }
    match run_text(text) {
        Outcome::Ran(r) => match &r.err {
            None if ok(&r.last) => vec![],
            None => vec![Violation::new("laws", format!("{}:violated", class), format!("{}: `{}` evaluated to {}", what, text, r.last.show()), case)],
            Some((m, _)) => vec![Violation::new("laws", format!("{}:runtime-error", class), format!("{}: `{}` raised {}", what, text, m), case)],
        },
        Outcome::Panic(p) => vec![Violation::new("laws", p.signature(), format!("`{}` crashed: {}", text, p.describe()), case)],
        o => {
            ctx.infra(format!("C11 harness: law text did not compile: {} :: {}", o.tag(), text));
            vec![]
        }
    }
}

fn run_law(ctx: &mut Ctx, bytes: &[u8]) -> Vec<Violation> {
    let mut c = Choices::new(bytes);
    match c.below(8) {
        6 | 7 => {
            // join / chars over a tiny alphabet so that delimiters collide with elements
            let alpha = ['a', 'b', ',', '-', ' '];
            let n = c.below(6);
            let elems: Vec<E> = (0..n).map(|_| E::Char(*c.pickv(&alpha))).collect();
            let mut args = vec![E::Arr(elems)];
            match c.below(4) {
                0 => {}
                1 => args.push(E::Char(*c.pickv(&alpha))),
                _ => {
                    let m = c.below(3);
                    args.push(E::Str((0..m).map(|_| *c.pickv(&alpha)).collect()));
                }
            }
            ctx.class("law:join");
            check_call(ctx, "laws", "join", &args, true)
        }
        0 => {
            let n: i64 = match c.below(4) {
                0 => *c.pickv(&[i64::MIN, i64::MAX, 0, -1, i64::MIN + 1]),
                1 => c.range(-1000, 1000),
                _ => c.u64() as i64,
            };
            let text = format!("int(str({})) == {}", super::super::render::int_lit(n), super::super::render::int_lit(n));
            law(ctx, "law:int-str", &text, n.unsigned_abs() > 1000, |v| matches!(v, Val::Bool(true)), "int(str(n)) == n")
        }
        1 => {
            let x = loop {
                let f = match c.below(4) {
                    0 => c.range(-4000, 4000) as f64 / 8.0,
                    1 => *c.pickv(&[0.0, -0.0, f64::MAX, f64::MIN_POSITIVE, 5e-324, 1e21, 1e-7, 0.1, 1.0 / 3.0]),
                    _ => f64::from_bits(c.u64()),
                };
                if f.is_finite() {
                    break f;
                }
                if c.exhausted() {
                    break 1.25;
                }
            };
            let l = super::super::render::float_lit(x);
            let text = format!("float(str({})) == {}", l, l);
            law(ctx, "law:float-str", &text, x.fract() != 0.0 || x.abs() > 1e15, |v| matches!(v, Val::Bool(true)), "float(str(x)) == x")
        }
        2 | 3 => {
            let s = rand_string(&mut c);
            let lit = format!("\"{}\"", s);
            let text = format!("[decode_utf8(encode_utf8({0})) == {0}, join(chars({0})) == {0}, len(encode_utf8({0})) == len({0}), len({0})]", lit);
            let blen = s.len() as i64;
            law(
                ctx,
                "law:utf8",
                &text,
                !s.is_ascii(),
                move |v| matches!(v, Val::Arr(a) if a.len() == 4 && matches!(a[0], Val::Bool(true)) && matches!(a[1], Val::Bool(true)) && matches!(a[2], Val::Bool(true)) && matches!(a[3], Val::Int(n) if n == blen)),
                "decode_utf8(encode_utf8(s)) == s, join(chars(s)) == s, len(encode_utf8(s)) == len(s) == byte length",
            )
        }
        _ => {
            let n = if c.below(20) == 0 { 3000 } else { c.below(12) };
            let kind = c.below(6);
            let mut elems: Vec<E> = Vec::new();
            for _ in 0..n {
                elems.push(match kind {
                    0 => E::Int(match c.below(3) {
                        0 => c.range(-5, 5),
                        1 => *c.pickv(&[i64::MAX, i64::MIN, 9007199254740993, 9007199254740992, 9007199254740991]),
                        _ => c.u64() as i64,
                    }),
                    1 => {
                        let f = f64::from_bits(c.u64());
                        E::Float(if f.is_nan() { 0.5 } else { f })
                    }
                    2 => {
                        if c.bool() {
                            E::Int(c.range(-3, 3))
                        } else {
                            E::Float(c.range(-6, 6) as f64 / 2.0)
                        }
                    }
                    3 => E::Str(rand_string(&mut c)),
                    4 => E::Char(*c.pickv(&['a', 'b', 'Z', 'é', '0', '💖', ' '])),
                    _ => E::Byte(c.byte()),
                });
            }
            let vals: Vec<Val> = elems.iter().filter_map(value_of).collect();
            let text = format!("sort({})", render_expr(&E::Arr(elems)));
            let distinct = vals.len() >= 2 && vals.iter().any(|v| !v.same(&vals[0]));
            let orig = vals.clone();
            law(ctx, "law:sort", &text, distinct, move |v| matches!(v, Val::Arr(r) if is_sorted_perm(&orig, r)), "sort(a) is a non-decreasing permutation of a")
        }
    }
}

pub fn run(ctx: &mut Ctx) {
    table(ctx);
    effects(ctx);
    ctx.more_samples(3);
    let n = ctx.nshards as u32;
    drive(ctx, "laws", ctx.tier.pick(60_000, 2_000_000) / n, 8, 200, |ctx, bytes| run_law(ctx, bytes));
}

pub fn replay(section: &str, case: &Value, ctx: &mut Ctx) {
    if let Some(l) = case.get("law").and_then(|v| v.as_str()) {
        // laws are replayed from their text with the generic "true / all true" predicate
        let src = case["src"].as_str().unwrap_or("");
        let class = l.to_string();
        let vs = if class == "law:sort" {
            // recompute the expected multiset from the text is not possible: re-run the ordering check only
            law(ctx, &class, src, true, |v| matches!(v, Val::Arr(r) if is_sorted_perm(r, r)), "sort(a) is non-decreasing")
        } else if class == "law:utf8" {
            law(ctx, &class, src, true, |v| matches!(v, Val::Arr(a) if a.len() == 4 && a[..3].iter().all(|x| matches!(x, Val::Bool(true)))), "utf8 laws")
        } else {
            law(ctx, &class, src, true, |v| matches!(v, Val::Bool(true)), "law")
        };
        for v in vs {
            ctx.report(v);
        }
        return;
    }
    if let Some(prog) = parse_prog(case) {
        let rr = reference(&prog, 50_000);
        let v = compare(section, &prog, &rr);
        for x in v.violations {
            ctx.report(x);
        }
        return;
    }
    let name = case["name"].as_str().unwrap_or("").to_string();
    let args: Vec<E> = serde_json::from_value(case["args"].clone()).unwrap_or_default();
    for v in check_call(ctx, section, &name, &args, true) {
        ctx.report(v);
    }
}
