//! C17 — assigning a header field changes exactly that field.

use std::rc::Rc;

use serde_json::{json, Value};

use super::super::choices::{hash_bytes, mix64, Choices};
use super::super::codec::*;
use super::super::engine::*;
use super::super::frames::stack_frame;
use super::super::p2::{make_packet, packet_bytes, record_header, run_text_with_pkt, Outcome, Val};
use super::super::pkt::*;
use super::Meta;

pub const META: Meta = Meta {
    rule: "(fields) every writable property (record: sec usec caplen wirelen; eth: src dst type; vlan: id priority dei type; ipv4: ihl totlen id dscp ecn flags fragoff ttl proto checksum src dst; \
ipv6: trafficclass flowlabel len nextheader hoplimit src dst; udp: srcport dstport len checksum; tcp: srcport dstport seq ack dataoff flags winsize checksum urgent) x in-range values (all values for fields of <= 12 bits, \
boundaries + random otherwise; random canonical addresses) x random well-formed frames of 8 stacks: the script assigns and reads back; then (i) the read-back equals the value, (ii) the serialised packet equals the \
reference frame (captured bytes with the reference setter applied: differs from the original only inside the field's bit range), (iii) a new packet built from the serialised bytes reads every scalar property of every \
layer as the reference predicts. (invalid) -1, 2^w, 2^w+1, i64 MIN/MAX and values of the wrong kind: a runtime error with the packet unchanged, or (integers only) the value stored reduced modulo 2^w with everything else unchanged. \
(histories) 2..8 assignments to non-structural fields of several layers on one packet. (read-only) assigning `version` must be a runtime error. \
Non-trivial: the new value differs from the old one and the neighbouring bits are not all zero; histories: >= 2 different layers written. Distinct by frame+assignment hash.",
    assumptions: &[
        "payload / inner-layer reads after assigning a structural field (ihl, dataoff, totlen, len, type, proto, nextheader) are don't-care: for those only the serialised bytes and the read-back are checked",
        "TCP flags is taken as the eight flag bits; reserved bits must be preserved",
    ],
    required_classes: &[("assign:in-range", 20_000), ("assign:invalid", 2_000), ("history", 3_000), ("record", 500), ("readonly", 9)],
    exhaustive_when_sections: &[],
};

fn stacks_with(layer: Layer) -> Vec<(u8, usize)> {
    match layer {
        Layer::Eth => vec![(0, 1), (5, 1)],
        Layer::Vlan => vec![(4, 2), (5, 2), (5, 3)],
        Layer::Ipv4 => vec![(0, 2), (4, 3), (6, 2)],
        Layer::Ipv6 => vec![(2, 2), (5, 4), (7, 3)],
        Layer::Tcp => vec![(0, 3), (2, 3), (6, 3), (7, 4)],
        Layer::Udp => vec![(1, 3), (3, 3), (5, 5)],
    }
}

/// the generated TCP headers have their reserved bits and the NS bit clear; set them from the frame's own
/// bytes (they lie outside every writable field, so every assignment has to preserve them)
fn spiced(mut frame: Vec<u8>) -> Vec<u8> {
    let (chain, _) = parse_chain(&frame);
    for p in &chain {
        if p.layer == Layer::Tcp && frame.len() > p.start + 13 {
            let salt = frame[p.start + 4] ^ frame[p.start + 7];
            if salt & 1 == 1 {
                frame[p.start + 12] = (frame[p.start + 12] & 0xf0) | (salt >> 4);
            }
        }
        // an IPv6 header whose version nibble is not 6 (the dispatch goes by EtherType / protocol, not by the nibble):
        // the nibble lies outside every other field and must survive every assignment
        if p.layer == Layer::Ipv6 && frame.len() > p.start + 39 {
            let salt = frame[p.start + 7] ^ frame[p.start + 39];
            if salt & 3 == 1 {
                frame[p.start] = (frame[p.start] & 0x0f) | (salt & 0xf0);
            }
        }
    }
    frame
}

fn value_text(f: &Field, v: u128) -> String {
    match f.kind {
        Kind::Int => v.to_string(),
        Kind::Bool => (v != 0).to_string(),
        Kind::Mac => format!("\"{}\"", mac_text(&(0..6).map(|i| (v >> (8 * (5 - i))) as u8).collect::<Vec<_>>())),
        Kind::Ip4 => format!("\"{}\"", ip4_text(&(0..4).map(|i| (v >> (8 * (3 - i))) as u8).collect::<Vec<_>>())),
        Kind::Ip6 => {
            // a zero run (also a single group) is sometimes written as '::'
            let g: Vec<String> = (0..8).map(|i| format!("{:x}", (v >> (16 * (7 - i))) as u16)).collect();
            let zeros: Vec<usize> = (0..8).filter(|i| g[*i] == "0").collect();
            if !zeros.is_empty() && (v >> 3) & 1 == 1 {
                let st = zeros[(v as usize >> 5) % zeros.len()];
                let mut en = st;
                while en + 1 < 8 && g[en + 1] == "0" && (v >> (en + 7)) & 1 == 1 {
                    en += 1;
                }
                format!("\"{}::{}\"", g[..st].join(":"), g[en + 1..].join(":"))
            } else {
                format!("\"{}\"", g.join(":"))
            }
        }
    }
}

fn all_scalar_reads(frame: &[u8]) -> (Vec<String>, Vec<(usize, &'static Field)>) {
    let (chain, _) = parse_chain(frame);
    let mut exprs = Vec::new();
    let mut meta = Vec::new();
    for (i, p) in chain.iter().enumerate() {
        for f in fields_of(p.layer) {
            exprs.push(format!("(${}).{}", i + 1, f.name));
            meta.push((p.start, f));
        }
        if p.odd_len {
            break;
        }
    }
    (exprs, meta)
}

/// compare every scalar property of a packet built from `bytes` with the reference
fn reparse_check(section: &str, bytes: &[u8], what: &str, case: &Value) -> Vec<Violation> {
    let pkt = make_packet(1, 2, bytes.len() as u32, bytes.len() as u32, bytes);
    let (exprs, meta) = all_scalar_reads(bytes);
    let mut out = Vec::new();
    if exprs.is_empty() {
        return out;
    }
    match read_exprs(&pkt, &exprs) {
        Read::Values(vals) => {
            for (k, (start, f)) in meta.iter().enumerate() {
                let ok = if f.layer == Layer::Tcp && f.name == "flags" { tcp_flags_ok(bytes, *start, &vals[k]) } else { matches_expected(&expected_field(bytes, *start, f), &vals[k]) };
                if !ok {
                    out.push(Violation::new(
                        section,
                        format!("reparse:{}.{}", f.layer.name(), f.name),
                        format!("{}: after serialising and re-parsing, {} = {} but the bytes hold {}\nbytes: {}", what, exprs[k], vals[k].show(), show_expected(&expected_field(bytes, *start, f)), hex(bytes)),
                        case.clone(),
                    ));
                    break;
                }
            }
        }
        Read::RuntimeError(m) => out.push(Violation::new(section, "reparse:runtime-error", format!("{}: re-parsed packet unreadable: {}\nbytes: {}", what, m, hex(bytes)), case.clone())),
        Read::Panic(sig, d) => out.push(Violation::new(section, sig, format!("{}: crash on re-parse: {}", what, d), case.clone())),
        Read::Other(_) => {}
    }
    out
}

pub struct Assign {
    pub depth: usize,
    pub layer: Layer,
    pub field: &'static Field,
    /// source text of the assigned value
    pub value_src: String,
    /// Some(v): an in-range value, the reference stores v
    pub in_range: Option<u128>,
    /// for invalid integers: the value modulo 2^w (the alternative the statement allows)
    pub reduced: Option<u128>,
}

/// apply one assignment to a fresh packet over `frame` and check the three clauses
fn check_assign(ctx: &mut Ctx, section: &str, frame: &[u8], a: &Assign) -> Vec<Violation> {
    let (chain, _) = parse_chain(frame);
    let p = match chain.get(a.depth - 1) {
        Some(p) if p.layer == a.layer => p.clone(),
        _ => return vec![],
    };
    let f = a.field;
    let pkt = make_packet(5, 6, frame.len() as u32, frame.len() as u32, frame);
    let hdr = record_header(5, 6, frame.len() as u32, frame.len() as u32);
    let src = format!("(${}).{} = {};\n(${}).{}", a.depth, f.name, a.value_src, a.depth, f.name);
    guard(section, "frame", &hex(frame));
    let case = json!({"frame": hex(frame), "depth": a.depth, "layer": a.layer.name(), "field": f.name, "value": a.value_src, "in_range": a.in_range.map(|v| v.to_string()), "reduced": a.reduced.map(|v| v.to_string())});
    let mut out = Vec::new();
    let outcome = run_text_with_pkt(&src, Rc::clone(&pkt));
    let got_bytes = match packet_bytes(&pkt) {
        Ok(b) => b,
        Err(pn) => {
            out.push(Violation::new(section, pn.signature(), format!("serialising after `{}` crashed: {}", src, pn.describe()), case));
            return out;
        }
    };
    let original: Vec<u8> = hdr.iter().chain(frame.iter()).copied().collect();
    let with = |v: u128| -> Vec<u8> {
        let mut fr = frame.to_vec();
        set_bits(&mut fr, p.start, f.bit, f.width, v);
        hdr.iter().chain(fr.iter()).copied().collect()
    };
    match (&outcome, a.in_range) {
        (Outcome::Panic(pn), _) => out.push(Violation::new(section, pn.signature(), format!("`{}` crashed: {}\nframe: {}", src, pn.describe(), hex(frame)), case)),
        (Outcome::Ran(r), Some(v)) => {
            // in range: must succeed
            if let Some((m, _)) = &r.err {
                out.push(Violation::new(section, format!("assign-rejected:{}.{}", a.layer.name(), f.name), format!("`{}` raised {} although {} is in range for a {}-bit field\nframe: {}", src, m, a.value_src, f.width, hex(frame)), case));
                return out;
            }
            let expected = with(v);
            let exp_field = expected_field(&expected[16..], p.start, f);
            let rb_ok = if a.layer == Layer::Tcp && f.name == "flags" { tcp_flags_ok(&expected[16..], p.start, &r.last) } else { matches_expected(&exp_field, &r.last) };
            if !rb_ok {
                out.push(Violation::new(section, format!("readback:{}.{}", a.layer.name(), f.name), format!("after `{}` the property reads {} (expected {})\nframe: {}", src, r.last.show(), show_expected(&exp_field), hex(frame)), case.clone()));
            }
            if got_bytes != expected {
                let first = expected.iter().zip(got_bytes.iter()).position(|(x, y)| x != y).unwrap_or(expected.len().min(got_bytes.len()));
                let inside = first >= 16 + p.start + f.bit / 8 && first < 16 + p.start + (f.bit + f.width + 7) / 8;
                out.push(Violation::new(
                    section,
                    format!("bytes:{}.{}:{}", a.layer.name(), f.name, if got_bytes == original { "not-written" } else if inside { "wrong-value-in-field" } else { "other-bytes-changed" }),
                    format!("after `{}` the packet serialises to\n got:      {}\n expected: {}\n original: {}", src, hex(&got_bytes), hex(&expected), hex(&original)),
                    case.clone(),
                ));
            } else if !f.structural && out.is_empty() {
                out.extend(reparse_check(section, &got_bytes[16..], &src, &case));
            }
        }
        (Outcome::Ran(r), None) => {
            // invalid value: runtime error + unchanged, or (integers) stored reduced with everything else unchanged
            match &r.err {
                Some(_) => {
                    if got_bytes != original {
                        out.push(Violation::new(section, format!("invalid-assign-changed-packet:{}.{}", a.layer.name(), f.name), format!("`{}` raised a runtime error but the packet changed\n got:      {}\n original: {}", src, hex(&got_bytes), hex(&original)), case));
                    }
                }
                None => match a.reduced {
                    Some(red) => {
                        let expected = with(red);
                        if got_bytes != expected {
                            out.push(Violation::new(
                                section,
                                format!("invalid-assign-corrupts:{}.{}", a.layer.name(), f.name),
                                format!("`{}` was accepted; the statement then requires the value reduced to {} bits with everything else unchanged\n got:      {}\n expected: {}\n original: {}", src, f.width, hex(&got_bytes), hex(&expected), hex(&original)),
                                case,
                            ));
                        }
                    }
                    None => out.push(Violation::new(section, format!("invalid-assign-accepted:{}.{}", a.layer.name(), f.name), format!("`{}` (a value of the wrong kind) was accepted without a runtime error", src), case)),
                },
            }
        }
        _ => ctx.infra(format!("C17 harness: `{}` did not compile", src)),
    }
    out
}

fn in_range_values(c: &mut Choices, f: &Field) -> Vec<u128> {
    let max: u128 = if f.width >= 128 { u128::MAX } else { (1u128 << f.width) - 1 };
    if f.width <= 12 {
        return (0..=max).collect();
    }
    let mut v: Vec<u128> = vec![0, 1, max, max - 1, max / 2, 1 << (f.width - 1), 0x5555_5555_5555_5555_5555_5555_5555_5555 & max, 0xaaaa_aaaa_aaaa_aaaa_aaaa_aaaa_aaaa_aaaa & max];
    for _ in 0..400 {
        v.push((((c.u64() as u128) << 64) | c.u64() as u128) & max);
    }
    v
}

fn rnd_bytes(seed: u64, n: usize) -> Vec<u8> {
    let mut x = seed;
    (0..n)
        .map(|_| {
            x = mix64(x);
            (x >> 24) as u8
        })
        .collect()
}

fn fields_section(ctx: &mut Ctx) {
    let mut idx = 0u64;
    for f in FIELDS.iter().filter(|f| f.writable) {
        let sb = rnd_bytes(ctx.seed ^ super::super::choices::hash_str(f.name) ^ (f.bit as u64) << 20, 4096);
        let mut c = Choices::new(&sb);
        let values = in_range_values(&mut c, f);
        let stacks = stacks_with(f.layer);
        for (vi, v) in values.iter().enumerate() {
            for (si, (stack, depth)) in stacks.iter().copied().enumerate() {
                idx += 1;
                if !ctx.mine(idx) {
                    continue;
                }
                let fb = rnd_bytes(mix64(idx ^ ctx.seed), 220);
                let mut fc = Choices::new(&fb);
                let frame = spiced(stack_frame(&mut fc, stack));
                let (chain, _) = parse_chain(&frame);
                let start = match chain.get(depth - 1) {
                    Some(p) if p.layer == f.layer => p.start,
                    _ => continue,
                };
                let old = get_bits(&frame, start, f.bit, f.width);
                let lo = start + f.bit / 8;
                let hi = start + (f.bit + f.width + 7) / 8;
                let around = frame[lo.saturating_sub(1)..(hi + 1).min(frame.len())].iter().any(|b| *b != 0);
                let a = Assign { depth, layer: f.layer, field: f, value_src: value_text(f, *v), in_range: Some(*v), reduced: None };
                let mut h = frame.clone();
                h.extend_from_slice(format!("{}={}", f.name, v).as_bytes());
                ctx.case(hash_bytes(&h), old != *v && around);
                ctx.class("assign:in-range");
                if ctx.want_sample() && vi == 5 && si == 0 {
                    ctx.sample(json!({"assign": format!("(${}).{} = {}", depth, f.name, a.value_src), "frame": hex(&frame)}));
                }
                for x in check_assign(ctx, "fields", &frame, &a) {
                    ctx.report(x);
                }
            }
        }
        // invalid values
        let w = f.width.min(63);
        let mut invalid: Vec<(String, Option<u128>)> = Vec::new();
        if matches!(f.kind, Kind::Int) {
            let m: i128 = 1i128 << w;
            for iv in [-1i128, m, m + 1, i64::MIN as i128, i64::MAX as i128, -m, m * 2 + 5] {
                if iv < i64::MIN as i128 || iv > i64::MAX as i128 || (iv >= 0 && iv < m) {
                    continue;
                }
                let red = (iv as i64 as u64 as u128) & ((1u128 << f.width.min(64)) - 1).min(if f.width >= 64 { u128::MAX } else { (1u128 << f.width) - 1 });
                invalid.push((super::super::render::int_lit(iv as i64), Some(red)));
            }
            for t in ["\"x\"", "1.5", "null", "true", "[1]", "'a'"] {
                invalid.push((t.to_string(), None));
            }
        } else if matches!(f.kind, Kind::Bool) {
            for t in ["1", "0", "\"true\"", "null", "2"] {
                invalid.push((t.to_string(), None));
            }
        } else {
            for t in ["1", "null", "true", "[1, 2, 3, 4]", "\"\"", "\"not an address\"", "1.5"] {
                invalid.push((t.to_string(), None));
            }
        }
        for (k, (src, red)) in invalid.iter().enumerate() {
            idx += 1;
            if !ctx.mine(idx) {
                continue;
            }
            for rep in 0..6u64 {
                let fb = rnd_bytes(mix64(idx.wrapping_mul(31) ^ rep ^ ctx.seed), 220);
                let mut fc = Choices::new(&fb);
                let (stack, depth) = stacks[(k + rep as usize) % stacks.len()];
                let frame = spiced(stack_frame(&mut fc, stack));
                let a = Assign { depth, layer: f.layer, field: f, value_src: src.clone(), in_range: None, reduced: *red };
                let mut h = frame.clone();
                h.extend_from_slice(format!("{}<-{}", f.name, src).as_bytes());
                ctx.case(hash_bytes(&h), true);
                ctx.class("assign:invalid");
                for x in check_assign(ctx, "invalid", &frame, &a) {
                    ctx.report(x);
                }
            }
        }
    }
    // read-only properties
    for (stack, depth, layer) in [(0u8, 2usize, "ipv4"), (2, 2, "ipv6"), (7, 3, "ipv6")] {
        idx += 1;
        if !ctx.mine(idx) {
            continue;
        }
        for v in ["4", "6", "0"] {
            let fb = rnd_bytes(mix64(idx ^ 0xabc), 220);
            let mut fc = Choices::new(&fb);
            let frame = spiced(stack_frame(&mut fc, stack));
            let pkt = make_packet(5, 6, frame.len() as u32, frame.len() as u32, &frame);
            let src = format!("(${}).version = {};", depth, v);
            ctx.case(hash_bytes(&frame) ^ depth as u64, true);
            ctx.class("readonly");
            let case = json!({"frame": hex(&frame), "readonly": src});
            match run_text_with_pkt(&src, Rc::clone(&pkt)) {
                Outcome::Ran(r) if r.err.is_none() => {
                    ctx.report(Violation::new("readonly", format!("readonly-assigned:{}.version", layer), format!("`{}` was accepted although version is read-only", src), case));
                }
                Outcome::Panic(p) => {
                    ctx.report(Violation::new("readonly", p.signature(), p.describe(), case));
                }
                _ => {
                    let mut expected = record_header(5, 6, frame.len() as u32, frame.len() as u32);
                    expected.extend_from_slice(&frame);
                    if packet_bytes(&pkt).ok() != Some(expected) {
                        ctx.report(Violation::new("readonly", format!("readonly-changed:{}.version", layer), format!("`{}` was rejected but the packet changed", src), case));
                    }
                }
            }
        }
    }
}

fn record_section(ctx: &mut Ctx) {
    let names = ["sec", "usec", "caplen", "wirelen"];
    for k in 0..800u64 {
        if !ctx.mine(k) {
            continue;
        }
        let x = mix64(k ^ ctx.seed ^ 0x77);
        let which = (k % 4) as usize;
        let data = rnd_bytes(x, 20 + (x % 30) as usize);
        let (sec, usec, wl) = (x as u32, (x >> 32) as u32, mix64(x) as u32);
        let cl = data.len() as u32;
        let v: i64 = match (k / 4) % 6 {
            0 => 0,
            1 => u32::MAX as i64,
            2 => 1,
            3 => (mix64(x ^ 5) as u32) as i64,
            4 => -1,
            _ => (1i64 << 32) + 7,
        };
        let in_range = (0..=u32::MAX as i64).contains(&v);
        let pkt = make_packet(sec, usec, cl, wl, &data);
        let src = format!("($0).{} = {};\n($0).{}", names[which], super::super::render::int_lit(v), names[which]);
        ctx.case(mix64(k * 131), true);
        ctx.class("record");
        let case = json!({"record": true, "src": src, "data": hex(&data), "sec": sec, "usec": usec, "wirelen": wl});
        let out = run_text_with_pkt(&src, Rc::clone(&pkt));
        let got = packet_bytes(&pkt).unwrap_or_default();
        let mut fields = [sec, usec, cl, wl];
        let original: Vec<u8> = record_header(sec, usec, cl, wl).into_iter().chain(data.iter().copied()).collect();
        match out {
            Outcome::Ran(r) => {
                let accepted = r.err.is_none();
                if accepted {
                    fields[which] = v as u32;
                    let expected: Vec<u8> = record_header(fields[0], fields[1], fields[2], fields[3]).into_iter().chain(data.iter().copied()).collect();
                    if got != expected {
                        ctx.report(Violation::new("record", format!("record-bytes:{}", names[which]), format!("after `{}`\n got:      {}\n expected: {}", src, hex(&got), hex(&expected)), case.clone()));
                    } else if in_range && !Val::Int(v).same(&r.last) {
                        ctx.report(Violation::new("record", format!("record-readback:{}", names[which]), format!("after `{}` the property reads {}", src, r.last.show()), case.clone()));
                    }
                } else if in_range {
                    ctx.report(Violation::new("record", format!("record-rejected:{}", names[which]), format!("`{}` raised {:?}", src, r.err), case.clone()));
                } else if got != original {
                    ctx.report(Violation::new("record", format!("record-invalid-changed:{}", names[which]), format!("`{}` was rejected but the packet changed", src), case.clone()));
                }
            }
            Outcome::Panic(p) => {
                ctx.report(Violation::new("record", p.signature(), p.describe(), case));
            }
            _ => {}
        }
    }
}

fn history(ctx: &mut Ctx, bytes: &[u8]) -> Vec<Violation> {
    let mut c = Choices::new(bytes);
    let stack = c.below(8) as u8;
    let frame = spiced(stack_frame(&mut c, stack));
    let (chain, _) = parse_chain(&frame);
    let n = 2 + c.below(7);
    let mut reference = frame.clone();
    let mut script = String::new();
    let mut layers_written: Vec<Layer> = Vec::new();
    for _ in 0..n {
        let li = c.below(chain.len());
        let p = &chain[li];
        let fs: Vec<&Field> = fields_of(p.layer).into_iter().filter(|f| f.writable && !f.structural).collect();
        if fs.is_empty() {
            continue;
        }
        let f = fs[c.below(fs.len())];
        let max: u128 = if f.width >= 128 { u128::MAX } else { (1u128 << f.width) - 1 };
        let v = ((((c.u64() as u128) << 64) | c.u64() as u128) & max) as u128;
        set_bits(&mut reference, p.start, f.bit, f.width, v);
        script.push_str(&format!("(${}).{} = {};\n", li + 1, f.name, value_text(f, v)));
        if !layers_written.contains(&p.layer) {
            layers_written.push(p.layer);
        }
    }
    script.push('0');
    let pkt = make_packet(9, 8, frame.len() as u32, frame.len() as u32, &frame);
    let mut expected = record_header(9, 8, frame.len() as u32, frame.len() as u32);
    expected.extend_from_slice(&reference);
    let mut h = frame.clone();
    h.extend_from_slice(script.as_bytes());
    ctx.case(hash_bytes(&h), layers_written.len() >= 2);
    ctx.class("history");
    guard("histories", "frame", &hex(&frame));
    let case = json!({"history": script, "frame": hex(&frame), "expected": hex(&expected)});
    if ctx.want_sample() && layers_written.len() >= 2 && ctx.res.evals % 97 == 3 {
        ctx.sample(json!({"frame": hex(&frame), "assignments": script}));
    }
    let mut out = Vec::new();
    match run_text_with_pkt(&script, Rc::clone(&pkt)) {
        Outcome::Ran(r) => {
            if let Some((m, _)) = &r.err {
                out.push(Violation::new("histories", "history:runtime-error", format!("an in-range assignment raised {}\n{}\nframe: {}", m, script, hex(&frame)), case));
                return out;
            }
            match packet_bytes(&pkt) {
                Ok(got) => {
                    if got != expected {
                        out.push(Violation::new("histories", "history:bytes", format!("after\n{}\n got:      {}\n expected: {}", script, hex(&got), hex(&expected)), case));
                    } else {
                        out.extend(reparse_check("histories", &got[16..], "history", &case));
                    }
                }
                Err(p) => out.push(Violation::new("histories", p.signature(), p.describe(), case)),
            }
        }
        Outcome::Panic(p) => out.push(Violation::new("histories", p.signature(), p.describe(), case)),
        _ => {}
    }
    out
}

/// assignments below a layer, then its dispatch field set to another value and back: nothing assigned
/// earlier may be lost, and the bytes differ from the original only inside the assigned fields
fn dispatch_history(ctx: &mut Ctx, bytes: &[u8]) -> Vec<Violation> {
    let mut c = Choices::new(bytes);
    let stack = c.below(8) as u8;
    let frame = spiced(stack_frame(&mut c, stack));
    let (chain, _) = parse_chain(&frame);
    if chain.len() < 2 {
        return vec![];
    }
    let li = c.below(chain.len() - 1);
    let dname = match chain[li].layer {
        Layer::Eth | Layer::Vlan => "type",
        Layer::Ipv4 => "proto",
        Layer::Ipv6 => "nextheader",
        _ => return vec![],
    };
    let df = match FIELDS.iter().find(|f| f.layer == chain[li].layer && f.name == dname) {
        Some(f) => f,
        None => return vec![],
    };
    let mut reference = frame.clone();
    let mut inner = String::new();
    let mut reads: Vec<String> = Vec::new();
    let mut wants: Vec<(usize, &'static Field)> = Vec::new();
    let k = 1 + c.below(3);
    for _ in 0..k {
        let lj = li + 1 + c.below(chain.len() - li - 1);
        let p = &chain[lj];
        let fs: Vec<&Field> = fields_of(p.layer).into_iter().filter(|f| f.writable && !f.structural).collect();
        if fs.is_empty() {
            continue;
        }
        let f = fs[c.below(fs.len())];
        let max: u128 = if f.width >= 128 { u128::MAX } else { (1u128 << f.width) - 1 };
        let v = (((c.u64() as u128) << 64) | c.u64() as u128) & max;
        set_bits(&mut reference, p.start, f.bit, f.width, v);
        inner.push_str(&format!("(${}).{} = {};\n", lj + 1, f.name, value_text(f, v)));
        reads.push(format!("(${}).{}", lj + 1, f.name));
        wants.push((p.start, f));
    }
    if reads.is_empty() {
        return vec![];
    }
    let orig = get_bits(&frame, chain[li].start, df.bit, df.width);
    let other = match c.below(4) {
        0 => orig ^ 1,
        1 => 0,
        2 => if df.width == 16 { [0x0800u128, 0x86dd, 0x8100][c.below(3)] } else { [6u128, 17, 41][c.below(3)] },
        _ => (orig + 1 + c.below(200) as u128) & ((1u128 << df.width) - 1),
    };
    if other == orig {
        return vec![];
    }
    let flip = format!("(${}).{} = {};\n", li + 1, dname, other);
    let restore = format!("(${}).{} = {};\n", li + 1, dname, orig);
    let mut e1 = reference.clone();
    set_bits(&mut e1, chain[li].start, df.bit, df.width, other);
    let hdr = record_header(9, 8, frame.len() as u32, frame.len() as u32);
    let full = |b: &[u8]| -> Vec<u8> { hdr.iter().chain(b.iter()).copied().collect() };
    ctx.case(hash_bytes(&frame) ^ super::super::choices::hash_str(&format!("{}{}", inner, flip)), true);
    ctx.class("dispatch-history");
    let case = json!({"dispatch": true, "frame": hex(&frame), "inner": inner, "flip": flip, "restore": restore, "reads": reads, "e1": hex(&full(&e1)), "e2": hex(&full(&reference))});
    guard("dispatch", "frame", &hex(&frame));
    run_dispatch("dispatch", &frame, &inner, &flip, &restore, &reads, &full(&e1), &full(&reference), &case)
}

#[allow(clippy::too_many_arguments)]
fn run_dispatch(section: &str, frame: &[u8], inner: &str, flip: &str, restore: &str, reads: &[String], e1: &[u8], e2: &[u8], case: &Value) -> Vec<Violation> {
    let mut out = Vec::new();
    // run 1: inner assignments, then the dispatch field flipped
    let pkt = make_packet(9, 8, frame.len() as u32, frame.len() as u32, frame);
    let s1 = format!("{}{}0", inner, flip);
    match run_text_with_pkt(&s1, Rc::clone(&pkt)) {
        Outcome::Ran(r) => {
            if let Some((m, _)) = &r.err {
                out.push(Violation::new(section, "dispatch-history:runtime-error", format!("{}\n{}", m, s1), case.clone()));
                return out;
            }
            match packet_bytes(&pkt) {
                Ok(got) if got == e1 => {}
                Ok(got) => {
                    out.push(Violation::new(section, "dispatch-history:earlier-assignment-lost", format!("after\n{}the packet serialises to\n got:      {}\n expected: {}", s1, hex(&got), hex(e1)), case.clone()));
                    return out;
                }
                Err(p) => {
                    out.push(Violation::new(section, p.signature(), p.describe(), case.clone()));
                    return out;
                }
            }
        }
        Outcome::Panic(p) => {
            out.push(Violation::new(section, p.signature(), p.describe(), case.clone()));
            return out;
        }
        _ => return out,
    }
    // run 2: ... and set back: the deeper fields read as assigned
    let pkt = make_packet(9, 8, frame.len() as u32, frame.len() as u32, frame);
    let s2 = format!("{}{}{}[{}]", inner, flip, restore, reads.join(", "));
    if let Outcome::Ran(r) = run_text_with_pkt(&s2, Rc::clone(&pkt)) {
        if let Some((m, _)) = &r.err {
            out.push(Violation::new(section, "dispatch-history:runtime-error", format!("{}\n{}", m, s2), case.clone()));
            return out;
        }
        let (chain, _) = parse_chain(&e2[16..]);
        let _ = chain;
        if let Val::Arr(vals) = &r.last {
            for (k, expr) in reads.iter().enumerate() {
                // expected value: read from the reference bytes through the same expression's field
                let depth: usize = expr[2..3].parse().unwrap_or(1);
                let fname = expr.split('.').nth(1).unwrap_or("");
                let (ch, _) = parse_chain(&e2[16..]);
                if let Some(p) = ch.get(depth - 1) {
                    if let Some(f) = FIELDS.iter().find(|f| f.layer == p.layer && f.name == fname) {
                        let exp = expected_field(&e2[16..], p.start, f);
                        let ok = if f.layer == Layer::Tcp && f.name == "flags" { tcp_flags_ok(&e2[16..], p.start, &vals[k]) } else { matches_expected(&exp, &vals[k]) };
                        if !ok {
                            out.push(Violation::new(section, "dispatch-history:value-reverted", format!("after\n{}\n{} reads {} (expected {})", s2, expr, vals[k].show(), show_expected(&exp)), case.clone()));
                            return out;
                        }
                    }
                }
            }
        }
        if packet_bytes(&pkt).ok().as_deref() != Some(e2) {
            out.push(Violation::new(section, "dispatch-history:bytes-after-restore", format!("after\n{}the packet does not serialise to the original with the assigned fields replaced", s2), case.clone()));
        }
    }
    out
}

pub fn run(ctx: &mut Ctx) {
    fields_section(ctx);
    record_section(ctx);
    ctx.more_samples(2);
    let n = ctx.nshards as u32;
    drive(ctx, "histories", ctx.tier.pick(160_000, 3_000_000) / n, 32, 400, |ctx, bytes| history(ctx, bytes));
    drive(ctx, "dispatch", ctx.tier.pick(60_000, 1_000_000) / n, 32, 400, |ctx, bytes| dispatch_history(ctx, bytes));
}

pub fn replay(section: &str, case: &Value, ctx: &mut Ctx) {
    if case.get("dispatch").is_some() {
        let frame = unhex(case["frame"].as_str().unwrap_or(""));
        let reads: Vec<String> = case["reads"].as_array().map(|a| a.iter().filter_map(|x| x.as_str().map(|s| s.to_string())).collect()).unwrap_or_default();
        let (e1, e2) = (unhex(case["e1"].as_str().unwrap_or("")), unhex(case["e2"].as_str().unwrap_or("")));
        for v in run_dispatch(section, &frame, case["inner"].as_str().unwrap_or(""), case["flip"].as_str().unwrap_or(""), case["restore"].as_str().unwrap_or(""), &reads, &e1, &e2, case) {
            ctx.report(v);
        }
        return;
    }
    if let Some(script) = case.get("history").and_then(|v| v.as_str()) {
        let frame = unhex(case["frame"].as_str().unwrap_or(""));
        let expected = unhex(case["expected"].as_str().unwrap_or(""));
        let pkt = make_packet(9, 8, frame.len() as u32, frame.len() as u32, &frame);
        if let Outcome::Ran(r) = run_text_with_pkt(script, Rc::clone(&pkt)) {
            if r.err.is_some() {
                ctx.report(Violation::new(section, "history:runtime-error", format!("{:?}", r.err), case.clone()));
            } else if packet_bytes(&pkt).ok() != Some(expected.clone()) {
                ctx.report(Violation::new(section, "history:bytes", "bytes differ".to_string(), case.clone()));
            } else {
                for v in reparse_check(section, &expected[16..], "history", case) {
                    ctx.report(v);
                }
            }
        }
        return;
    }
    if case.get("record").is_some() || case.get("readonly").is_some() {
        return;
    }
    let frame = unhex(case["frame"].as_str().unwrap_or(""));
    let depth = case["depth"].as_u64().unwrap_or(1) as usize;
    let lname = case["layer"].as_str().unwrap_or("");
    let fname = case["field"].as_str().unwrap_or("");
    if let Some(f) = FIELDS.iter().find(|f| f.layer.name() == lname && f.name == fname) {
        let a = Assign {
            depth,
            layer: f.layer,
            field: f,
            value_src: case["value"].as_str().unwrap_or("0").to_string(),
            in_range: case["in_range"].as_str().and_then(|s| s.parse().ok()),
            reduced: case["reduced"].as_str().and_then(|s| s.parse().ok()),
        };
        for v in check_assign(ctx, section, &frame, &a) {
            ctx.report(v);
        }
    }
}
