//! C18 — MAC, IPv4 and IPv6 address text converts losslessly and accepts standard forms.

use std::rc::Rc;

use serde_json::{json, Value};

use crate::builtins::protocols::ipv4addr::Ipv4Address;
use crate::builtins::protocols::ipv6addr::Ipv6Address;
use crate::builtins::protocols::macaddress::MacAddress;

use super::super::choices::{hash_str, mix64, Choices};
use super::super::codec::*;
use super::super::engine::*;
use super::super::frames::stack_frame;
use super::super::p2::{make_packet, packet_bytes, record_header, run_text_with_pkt, Outcome, Val};
use super::super::pkt::*;
use super::Meta;

pub const META: Meta = Meta {
    rule: "Each text is decided twice: by calling MacAddress/Ipv4Address/Ipv6Address::from_str directly and by a script assigning it to eth/ipv4/ipv6 .src or .dst of a random frame and reading it back. \
(roundtrip) boundary + random addresses: the text the implementation displays for the address, assigned back, must store the same bytes. \
(ip6-forms) every position p and length l of the '::' compression (36 shapes + the uncompressed shape) x lower/upper/mixed case x minimal / zero-padded / mixed digit counts x 12 group fillings (random, 0, ffff, zero groups \
outside the compression): must be accepted and equal the constructed address. (mac-forms, ip4-forms) boundary + random addresses x case x one/two digit octets; dotted-quad decimal without leading zeros. \
(malformed) each valid text with one mutation of a named class (missing group, extra group, out-of-range group, second '::', ':::', stray leading/trailing/doubled separator, empty text, non-digit group): must be rejected \
(direct: Err; script: runtime error and packet bytes unchanged). (random, proptest) char-level edits over the alphabet of the notation, classified by two reference parsers: strict (1..4 hex digits / 1..2 hex digits / decimal <= 255 without sign) \
decides must-accept and the value; a lenient one (sign, extra leading zeros, zero-length '::' allowed) decides must-reject; texts between the two are don't-care. \
Non-trivial: compressed or padded or upper-case form, or a malformed text that differs from a valid one in a single group. Distinct by kind + text.",
    assumptions: &[
        "IPv4-embedded IPv6 text (x:x:x:x:x:x:d.d.d.d), signs, more than the standard number of digits, '::' standing for zero groups, and '-' separated MACs are don't-care",
    ],
    required_classes: &[("ip6:compressed:leading", 300), ("ip6:compressed:trailing", 300), ("ip6:compressed:middle", 1_000), ("ip6:full", 100), ("malformed", 3_000), ("roundtrip", 3_000), ("mac", 500), ("ip4", 500), ("random:must-reject", 2_000), ("random:must-accept", 500)],
    exhaustive_when_sections: &[],
};

#[derive(Clone, Copy, PartialEq, Debug)]
pub enum AK {
    Mac,
    Ip4,
    Ip6,
}

impl AK {
    fn name(&self) -> &'static str {
        match self {
            AK::Mac => "mac",
            AK::Ip4 => "ipv4",
            AK::Ip6 => "ipv6",
        }
    }
    fn from_name(s: &str) -> AK {
        match s {
            "mac" => AK::Mac,
            "ipv4" => AK::Ip4,
            _ => AK::Ip6,
        }
    }
    fn len(&self) -> usize {
        match self {
            AK::Mac => 6,
            AK::Ip4 => 4,
            AK::Ip6 => 16,
        }
    }
}

pub fn strict(kind: AK, s: &str) -> Option<Vec<u8>> {
    match kind {
        AK::Mac => parse_mac(s).map(|x| x.to_vec()),
        AK::Ip4 => {
            // no leading zeros in the must-accept set
            if s.split('.').any(|g| g.len() > 1 && g.starts_with('0')) {
                return None;
            }
            parse_ip4(s).map(|x| x.to_vec())
        }
        AK::Ip6 => parse_ip6(s).map(|x| x.to_vec()),
    }
}

/// anything a tolerant parser could reasonably take; texts outside this set must be rejected
pub fn lenient(kind: AK, s: &str) -> bool {
    let group_ok = |g: &str, radix: u32, max: u64| -> bool {
        let g = g.strip_prefix('+').unwrap_or(g);
        if g.is_empty() || !g.chars().all(|c| c.is_digit(radix)) {
            return false;
        }
        let t = g.trim_start_matches('0');
        if t.len() > 8 {
            return false;
        }
        t.is_empty() || u64::from_str_radix(t, radix).map(|v| v <= max).unwrap_or(false)
    };
    match kind {
        AK::Mac => {
            let p: Vec<&str> = s.split(':').collect();
            p.len() == 6 && p.iter().all(|g| group_ok(g, 16, 255))
        }
        AK::Ip4 => {
            let p: Vec<&str> = s.split('.').collect();
            p.len() == 4 && p.iter().all(|g| group_ok(g, 10, 255))
        }
        AK::Ip6 => {
            let (head, tail, comp) = match s.find("::") {
                Some(i) => (&s[..i], &s[i + 2..], true),
                None => (s, "", false),
            };
            if tail.contains("::") {
                return false;
            }
            let groups = |t: &str| -> Option<usize> {
                if t.is_empty() {
                    return Some(0);
                }
                let mut n = 0;
                for g in t.split(':') {
                    if !group_ok(g, 16, 0xffff) {
                        return None;
                    }
                    n += 1;
                }
                Some(n)
            };
            match (groups(head), groups(tail)) {
                (Some(a), Some(b)) => {
                    if comp {
                        a + b <= 8
                    } else {
                        a + b == 8
                    }
                }
                _ => false,
            }
        }
    }
}

fn direct(kind: AK, s: &str) -> Result<Option<Vec<u8>>, PanicInfo> {
    catch(|| match kind {
        AK::Mac => MacAddress::from_str(s).ok().map(|a| Vec::<u8>::from(&a)),
        AK::Ip4 => Ipv4Address::from_str(s).ok().map(|a| Vec::<u8>::from(&a)),
        AK::Ip6 => Ipv6Address::from_str(s).ok().map(|a| Vec::<u8>::from(&a)),
    })
}

fn displayed(kind: AK, b: &[u8]) -> Result<String, PanicInfo> {
    catch(|| match kind {
        AK::Mac => MacAddress::from_bytes(b).to_string(),
        AK::Ip4 => Ipv4Address::from_bytes(b).to_string(),
        AK::Ip6 => Ipv6Address::from_bytes(b).to_string(),
    })
}

#[derive(Clone, Debug)]
pub enum Want {
    Accept(Vec<u8>),
    Reject,
}

fn frame_for(kind: AK, salt: u64) -> (Vec<u8>, usize, Layer) {
    let fb: Vec<u8> = {
        let mut x = salt;
        (0..200)
            .map(|_| {
                x = mix64(x);
                (x >> 16) as u8
            })
            .collect()
    };
    let mut c = Choices::new(&fb);
    match kind {
        AK::Mac => (stack_frame(&mut c, (salt % 4) as u8), 1, Layer::Eth),
        AK::Ip4 => (stack_frame(&mut c, if salt % 2 == 0 { 0 } else { 1 }), 2, Layer::Ipv4),
        AK::Ip6 => (stack_frame(&mut c, if salt % 2 == 0 { 2 } else { 3 }), 2, Layer::Ipv6),
    }
}

/// decide one text through both routes
pub fn check_text(section: &str, kind: AK, text: &str, want: &Want, class: &str, salt: u64) -> Vec<Violation> {
    let mut out = Vec::new();
    let case = json!({"kind": kind.name(), "text": text, "want": match want { Want::Accept(b) => hex(b), Want::Reject => "reject".to_string() }, "class": class, "salt": salt});
    guard(section, kind.name(), text);
    match (direct(kind, text), want) {
        (Err(p), _) => out.push(Violation::new(section, p.signature(), format!("{}::from_str({:?}) crashed: {}", kind.name(), text, p.describe()), case.clone())),
        (Ok(None), Want::Accept(b)) => out.push(Violation::new(section, format!("rejects-standard-form:{}:{}", kind.name(), class), format!("from_str({:?}) is rejected; it is a standard form of {}", text, hex(b)), case.clone())),
        (Ok(Some(got)), Want::Accept(b)) if &got != b => out.push(Violation::new(section, format!("wrong-address:{}:{}", kind.name(), class), format!("from_str({:?}) = {} but the text denotes {}", text, hex(&got), hex(b)), case.clone())),
        (Ok(Some(got)), Want::Reject) => out.push(Violation::new(section, format!("accepts-malformed:{}:{}", kind.name(), class), format!("from_str({:?}) is accepted as {}; the text is malformed ({})", text, hex(&got), class), case.clone())),
        _ => {}
    }
    if !out.is_empty() || text.contains('"') || text.contains('\\') || text.contains('\n') {
        return out;
    }
    // through a script
    let (frame, depth, layer) = frame_for(kind, salt);
    let which = if salt & 4 == 0 { "src" } else { "dst" };
    let f = FIELDS.iter().find(|f| f.layer == layer && f.name == which).unwrap();
    let (chain, _) = parse_chain(&frame);
    let start = chain[depth - 1].start;
    let pkt = make_packet(3, 4, frame.len() as u32, frame.len() as u32, &frame);
    let src = format!("(${}).{} = \"{}\";\n(${}).{}", depth, which, text, depth, which);
    let hdr = record_header(3, 4, frame.len() as u32, frame.len() as u32);
    let original: Vec<u8> = hdr.iter().chain(frame.iter()).copied().collect();
    let outcome = run_text_with_pkt(&src, Rc::clone(&pkt));
    let bytes = packet_bytes(&pkt);
    match (outcome, want) {
        (Outcome::Panic(p), _) => out.push(Violation::new(section, p.signature(), format!("`{}` crashed: {}", src, p.describe()), case)),
        (Outcome::Ran(r), Want::Accept(b)) => {
            if let Some((m, _)) = &r.err {
                out.push(Violation::new(section, format!("rejects-standard-form:{}:{}", kind.name(), class), format!("`{}` raised {}; the text is a standard form of {}", src, m, hex(b)), case));
            } else {
                let mut fr = frame.clone();
                let off = start + f.bit / 8;
                fr[off..off + kind.len()].copy_from_slice(b);
                let expected: Vec<u8> = hdr.iter().chain(fr.iter()).copied().collect();
                let rb = match &r.last {
                    Val::Str(s) => strict(kind, s).or_else(|| match kind {
                        AK::Ip4 => parse_ip4(s).map(|x| x.to_vec()),
                        _ => None,
                    }),
                    _ => None,
                };
                if bytes.as_ref().ok() != Some(&expected) {
                    out.push(Violation::new(section, format!("wrong-address:{}:{}", kind.name(), class), format!("after `{}` the packet holds\n got:      {}\n expected: {}", src, bytes.map(|b| hex(&b)).unwrap_or_default(), hex(&expected)), case));
                } else if rb.as_ref() != Some(b) {
                    out.push(Violation::new(section, format!("readback:{}:{}", kind.name(), class), format!("after `{}` the property reads {} which is not a text of {}", src, r.last.show(), hex(b)), case));
                }
            }
        }
        (Outcome::Ran(r), Want::Reject) => {
            if r.err.is_none() {
                out.push(Violation::new(section, format!("accepts-malformed:{}:{}", kind.name(), class), format!("`{}` is accepted (now reads {}); the text is malformed ({})", src, r.last.show(), class), case));
            } else if bytes.as_ref().ok() != Some(&original) {
                out.push(Violation::new(section, format!("rejected-but-changed:{}", kind.name()), format!("`{}` raised a runtime error but the packet changed", src), case));
            }
        }
        _ => {}
    }
    out
}

fn rb(seed: u64, n: usize) -> Vec<u8> {
    let mut x = seed;
    (0..n)
        .map(|_| {
            x = mix64(x);
            (x >> 20) as u8
        })
        .collect()
}

fn boundary_addrs(kind: AK, seed: u64, n_random: usize) -> Vec<Vec<u8>> {
    let l = kind.len();
    let mut v = vec![vec![0u8; l], vec![0xffu8; l], vec![0x0au8; l], vec![0xa0u8; l], vec![0x01u8; l], vec![0x10u8; l], (0..l as u8).collect(), (0..l as u8).map(|i| 255 - i).collect()];
    for i in 0..l {
        let mut a = vec![0u8; l];
        a[i] = 0xff;
        v.push(a);
        let mut a = vec![0xffu8; l];
        a[i] = 0;
        v.push(a);
        let mut a = vec![0u8; l];
        a[i] = 0x0f;
        v.push(a);
    }
    for k in 0..n_random {
        let mut a = rb(seed ^ (k as u64).wrapping_mul(0x9e37), l);
        // sprinkle zero runs
        if k % 3 == 0 {
            let s = (a[0] as usize) % l;
            let e = (s + 1 + (a[1] as usize) % l).min(l);
            for b in &mut a[s..e] {
                *b = 0;
            }
        }
        v.push(a);
    }
    v
}

fn recase(s: &str, mode: usize, salt: u64) -> String {
    match mode {
        0 => s.to_lowercase(),
        1 => s.to_uppercase(),
        _ => s.chars().enumerate().map(|(i, c)| if mix64(salt ^ i as u64) & 1 == 0 { c.to_ascii_uppercase() } else { c.to_ascii_lowercase() }).collect(),
    }
}

fn hexgroup(v: u16, style: usize, salt: u64) -> String {
    match style {
        0 => format!("{:x}", v),
        1 => format!("{:04x}", v),
        _ => {
            let min = format!("{:x}", v);
            let w = min.len() + (mix64(salt) as usize % (5 - min.len()));
            format!("{:0>w$}", min, w = w)
        }
    }
}

fn run_one(ctx: &mut Ctx, section: &str, kind: AK, text: &str, want: Want, class: &str, nontrivial: bool, idx: u64) {
    if !ctx.mine(idx) {
        return;
    }
    ctx.case(hash_str(text) ^ kind as u64, nontrivial);
    ctx.class(class);
    if ctx.want_sample() && idx % 37 == 5 {
        ctx.sample(json!({"kind": kind.name(), "text": text, "want": format!("{:?}", want).chars().take(60).collect::<String>(), "class": class}));
    }
    for v in check_text(section, kind, text, &want, class, mix64(idx ^ ctx.seed)) {
        ctx.report(v);
    }
}

fn roundtrip(ctx: &mut Ctx) {
    let mut idx = 0u64;
    let n = ctx.tier.pick(1500, 60_000);
    for kind in [AK::Mac, AK::Ip4, AK::Ip6] {
        for a in boundary_addrs(kind, ctx.seed ^ kind as u64, n) {
            idx += 1;
            if !ctx.mine(idx) {
                continue;
            }
            match displayed(kind, &a) {
                Ok(text) => run_one(ctx, "roundtrip", kind, &text, Want::Accept(a.clone()), "roundtrip", a.iter().any(|b| *b == 0) && a.iter().any(|b| *b != 0), idx),
                Err(p) => {
                    ctx.report(Violation::new("roundtrip", p.signature(), p.describe(), json!({"kind": kind.name(), "bytes": hex(&a)})));
                }
            }
        }
    }
}

fn ip6_forms(ctx: &mut Ctx) {
    let mut idx = 0u64;
    let fillings = ctx.tier.pick(40usize, 400);
    // shape: None = uncompressed; Some((p, l)) = groups p..p+l replaced by '::'
    let mut shapes: Vec<Option<(usize, usize)>> = vec![None];
    for p in 0..8 {
        for l in 1..=8 - p {
            shapes.push(Some((p, l)));
        }
    }
    for shape in &shapes {
        for case_mode in 0..3 {
            for style in 0..3 {
                for fill in 0..fillings {
                    idx += 1;
                    let salt = mix64(idx ^ ctx.seed);
                    let mut groups = [0u16; 8];
                    for (i, g) in groups.iter_mut().enumerate() {
                        let r = mix64(salt ^ (i as u64) << 8);
                        *g = match fill {
                            0 => 0xffff,
                            1 => 0,
                            2 => 1,
                            3 => 0xabcd,
                            4 => {
                                if r & 3 == 0 {
                                    0
                                } else {
                                    (r >> 8) as u16
                                }
                            }
                            5 => 0x000a << (4 * (r as usize & 3)),
                            _ => (r >> 8) as u16,
                        };
                    }
                    if let Some((p, l)) = shape {
                        for g in &mut groups[*p..p + l] {
                            *g = 0;
                        }
                    }
                    let txt = |r: std::ops::Range<usize>| -> String { r.map(|i| hexgroup(groups[i], style, salt ^ i as u64)).collect::<Vec<_>>().join(":") };
                    let (text, class) = match shape {
                        None => (txt(0..8), "ip6:full"),
                        Some((p, l)) => (format!("{}::{}", txt(0..*p), txt(p + l..8)), if *p == 0 { "ip6:compressed:leading" } else if p + l == 8 { "ip6:compressed:trailing" } else { "ip6:compressed:middle" }),
                    };
                    let text = recase(&text, case_mode, salt);
                    let mut bytes = Vec::new();
                    for g in groups {
                        bytes.extend_from_slice(&g.to_be_bytes());
                    }
                    debug_assert_eq!(strict(AK::Ip6, &text), Some(bytes.clone()));
                    run_one(ctx, "ip6-forms", AK::Ip6, &text, Want::Accept(bytes), class, shape.is_some() || style > 0 || case_mode > 0, idx);
                }
            }
        }
    }
    ctx.exhaustive("ip6-forms");
}

fn mac_ip4_forms(ctx: &mut Ctx) {
    let mut idx = 0u64;
    let n = ctx.tier.pick(300, 20_000);
    for a in boundary_addrs(AK::Mac, ctx.seed ^ 0x11, n) {
        for case_mode in 0..3 {
            for style in 0..2 {
                idx += 1;
                let text: String = a.iter().map(|b| if style == 0 { format!("{:02x}", b) } else { format!("{:x}", b) }).collect::<Vec<_>>().join(":");
                let text = recase(&text, case_mode, idx);
                run_one(ctx, "mac-forms", AK::Mac, &text, Want::Accept(a.clone()), "mac", case_mode > 0 || style > 0, idx);
            }
        }
    }
    for a in boundary_addrs(AK::Ip4, ctx.seed ^ 0x12, n * 4) {
        idx += 1;
        let text: String = a.iter().map(|b| b.to_string()).collect::<Vec<_>>().join(".");
        run_one(ctx, "ip4-forms", AK::Ip4, &text, Want::Accept(a.clone()), "ip4", a.iter().any(|b| *b >= 100) && a.iter().any(|b| *b < 10), idx);
    }
}

/// one named mutation of a valid text; None when it does not apply
fn mutate(kind: AK, valid: &str, m: usize, salt: u64) -> Option<(String, &'static str)> {
    let sep = if kind == AK::Ip4 { '.' } else { ':' };
    let seps = sep.to_string();
    let groups: Vec<&str> = valid.split(sep).collect();
    let pick = (mix64(salt) as usize) % groups.len();
    // out of range by a little, by a lot, and by amounts that wrap around 8/16/32/64-bit accumulators onto a valid value
    const BIG_MAC: [&str; 12] = ["100", "1ff", "fff", "256", "101", "10000", "10001", "100000000", "100000001", "10000000000000000", "10000000000000001", "1000000000000000000000000000000a"];
    const BIG_IP4: [&str; 14] = ["256", "300", "999", "1000", "257", "65536", "65537", "4294967295", "4294967296", "4294967297", "99999999999", "18446744073709551616", "18446744073709551617", "100000000000000000000000000001"];
    const BIG_IP6: [&str; 12] = ["10000", "1ffff", "fffff", "100000", "10001", "100000000", "100000001", "ffffffffff", "10000000000000000", "10000000000000001", "1000000000000000000000000000000a", "123456789"];
    let big = match kind {
        AK::Mac => BIG_MAC[(salt % 12) as usize],
        AK::Ip4 => BIG_IP4[(salt % 14) as usize],
        AK::Ip6 => BIG_IP6[(salt % 12) as usize],
    };
    let some = match kind {
        AK::Mac => "a1",
        AK::Ip4 => "7",
        AK::Ip6 => "b2",
    };
    let has_comp = valid.contains("::");
    Some(match m {
        0 => {
            // drop a group
            if has_comp {
                return None;
            }
            let mut g = groups.clone();
            g.remove(pick);
            (g.join(&seps), "missing-group")
        }
        1 => {
            // add a group (for compressed IPv6: fill to nine groups altogether)
            if has_comp {
                let n = groups.iter().filter(|g| !g.is_empty()).count();
                let extra: Vec<&str> = std::iter::repeat(some).take(9 - n).collect();
                let t = if valid.ends_with("::") { format!("{}{}", valid, extra.join(&seps)) } else { format!("{}:{}", valid, extra.join(&seps)) };
                (t, "extra-group")
            } else {
                let mut g = groups.clone();
                g.insert(pick, some);
                (g.join(&seps), "extra-group")
            }
        }
        2 => {
            if groups[pick].is_empty() {
                return None;
            }
            let mut g = groups.clone();
            g[pick] = big;
            (g.join(&seps), "out-of-range-group")
        }
        3 => (format!("{}{}", sep, valid), "stray-leading-separator"),
        4 => (format!("{}{}", valid, sep), "stray-trailing-separator"),
        5 => {
            // doubled separator between two non-empty groups (for IPv6: a second '::')
            if kind == AK::Ip6 && !has_comp {
                return None; // that would be a valid compression of zero groups: don't-care
            }
            let cand: Vec<usize> = (0..groups.len() - 1).filter(|i| !groups[*i].is_empty() && !groups[i + 1].is_empty()).collect();
            if cand.is_empty() {
                return None;
            }
            let at = cand[(salt as usize >> 3) % cand.len()];
            let mut t = String::new();
            for (i, g) in groups.iter().enumerate() {
                t.push_str(g);
                if i + 1 < groups.len() {
                    t.push(sep);
                    if i == at {
                        t.push(sep);
                    }
                }
            }
            (t, if kind == AK::Ip6 { "second-compression" } else { "empty-group" })
        }
        6 => {
            if !has_comp {
                return None;
            }
            (valid.replacen("::", ":::", 1), "triple-colon")
        }
        7 => (String::new(), "empty-text"),
        8 => {
            if groups[pick].is_empty() {
                return None;
            }
            let mut g = groups.clone();
            g[pick] = if kind == AK::Ip4 { "a" } else { "g" };
            (g.join(&seps), "non-digit-group")
        }
        9 => (seps.clone(), "only-separator"),
        10 => {
            // keep only the first half
            if has_comp || groups.len() < 2 {
                return None;
            }
            (groups[..groups.len() / 2].join(&seps), "missing-group")
        }
        _ => {
            // twice the address
            if has_comp {
                return None;
            }
            (format!("{}{}{}", valid, sep, valid), "extra-group")
        }
    })
}

fn valid_texts(kind: AK, seed: u64, n: usize) -> Vec<String> {
    let mut out = Vec::new();
    for (k, a) in boundary_addrs(kind, seed, n).into_iter().enumerate() {
        match kind {
            AK::Mac => out.push(a.iter().map(|b| format!("{:02x}", b)).collect::<Vec<_>>().join(":")),
            AK::Ip4 => out.push(a.iter().map(|b| b.to_string()).collect::<Vec<_>>().join(".")),
            AK::Ip6 => {
                let g: Vec<String> = a.chunks(2).map(|c| format!("{:x}", ((c[0] as u16) << 8) | c[1] as u16)).collect();
                out.push(g.join(":"));
                // a compressed variant over a forced zero run
                let p = k % 8;
                let l = 1 + (k / 8) % (8 - p);
                out.push(format!("{}::{}", g[..p].join(":"), g[p + l..].join(":")));
            }
        }
    }
    out
}

fn malformed(ctx: &mut Ctx) {
    let mut idx = 0u64;
    let n = ctx.tier.pick(60, 3_000);
    for kind in [AK::Mac, AK::Ip4, AK::Ip6] {
        for valid in valid_texts(kind, ctx.seed ^ 0x51 ^ kind as u64, n) {
            for m in 0..12 {
                idx += 1;
                let salt = mix64(idx ^ ctx.seed);
                if let Some((text, class)) = mutate(kind, &valid, m, salt) {
                    if lenient(kind, &text) {
                        ctx.excluded(1);
                        continue;
                    }
                    if ctx.mine(idx) {
                        ctx.class("malformed");
                    }
                    run_one(ctx, "malformed", kind, &text, Want::Reject, class, true, idx);
                }
            }
        }
    }
}

fn random_edit(ctx: &mut Ctx, bytes: &[u8]) -> Vec<Violation> {
    let mut c = Choices::new(bytes);
    let kind = [AK::Mac, AK::Ip4, AK::Ip6][c.below(3)];
    let base = {
        let a: Vec<u8> = (0..kind.len()).map(|_| if c.chance(1, 4) { 0 } else { c.byte() }).collect();
        match kind {
            AK::Mac => a.iter().map(|b| format!("{:02x}", b)).collect::<Vec<_>>().join(":"),
            AK::Ip4 => a.iter().map(|b| b.to_string()).collect::<Vec<_>>().join("."),
            AK::Ip6 => {
                let g: Vec<String> = a.chunks(2).map(|ch| format!("{:x}", ((ch[0] as u16) << 8) | ch[1] as u16)).collect();
                if c.bool() {
                    let p = c.below(8);
                    let l = 1 + c.below(8 - p);
                    format!("{}::{}", g[..p].join(":"), g[p + l..].join(":"))
                } else {
                    g.join(":")
                }
            }
        }
    };
    let alphabet: &[u8] = match kind {
        AK::Ip4 => b"0123456789..+a",
        _ => b"0123456789abcdefABCDEF:::+g",
    };
    let mut t: Vec<u8> = base.into_bytes();
    let edits = c.below(4);
    for _ in 0..edits {
        let ch = alphabet[c.below(alphabet.len())];
        match c.below(3) {
            0 if !t.is_empty() => {
                let i = c.below(t.len());
                t.remove(i);
            }
            1 => {
                let i = c.below(t.len() + 1);
                t.insert(i, ch);
            }
            _ if !t.is_empty() => {
                let i = c.below(t.len());
                t[i] = ch;
            }
            _ => {}
        }
    }
    let text = String::from_utf8(t).unwrap_or_default();
    let (want, class) = match strict(kind, &text) {
        Some(b) => (Want::Accept(b), "random:must-accept"),
        None => {
            if lenient(kind, &text) {
                ctx.excluded(1);
                ctx.class("random:dont-care");
                return vec![];
            }
            (Want::Reject, "random:must-reject")
        }
    };
    ctx.case(hash_str(&text) ^ kind as u64, edits > 0);
    ctx.class(class);
    if ctx.want_sample() && ctx.res.evals % 211 == 7 {
        ctx.sample(json!({"kind": kind.name(), "text": text, "class": class}));
    }
    check_text("random", kind, &text, &want, class, hash_str(&text))
}

pub fn run(ctx: &mut Ctx) {
    roundtrip(ctx);
    ip6_forms(ctx);
    mac_ip4_forms(ctx);
    malformed(ctx);
    ctx.more_samples(3);
    let n = ctx.nshards as u32;
    drive(ctx, "random", ctx.tier.pick(1_000_000, 20_000_000) / n, 24, 96, |ctx, bytes| random_edit(ctx, bytes));
}

pub fn replay(section: &str, case: &Value, ctx: &mut Ctx) {
    let kind = AK::from_name(case["kind"].as_str().unwrap_or(""));
    let text = case["text"].as_str().unwrap_or("");
    let want = match case["want"].as_str() {
        Some("reject") | None => Want::Reject,
        Some(h) => Want::Accept(unhex(h)),
    };
    let class = case["class"].as_str().unwrap_or("replay").to_string();
    let salt = case["salt"].as_u64().unwrap_or(0);
    for v in check_text(section, kind, text, &want, &class, salt) {
        ctx.report(v);
    }
}
