//! C15 — reading packet fields never alters the bytes written back out.

use std::rc::Rc;

use serde_json::{json, Value};

use super::super::choices::{hash_bytes, Choices};
use super::super::codec::*;
use super::super::engine::*;
use super::super::frames::gen_frame;
use super::super::p2::{make_packet, packet_bytes, record_header, run_text_with_pkt, Outcome};
use super::Meta;

pub const META: Meta = Meta {
    rule: "proptest byte-vectors decoded into structure-aware frames (Ethernet, 0..3 VLAN tags incl. unsupported TPIDs, IPv4 with every IHL 0..15 and options, IPv6, IPv6-in-IPv4, TCP with every data offset 0..15, \
UDP, unknown EtherTypes/protocols, random bytes, truncation at a random offset, random corruption) x read-only access histories of 1..12 steps: every property name on every $0..$11, named chains \
(($0).eth.vlan.ipv4.tcp.payload ...) including mistyped layer accesses (.ipv4 on an IPv6 frame, .udp on TCP), repeated accesses, str()/len() of layer objects; each step is its own VM run on the same packet object. \
(truncation sweeps) golden frames cut at every byte offset, all layers touched. Oracle (identity): Vec<u8>::from(&PcapPacket) after every step == 16-byte little-endian record header || captured bytes; \
the same through scripts that pcap_write / write the packet into scratch files. Non-trivial: some access made an inner layer be parsed (depth >= 2) AND the frame has IPv4 options / IHL != 5 / a TCP header / \
a truncation inside a header / a mistyped access. Distinct by frame+history hash.",
    assumptions: &["packets are built through the verif_hooks constructor PcapPacket::verif_new (the pcap reader is C19's subject)", "filter-mode output is checked end to end under C20"],
    required_classes: &[("history", 10_000), ("frame:tcp", 2_000), ("frame:ipv4-options", 800), ("frame:truncated", 2_000), ("access:mistyped", 2_000), ("sweep", 1_000), ("file-output", 100)],
    exhaustive_when_sections: &[],
};

pub const ALL_PROPS: &[&str] = &[
    "magic", "major", "minor", "thiszone", "sigfigs", "snaplen", "linktype", "sec", "usec", "nsec", "caplen", "wirelen", "payload", "eth", "src", "dst", "type", "vlan", "id", "priority", "dei", "ipv4",
    "version", "ihl", "totlen", "dscp", "ecn", "flags", "fragoff", "ttl", "proto", "checksum", "udp", "srcport", "dstport", "len", "tcp", "seq", "ack", "dataoff", "winsize", "urgent", "ipv6",
    "trafficclass", "flowlabel", "nextheader", "hoplimit",
];

pub struct Access {
    pub text: String,
    pub depth: usize,
    pub mistyped: bool,
}

/// one read-only access expression
pub fn gen_access(c: &mut Choices, chain: &[Parsed]) -> Access {
    match c.below(10) {
        0..=3 => {
            // ($n).prop with a property that exists on that layer (mostly)
            let n = c.below(12);
            let prop = if n >= 1 && n - 1 < chain.len() && c.below(4) != 0 {
                let l = chain[n - 1].layer;
                let fs = fields_of(l);
                let mut names: Vec<&str> = fs.iter().map(|f| f.name).collect();
                names.push("payload");
                for lp in layer_props(l) {
                    names.push(lp.name());
                }
                names[c.below(names.len())].to_string()
            } else {
                c.pick(ALL_PROPS).to_string()
            };
            let is_layer_prop = ["eth", "vlan", "ipv4", "ipv6", "tcp", "udp"].contains(&prop.as_str());
            Access { text: format!("(${}).{}", n, prop), depth: n + if is_layer_prop { 1 } else { 0 }, mistyped: false }
        }
        4..=6 => {
            // named chain from the packet: follow the real layers, sometimes a wrong one
            let mut text = String::from("($0).eth");
            let mut depth = 1;
            let mut mistyped = false;
            let steps = c.below(5);
            for i in 0..steps {
                let parent = match chain.get(i) {
                    Some(p) => p.layer,
                    None => break,
                };
                let opts = layer_props(parent);
                if opts.is_empty() {
                    break;
                }
                let correct = chain.get(i + 1).map(|p| p.layer);
                let pick = if c.below(4) == 0 || correct.is_none() { opts[c.below(opts.len())] } else { correct.unwrap() };
                if Some(pick) != correct {
                    mistyped = true;
                }
                text.push('.');
                text.push_str(pick.name());
                depth += 1;
                if Some(pick) != correct {
                    break;
                }
            }
            if c.bool() {
                text.push_str(".payload");
            }
            Access { text, depth, mistyped }
        }
        7 => {
            let n = c.below(12);
            Access { text: format!("str(${})", n), depth: n, mistyped: false }
        }
        8 => {
            let n = c.below(8);
            Access { text: format!("len((${}).payload)", n), depth: n, mistyped: false }
        }
        _ => {
            let n = c.below(12);
            Access { text: format!("${}", n), depth: n, mistyped: false }
        }
    }
}

/// which layer (by reference parse) contains byte offset `off` of the frame
fn layer_at(chain: &[Parsed], off: usize) -> &'static str {
    let mut name = "payload";
    for p in chain {
        if off >= p.start && off < p.start + p.header_len {
            return p.layer.name();
        }
        if off >= p.start {
            name = "payload";
        }
    }
    name
}

pub fn diff_signature(chain: &[Parsed], expected: &[u8], got: &[u8]) -> String {
    let first = expected.iter().zip(got.iter()).position(|(a, b)| a != b).unwrap_or(expected.len().min(got.len()));
    let where_ = if first < 16 { "record-header" } else { layer_at(chain, first - 16) };
    let len = if got.len() < expected.len() {
        "shorter"
    } else if got.len() > expected.len() {
        "longer"
    } else {
        "same-length"
    };
    format!("bytes-altered:{}:{}", where_, len)
}

fn hex(b: &[u8]) -> String {
    b.iter().map(|x| format!("{:02x}", x)).collect()
}

pub fn unhex(s: &str) -> Vec<u8> {
    (0..s.len() / 2).filter_map(|i| u8::from_str_radix(&s[2 * i..2 * i + 2], 16).ok()).collect()
}

/// run a history of read-only accesses on one packet and check the identity after every step
pub fn check_history(ctx: &mut Ctx, section: &str, frame: &[u8], accesses: &[String]) -> Vec<Violation> {
    let (sec, usec) = (0x0102_0304u32, 0x0a0b_0c0du32);
    let caplen = frame.len() as u32;
    let wirelen = caplen + 7;
    let pkt = make_packet(sec, usec, caplen, wirelen, frame);
    let mut expected = record_header(sec, usec, caplen, wirelen);
    expected.extend_from_slice(frame);
    let (chain, _) = parse_chain(frame);
    let case = json!({"frame": hex(frame), "accesses": accesses});
    guard(section, "frame", &hex(frame));
    let mut out = Vec::new();
    for (i, a) in accesses.iter().enumerate() {
        match run_text_with_pkt(a, Rc::clone(&pkt)) {
            Outcome::Panic(p) => {
                out.push(Violation::new(section, p.signature(), format!("access `{}` crashed: {}\nframe: {}", a, p.describe(), hex(frame)), case.clone()));
                return out;
            }
            Outcome::ParseErrors(e) => {
                ctx.infra(format!("C15 harness: access `{}` does not parse: {:?}", a, e.first()));
                continue;
            }
            _ => {}
        }
        match packet_bytes(&pkt) {
            Ok(got) => {
                if got != expected {
                    out.push(Violation::new(
                        section,
                        diff_signature(&chain, &expected, &got),
                        format!(
                            "after the read-only access #{} `{}` the packet serialises differently\n expected: {}\n got:      {}\n history: {:?}",
                            i,
                            a,
                            hex(&expected),
                            hex(&got),
                            &accesses[..=i]
                        ),
                        case.clone(),
                    ));
                    return out;
                }
            }
            Err(p) => {
                out.push(Violation::new(section, p.signature(), format!("serialising after `{}` crashed: {}\nframe: {}", a, p.describe(), hex(frame)), case.clone()));
                return out;
            }
        }
    }
    out
}

fn file_output(ctx: &mut Ctx, frame: &[u8], accesses: &[String], idx: u64) -> Vec<Violation> {
    // the same identity through pcap_write and write into scratch files
    let dir = std::env::var("P2V_SCRATCH").unwrap_or_else(|_| "/dev/shm/p2v-scratch".into());
    let _ = std::fs::create_dir_all(&dir);
    let f1 = format!("{}/c15-{}.pcap", dir, idx % 4);
    let f2 = format!("{}/c15-{}.raw", dir, idx % 4);
    let _ = std::fs::remove_file(&f1);
    let _ = std::fs::remove_file(&f2);
    let (sec, usec) = (7u32, 9u32);
    let caplen = frame.len() as u32;
    let pkt = make_packet(sec, usec, caplen, caplen, frame);
    let mut expected = record_header(sec, usec, caplen, caplen);
    expected.extend_from_slice(frame);
    let mut script = String::new();
    for a in accesses {
        // accesses that raise a runtime error would end the script: keep the harmless ones
        if a.starts_with("($0).eth") || a.starts_with("str(") || a.starts_with("$") {
            script.push_str(a);
            script.push_str(";\n");
        }
    }
    script.push_str(&format!("let f = pcap_open(\"{}\", \"w\");\npcap_write(f, $0);\nlet g = open(\"{}\", \"w\");\nwrite(g, $0);\n0", f1, f2));
    let case = json!({"frame": hex(frame), "accesses": accesses, "file": true});
    let mut out = Vec::new();
    ctx.class("file-output");
    match run_text_with_pkt(&script, pkt) {
        Outcome::Ran(r) => {
            if r.err.is_some() {
                return out;
            }
            let a = std::fs::read(&f1).unwrap_or_default();
            let b = std::fs::read(&f2).unwrap_or_default();
            let (chain, _) = parse_chain(frame);
            if a.len() < 24 || a[24..] != expected[..] {
                let got = if a.len() >= 24 { a[24..].to_vec() } else { a.clone() };
                out.push(Violation::new("file-output", format!("pcap_write:{}", diff_signature(&chain, &expected, &got)), format!("pcap_write wrote {} instead of {}\n{}", hex(&got), hex(&expected), script), case.clone()));
            }
            if b != expected {
                out.push(Violation::new("file-output", format!("write:{}", diff_signature(&chain, &expected, &b)), format!("write wrote {} instead of {}\n{}", hex(&b), hex(&expected), script), case));
            }
        }
        Outcome::Panic(p) => out.push(Violation::new("file-output", p.signature(), format!("crash: {}\n{}", p.describe(), script), case)),
        _ => {}
    }
    out
}

/// filter-mode output: a stream of generated frames (also truncated / corrupted ones) run through a filter
/// program that only reads, then selects everything: the output stream must be the input stream
fn filter_output(ctx: &mut Ctx, bytes: &[u8]) -> Vec<Violation> {
    use super::super::e2e::{self, Opts, Stdin};
    use super::super::pcapfile::{fill, GHdr, PcapFile, Rec, MAGIC_NS, MAGIC_US};
    let mut c = Choices::new(bytes);
    let n = 1 + c.below(16);
    let mut recs = Vec::new();
    let mut first_chain = None;
    for i in 0..n {
        let fb = fill(c.u64(), 400);
        let mut fc = Choices::new(&fb);
        let f = gen_frame(&mut fc);
        if i == 0 {
            first_chain = Some(parse_chain(&f.bytes).0);
        }
        let wirelen = f.bytes.len() as u32 + c.below(100) as u32;
        recs.push(Rec { sec: c.u32(), usec: c.u32(), wirelen, data: f.bytes });
    }
    let chain = first_chain.unwrap_or_default();
    let mut body = String::new();
    let steps = 1 + c.below(8);
    for _ in 0..steps {
        let a = gen_access(&mut c, &chain);
        // accesses that can raise a runtime error would end the run: keep the ones that yield values or error objects
        if a.text.starts_with("($0).eth") || a.text.starts_with("str(") || a.text.starts_with('$') {
            body.push_str(&format!("  {};\n", a.text));
        }
    }
    let file = PcapFile { hdr: GHdr { magic: if c.bool() { MAGIC_US } else { MAGIC_NS }, major: 2, minor: 4, thiszone: c.u32() as i32, sigfigs: 0, snaplen: 262144, linktype: 1 }, recs };
    let input = file.bytes();
    let src = format!("@ {{\n{}}}\n@ true\n", body);
    ctx.case(hash_bytes(&input) ^ hash_bytes(src.as_bytes()), n >= 2 && !body.is_empty());
    ctx.class("filter-output");
    guard("filter-output", "src", &src);
    let path = e2e::script_file("c15-filter.p2", &src);
    let r = e2e::run(Opts::new(vec![path]).stdin(Stdin::Bytes(input.clone())));
    let case = json!({"filter_output": true, "src": src, "stream": hex(&input)});
    judge_filter_output(ctx, &r, &src, &input, &case)
}

fn judge_filter_output(ctx: &mut Ctx, r: &super::super::e2e::Run, src: &str, input: &[u8], case: &Value) -> Vec<Violation> {
    let mut out = Vec::new();
    if r.spawn_error.is_some() || r.timed_out {
        ctx.infra("C15: filter run failed to spawn or timed out".to_string());
        return out;
    }
    if let Some(c) = r.crashed() {
        out.push(Violation::new("filter-output", super::super::e2e::crash_signature(&c), format!("{}\n{}", c, src), case.clone()));
        return out;
    }
    if !r.stderr.is_empty() {
        // a runtime error ends the stream early: outside this property
        ctx.class("filter-output:runtime-error");
        return out;
    }
    if r.stdout != input {
        let d = r.stdout.iter().zip(input.iter()).position(|(a, b)| a != b).unwrap_or(r.stdout.len().min(input.len()));
        out.push(Violation::new(
            "filter-output",
            if r.stdout.len() == input.len() { "filter-output:bytes-altered" } else { "filter-output:length-differs" },
            format!("the filter program only reads, yet its output stream ({} bytes) differs from the input ({} bytes) at byte {}\n{}", r.stdout.len(), input.len(), d, src),
            case.clone(),
        ));
    }
    out
}

pub fn run(ctx: &mut Ctx) {
    {
        set_shrink_iters(60);
        let e2e_shards = 4.min(ctx.nshards);
        if ctx.shard < e2e_shards {
            drive(ctx, "filter-output", ctx.tier.pick(320, 12_000) / e2e_shards as u32, 32, 300, |ctx, bytes| filter_output(ctx, bytes));
        }
        set_shrink_iters(3000);
    }
    let n = ctx.nshards as u32;
    drive(ctx, "histories", ctx.tier.pick(60_000, 2_000_000) / n, 24, 400, |ctx, bytes| {
        let mut c = Choices::new(bytes);
        let f = gen_frame(&mut c);
        let (chain, _) = parse_chain(&f.bytes);
        let steps = 1 + c.below(12);
        let mut accesses = Vec::new();
        let mut deep = false;
        let mut mistyped = false;
        for _ in 0..steps {
            let a = gen_access(&mut c, &chain);
            if a.depth >= 2 {
                deep = true;
            }
            if a.mistyped {
                mistyped = true;
            }
            accesses.push(a.text);
        }
        let interesting = f.labels.iter().any(|l| matches!(*l, "tcp" | "ipv4-options" | "ipv4-ihl<5" | "truncated" | "ipv4-options-truncated" | "tcp-dataoff>5"));
        let mut h = f.bytes.clone();
        h.extend_from_slice(accesses.join(";").as_bytes());
        ctx.case(hash_bytes(&h), deep && (interesting || mistyped));
        ctx.class("history");
        for l in &f.labels {
            match *l {
                "tcp" => ctx.class("frame:tcp"),
                "ipv4-options" => ctx.class("frame:ipv4-options"),
                "truncated" => ctx.class("frame:truncated"),
                "ipv6" => ctx.class("frame:ipv6"),
                "vlan" => ctx.class("frame:vlan"),
                _ => {}
            }
        }
        if mistyped {
            ctx.class("access:mistyped");
        }
        if ctx.want_sample() && deep && interesting && ctx.res.evals % 211 == 5 {
            ctx.sample(json!({"frame": hex(&f.bytes), "labels": f.labels, "accesses": accesses}));
        }
        let mut vs = check_history(ctx, "histories", &f.bytes, &accesses);
        if vs.is_empty() && ctx.res.evals % 40 == 0 {
            vs.extend(file_output(ctx, &f.bytes, &accesses, ctx.res.evals));
        }
        vs
    });
    // truncation sweeps: golden stacks cut at every byte offset, all layers touched in order
    ctx.more_samples(1);
    let sweeps = ctx.tier.pick(40, 600);
    for k in 0..sweeps {
        if !ctx.mine(k as u64) {
            continue;
        }
        let seed = [k as u8, (k >> 8) as u8, 0x5a, 0xa5, 1, 2, 3, 4, 5, 6, 7, 8, 9, 10, 11, 12, 13, 14, 15, 16, 17, 18, 19, 20];
        let mut bytes: Vec<u8> = Vec::new();
        for i in 0..160 {
            bytes.push(seed[i % seed.len()].wrapping_mul(31).wrapping_add((i as u8).wrapping_mul(7)).wrapping_add(k as u8));
        }
        let mut c = Choices::new(&bytes);
        let full = super::super::frames::stack_frame(&mut c, (k % 8) as u8);
        for cut in 0..=full.len() {
            let frame = &full[..cut];
            let accesses: Vec<String> = ["$1", "$2", "$3", "$4", "$5", "($0).eth", "str($0)", "($1).type", "($2).payload", "($3).payload", "$2", "$1"].iter().map(|s| s.to_string()).collect();
            ctx.case(hash_bytes(frame) ^ k as u64, cut > 14);
            ctx.class("sweep");
            for v in check_history(ctx, "sweeps", frame, &accesses) {
                ctx.report(v);
            }
        }
    }
}

pub fn replay(section: &str, case: &Value, ctx: &mut Ctx) {
    if case.get("filter_output").is_some() {
        use super::super::e2e::{self, Opts, Stdin};
        let src = case["src"].as_str().unwrap_or("");
        let input = unhex(case["stream"].as_str().unwrap_or(""));
        let r = e2e::run(Opts::new(vec![e2e::script_file("c15-filter.p2", src)]).stdin(Stdin::Bytes(input.clone())));
        for v in judge_filter_output(ctx, &r, src, &input, case) {
            ctx.report(v);
        }
        return;
    }
    let frame = unhex(case["frame"].as_str().unwrap_or(""));
    let accesses: Vec<String> = case["accesses"].as_array().map(|a| a.iter().filter_map(|x| x.as_str().map(|s| s.to_string())).collect()).unwrap_or_default();
    let vs = if case.get("file").is_some() { file_output(ctx, &frame, &accesses, 0) } else { check_history(ctx, section, &frame, &accesses) };
    for v in vs {
        ctx.report(v);
    }
}
