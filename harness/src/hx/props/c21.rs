//! C21 — file reads return the file's bytes exactly once, in order, however chunked.

use serde_json::{json, Value};

use super::super::choices::{hash_bytes, hash_str, mix64, Choices};
use super::super::e2e::{self, Opts, Stdin};
use super::super::engine::*;
use super::super::p2::{run_text, Outcome, Val};
use super::super::pcapfile::{fill, scratch};
use super::super::pkt::{bytes_val, hex, unhex};
use super::Meta;

pub const META: Meta = Meta {
    rule: "(reads, proptest, in-process) a scratch file with generated content (binary; UTF-8 text with 1..4-byte characters and line lengths from 0 to beyond 8192; sizes 0..20000 clustered at 4095/4096/4097, 8191/8192/8193, 12288 +-1) \
and a history of 1..12 calls of read(f), read(f, n) (n in 0, 1, 2, 4095..4097, 8191..8193, remaining, remaining+5, random), read_line(f), read_to_string(f) on one handle (the text calls only on text content at a character boundary): every \
returned value must equal the next slice of the content (model: a cursor), read(f) and read_to_string(f) take everything that remains, calls at the end return [] / \"\". \
(stdin, e2e) the same histories on stdin of the real binary, fed through a pipe by a generated schedule of chunk sizes (1 byte .. everything) and pauses; the script copies what each call returned into an output file and prints the lengths. \
(writes, proptest, in-process) 1..5 episodes on one path, each a script that opens it with mode r/w/a/x (existing or missing), writes strings, byte arrays, single bytes, large repeated strings around the 8192-byte buffer and data read from another file, \
with or without flush; after every episode (program end) the file must hold exactly what the mode rules and the writes imply; write returns the number of bytes; (shared, proptest, in-process) two handles open on one file at once, the second or both in mode a, 2..8 flushed writes: the file must hold the writes in time order (appending = at the end the file has at that moment; a non-appending first handle writes only before the appender does). \
Non-trivial: content > 4096 bytes with >= 2 calls of different kinds, or >= 2 pipe chunks, or an episode on an existing file. Distinct by content hash + call sequence.",
    assumptions: &[
        "read_line / read_to_string on invalid UTF-8, read_to_string(stdin), negative counts, reads from a file that another handle is writing and positional (w/x) writes after another handle has extended the file are don't-care and not generated",
        "program end means normal termination; exit() with unflushed writers is not generated",
    ],
    required_classes: &[("reads", 5_000), ("reads:after-partial-buffer", 1_000), ("writes", 1_500), ("writes:mode-a-missing", 50), ("writes:mode-x-existing", 50), ("stdin", 150), ("stdin:multi-chunk", 80), ("shared:both-handles-wrote", 1_000)],
    exhaustive_when_sections: &[],
};

#[derive(Clone, Debug, PartialEq)]
pub enum Call {
    ReadAll,
    ReadN(usize),
    Line,
    ToString,
}

pub struct Content {
    pub bytes: Vec<u8>,
    pub text: bool,
}

fn pick_size(c: &mut Choices) -> usize {
    match c.below(12) {
        0 => 0,
        1 => 1 + c.below(40),
        2 => 4095 + c.below(3),
        3 => 8191 + c.below(3),
        4 => 12287 + c.below(3),
        5 => 16383 + c.below(3),
        6 => c.below(20000),
        7 => 4096 * (1 + c.below(4)) + c.below(200),
        _ => c.below(3000),
    }
}

pub fn gen_content(c: &mut Choices) -> Content {
    let size = pick_size(c);
    if c.chance(1, 3) {
        return Content { bytes: fill(c.u64(), size), text: false };
    }
    // text: lines of varied length, characters of 1..4 bytes
    let mut s = String::new();
    let alphabet: Vec<char> = "abcXYZ019 _-.,;éßλж日本語𝄞🙂\t".chars().collect();
    let crlf = c.chance(1, 6);
    let mut seed = c.u64();
    while s.len() < size {
        let line_len = match c.below(8) {
            0 => 0,
            1 => 8190 + c.below(6),
            2 => 4094 + c.below(6),
            3 => 1 + c.below(10),
            _ => c.below(200),
        };
        let wide = c.chance(1, 3);
        for _ in 0..line_len {
            seed = mix64(seed);
            let ch = if wide { alphabet[(seed % alphabet.len() as u64) as usize] } else { (b'a' + (seed % 26) as u8) as char };
            s.push(ch);
            if s.len() >= size + 8 {
                break;
            }
        }
        if s.len() < size || c.bool() {
            s.push_str(if crlf { "\r\n" } else { "\n" });
        }
    }
    if c.bool() && s.ends_with('\n') {
        s.pop();
    }
    Content { bytes: s.into_bytes(), text: true }
}

fn is_boundary(b: &[u8], p: usize) -> bool {
    p >= b.len() || (b[p] & 0xC0) != 0x80
}

pub fn gen_calls(c: &mut Choices, content: &Content, allow_to_string: bool) -> Vec<Call> {
    let n = 1 + c.below(12);
    let len = content.bytes.len();
    let mut p = 0usize;
    let mut calls = Vec::new();
    for _ in 0..n {
        let remaining = len - p;
        let textual_ok = content.text && is_boundary(&content.bytes, p);
        let call = match c.below(12) {
            0 => Call::ReadAll,
            1 | 2 if textual_ok => Call::Line,
            3 if textual_ok && allow_to_string => Call::ToString,
            4 => Call::ReadN(0),
            5 => Call::ReadN(1 + c.below(3)),
            6 => Call::ReadN([4095, 4096, 4097, 8191, 8192, 8193][c.below(6)]),
            7 => Call::ReadN(remaining),
            8 => Call::ReadN(remaining + 5),
            9 => Call::ReadN(c.below(len + 2)),
            _ => Call::ReadN(c.below(300)),
        };
        // advance the cursor of the model
        match &call {
            Call::ReadAll | Call::ToString => p = len,
            Call::ReadN(k) => p = (p + k).min(len),
            Call::Line => {
                p = match content.bytes[p..].iter().position(|b| *b == b'\n') {
                    Some(i) => p + i + 1,
                    None => len,
                }
            }
        }
        calls.push(call);
    }
    calls
}

/// the model: what each call returns
pub fn expected(content: &[u8], calls: &[Call]) -> Vec<Val> {
    let mut p = 0usize;
    let len = content.len();
    let mut out = Vec::new();
    for call in calls {
        match call {
            Call::ReadAll => {
                out.push(bytes_val(&content[p..]));
                p = len;
            }
            Call::ReadN(k) => {
                let e = (p + k).min(len);
                out.push(bytes_val(&content[p..e]));
                p = e;
            }
            Call::Line => {
                let e = match content[p..].iter().position(|b| *b == b'\n') {
                    Some(i) => p + i + 1,
                    None => len,
                };
                out.push(Val::Str(String::from_utf8_lossy(&content[p..e]).into_owned()));
                p = e;
            }
            Call::ToString => {
                out.push(Val::Str(String::from_utf8_lossy(&content[p..]).into_owned()));
                p = len;
            }
        }
    }
    out
}

fn call_src(handle: &str, c: &Call) -> String {
    match c {
        Call::ReadAll => format!("read({})", handle),
        Call::ReadN(n) => format!("read({}, {})", handle, n),
        Call::Line => format!("read_line({})", handle),
        Call::ToString => format!("read_to_string({})", handle),
    }
}

fn calls_json(calls: &[Call]) -> Value {
    json!(calls
        .iter()
        .map(|c| match c {
            Call::ReadAll => "read".to_string(),
            Call::ReadN(n) => format!("read:{}", n),
            Call::Line => "line".to_string(),
            Call::ToString => "tostring".to_string(),
        })
        .collect::<Vec<_>>())
}

fn calls_from(v: &Value) -> Vec<Call> {
    v.as_array()
        .map(|a| {
            a.iter()
                .filter_map(|x| x.as_str())
                .map(|s| match s {
                    "read" => Call::ReadAll,
                    "line" => Call::Line,
                    "tostring" => Call::ToString,
                    x => Call::ReadN(x.trim_start_matches("read:").parse().unwrap_or(0)),
                })
                .collect()
        })
        .unwrap_or_default()
}

fn short(v: &Val) -> String {
    match v {
        Val::Arr(a) => format!("<{} bytes> {}", a.len(), v.show().chars().take(80).collect::<String>()),
        Val::Str(s) => format!("<string of {} bytes> {:?}", s.len(), s.chars().take(40).collect::<String>()),
        o => o.show().chars().take(120).collect(),
    }
}

fn compare(section: &str, content: &[u8], calls: &[Call], got: &[Val], case: &Value) -> Option<Violation> {
    let want = expected(content, calls);
    if got.len() != want.len() {
        return Some(Violation::new(section, "log-length", format!("{} results for {} calls", got.len(), want.len()), case.clone()));
    }
    let mut p = 0usize;
    for (i, (g, w)) in got.iter().zip(want.iter()).enumerate() {
        if !g.same(w) {
            let wl = match w {
                Val::Arr(a) => a.len(),
                Val::Str(s) => s.len(),
                _ => 0,
            };
            let gl = match g {
                Val::Arr(a) => a.len() as i64,
                Val::Str(s) => s.len() as i64,
                _ => -1,
            };
            let kind = if gl < 0 {
                "wrong-kind-or-error"
            } else if (gl as usize) < wl {
                "short"
            } else if gl as usize > wl {
                "long"
            } else {
                "different-bytes"
            };
            let what = match &calls[i] {
                Call::ReadAll => "read",
                Call::ReadN(_) => "read-n",
                Call::Line => "read_line",
                Call::ToString => "read_to_string",
            };
            return Some(Violation::new(
                section,
                format!("{}:{}", what, kind),
                format!("call {} = {} at offset {} of {} bytes returned {}\nexpected {}\ncalls: {:?}", i, call_src("f", &calls[i]), p, content.len(), short(g), short(w), calls),
                case.clone(),
            ));
        }
        p += match w {
            Val::Arr(a) => a.len(),
            Val::Str(s) => s.len(),
            _ => 0,
        };
    }
    None
}

fn reads_case(ctx: &mut Ctx, bytes: &[u8]) -> Vec<Violation> {
    let mut c = Choices::new(bytes);
    let content = gen_content(&mut c);
    let calls = gen_calls(&mut c, &content, true);
    let kinds: Vec<_> = calls.iter().map(std::mem::discriminant).collect();
    let two = kinds.iter().any(|k| *k != kinds[0]);
    ctx.case(hash_bytes(&content.bytes) ^ hash_str(&format!("{:?}", calls)), content.bytes.len() > 4096 && two);
    ctx.class("reads");
    ctx.class(if content.text { "reads:text" } else { "reads:binary" });
    // a whole-rest call after a call that left the reader's buffer partly consumed
    for w in calls.windows(2) {
        if matches!(w[0], Call::Line | Call::ReadN(_)) && matches!(w[1], Call::ReadAll | Call::ToString | Call::ReadN(_)) && content.bytes.len() > 8192 {
            ctx.class("reads:after-partial-buffer");
            break;
        }
    }
    if ctx.want_sample() && two && content.bytes.len() > 8192 {
        ctx.sample(json!({"content_len": content.bytes.len(), "text": content.text, "calls": calls_json(&calls)}));
    }
    run_reads("reads", &content.bytes, &calls)
}

fn run_reads(section: &str, content: &[u8], calls: &[Call]) -> Vec<Violation> {
    let path = scratch("c21-in.dat");
    if std::fs::write(&path, content).is_err() {
        return vec![];
    }
    let mut src = format!("let f = open(\"{}\");\nlet log = [];\n", path);
    for c in calls {
        src.push_str(&format!("push(log, {});\n", call_src("f", c)));
    }
    src.push_str("log");
    let case = json!({"content": hex(content), "calls": calls_json(calls)});
    guard(section, "content", &format!("{} bytes, calls {:?}", content.len(), calls));
    let mut out = Vec::new();
    match run_text(&src) {
        Outcome::Ran(r) => match (&r.err, &r.last) {
            (Some((m, l)), _) => out.push(Violation::new(section, format!("runtime-error:{}", msg_class(m)), format!("line {}: {}\n{}", l, m, src), case)),
            (None, Val::Arr(log)) => {
                if let Some(v) = compare(section, content, calls, log, &case) {
                    out.push(v);
                }
            }
            (None, o) => out.push(Violation::new(section, "no-log", o.show(), case)),
        },
        Outcome::Panic(p) => out.push(Violation::new(section, p.signature(), p.describe(), case)),
        o => out.push(Violation::new(section, "harness:script-rejected", o.tag(), case)),
    }
    let _ = std::fs::remove_file(&path);
    out
}

// ---------------------------------------------------------------- stdin through a pipe

fn gen_schedule(c: &mut Choices, content: &[u8]) -> Vec<(Vec<u8>, u64)> {
    let mut chunks = Vec::new();
    let mut p = 0;
    let style = c.below(5);
    while p < content.len() {
        let n = match style {
            0 => content.len(),
            1 => 1 + c.below(7),
            2 => [4095, 4096, 4097, 8192][c.below(4)],
            3 => 1 + c.below(3000),
            _ => 1 + c.below(content.len()),
        };
        let e = (p + n).min(content.len());
        let pause = match c.below(4) {
            0 => 0,
            1 => 200,
            2 => 1500,
            _ => c.below(4000) as u64,
        };
        chunks.push((content[p..e].to_vec(), pause));
        p = e;
        if chunks.len() > 40 {
            chunks.push((content[p..].to_vec(), 0));
            break;
        }
    }
    chunks
}

fn stdin_case(ctx: &mut Ctx, bytes: &[u8]) -> Vec<Violation> {
    let mut c = Choices::new(bytes);
    let content = gen_content(&mut c);
    let calls = gen_calls(&mut c, &content, false);
    let sched = gen_schedule(&mut c, &content.bytes);
    ctx.case(hash_bytes(&content.bytes) ^ hash_str(&format!("{:?}{}", calls, sched.len())), sched.len() >= 2);
    ctx.class("stdin");
    if sched.len() >= 2 {
        ctx.class("stdin:multi-chunk");
    }
    if ctx.want_sample() && sched.len() >= 3 {
        ctx.sample(json!({"content_len": content.bytes.len(), "chunks": sched.iter().map(|(b, p)| json!([b.len(), p])).collect::<Vec<_>>(), "calls": calls_json(&calls)}));
    }
    run_stdin(ctx, &content.bytes, &calls, sched)
}

fn run_stdin(ctx: &mut Ctx, content: &[u8], calls: &[Call], sched: Vec<(Vec<u8>, u64)>) -> Vec<Violation> {
    let outp = scratch("c21-stdin-out.dat");
    let _ = std::fs::remove_file(&outp);
    let mut src = format!("let o = open(\"{}\", \"w\");\nlet lens = [];\nfn rec(v) {{ push(lens, len(v)); write(o, v); }}\n", outp);
    for c in calls {
        src.push_str(&format!("rec({});\n", call_src("stdin", c)));
    }
    src.push_str("eprintln(\"{}\", lens);\n");
    let script = e2e::script_file("c21-stdin.p2", &src);
    let case = json!({"stdin": true, "content": hex(content), "calls": calls_json(calls), "chunks": sched.iter().map(|(b, p)| json!([b.len(), p])).collect::<Vec<_>>()});
    guard("stdin", "content", &format!("{} bytes, calls {:?}", content.len(), calls));
    let r = e2e::run(Opts::new(vec![script]).stdin(Stdin::Chunks(sched)));
    let mut out = Vec::new();
    if r.spawn_error.is_some() || r.timed_out {
        ctx.infra(format!("C21 stdin run: spawn error / timeout ({:?})", r.spawn_error));
        return out;
    }
    if let Some(c) = r.crashed() {
        out.push(Violation::new("stdin", e2e::crash_signature(&c), c, case));
        return out;
    }
    let err = r.err_text();
    let lens: Option<Vec<usize>> = err.trim().strip_prefix('[').and_then(|s| s.strip_suffix(']')).map(|s| s.split(',').filter(|x| !x.trim().is_empty()).filter_map(|x| x.trim().parse().ok()).collect());
    let lens = match lens {
        Some(l) if l.len() == calls.len() => l,
        _ => {
            out.push(Violation::new("stdin", "stdin:script-failed", format!("stderr: {}\n{}", err.chars().take(400).collect::<String>(), src), case));
            return out;
        }
    };
    let written = std::fs::read(&outp).unwrap_or_default();
    if lens.iter().sum::<usize>() != written.len() {
        out.push(Violation::new("stdin", "stdin:output-file-incomplete", format!("the calls returned {} bytes in total but the output file (written with write, closed at program end) holds {}", lens.iter().sum::<usize>(), written.len()), case));
        return out;
    }
    let mut got = Vec::new();
    let mut p = 0;
    for (c, l) in calls.iter().zip(lens.iter()) {
        let piece = &written[p..p + l];
        got.push(match c {
            Call::Line | Call::ToString => Val::Str(String::from_utf8_lossy(piece).into_owned()),
            _ => bytes_val(piece),
        });
        p += l;
    }
    if let Some(mut v) = compare("stdin", content, calls, &got, &case) {
        v.sig = format!("stdin:{}", v.sig);
        out.push(v);
    }
    let _ = std::fs::remove_file(&outp);
    out
}

// ---------------------------------------------------------------- writes and open modes

#[derive(Clone, Debug)]
enum Data {
    Str(String),
    Repeat(String, usize),
    Bytes(Vec<u8>),
    Byte(u8),
    FromFile(Vec<u8>),
}

impl Data {
    fn bytes(&self) -> Vec<u8> {
        match self {
            Data::Str(s) => s.as_bytes().to_vec(),
            Data::Repeat(s, n) => s.as_bytes().repeat(*n),
            Data::Bytes(b) | Data::FromFile(b) => b.clone(),
            Data::Byte(b) => vec![*b],
        }
    }
}

#[derive(Clone, Debug)]
struct Episode {
    mode: char,
    writes: Vec<(Data, bool)>, // data, flush afterwards
}

fn gen_data(c: &mut Choices) -> Data {
    match c.below(8) {
        0 => Data::Str(["", "a", "hello world\n", "日本語 λ\n", "line1\nline2\n"][c.below(5)].to_string()),
        1 => Data::Repeat(["x", "ab", "0123456789", "é"][c.below(4)].to_string(), [8191, 8192, 8193, 4096, 819, 5000, 20000][c.below(7)] / 2 + c.below(3)),
        2 => Data::Repeat("Z".to_string(), [8191, 8192, 8193, 16384, 1][c.below(5)]),
        3 => Data::Bytes((0..c.below(12)).map(|_| c.byte()).collect()),
        4 => Data::Byte(c.byte()),
        5 => {
            let n = pick_size(c);
            Data::FromFile(fill(c.u64(), n))
        }
        _ => Data::Str(format!("w{}\n", c.below(1000))),
    }
}

fn writes_case(ctx: &mut Ctx, bytes: &[u8]) -> Vec<Violation> {
    let mut c = Choices::new(bytes);
    let path = scratch("c21-w.dat");
    let srcp = scratch("c21-src.dat");
    let _ = std::fs::remove_file(&path);
    // model of the file: None = missing
    let mut model: Option<Vec<u8>> = if c.bool() {
        let k = fill(c.u64(), c.below(300));
        let _ = std::fs::write(&path, &k);
        Some(k)
    } else {
        None
    };
    let existing_start = model.is_some();
    let n_ep = 1 + c.below(5);
    let mut episodes = Vec::new();
    for _ in 0..n_ep {
        let mode = ['w', 'a', 'x', 'r', 'a', 'w'][c.below(6)];
        let nw = c.below(5);
        let writes = (0..nw).map(|_| (gen_data(&mut c), c.chance(1, 4))).collect();
        episodes.push(Episode { mode, writes });
    }
    ctx.case(hash_bytes(bytes), existing_start || n_ep >= 2);
    ctx.class("writes");
    let mut out = Vec::new();
    let mut history = String::new();
    for (ei, ep) in episodes.iter().enumerate() {
        let existed = model.is_some();
        match (ep.mode, existed) {
            ('a', false) => ctx.class("writes:mode-a-missing"),
            ('x', true) => ctx.class("writes:mode-x-existing"),
            ('r', false) => ctx.class("writes:mode-r-missing"),
            ('w', true) => ctx.class("writes:mode-w-existing"),
            _ => {}
        }
        // expected outcome of open
        let open_ok = match ep.mode {
            'r' => existed,
            'x' => !existed,
            _ => true,
        };
        let mut src = format!("let f = open(\"{}\", \"{}\");\nlet log = [];\nif is_error(f) {{ push(log, \"open-error\"); }} else {{\n", path, ep.mode);
        let mut want_log: Vec<Val> = Vec::new();
        let mut appended: Vec<u8> = Vec::new();
        if ep.mode != 'r' {
            for (d, fl) in &ep.writes {
                match d {
                    Data::Str(s) => src.push_str(&format!("  push(log, write(f, \"{}\"));\n", s)),
                    Data::Repeat(s, n) => src.push_str(&format!("  push(log, write(f, \"{}\" * {}));\n", s, n)),
                    Data::Bytes(b) => src.push_str(&format!("  push(log, write(f, [{}]));\n", b.iter().map(|x| super::super::render::byte_lit(*x)).collect::<Vec<_>>().join(", "))),
                    Data::Byte(b) => src.push_str(&format!("  push(log, write(f, {}));\n", super::super::render::byte_lit(*b))),
                    Data::FromFile(b) => {
                        let sp = format!("{}.{}", srcp, want_log.len());
                        let _ = std::fs::write(&sp, b);
                        src.push_str(&format!("  push(log, write(f, read(open(\"{}\"))));\n", sp));
                    }
                }
                let b = d.bytes();
                want_log.push(Val::Int(b.len() as i64));
                appended.extend_from_slice(&b);
                if *fl {
                    // once flushed the bytes are in the file: a second handle opened now must see all of them
                    src.push_str(&format!("  flush(f);\n  push(log, len(read(open(\"{}\"))));\n", path));
                    let base = if ep.mode == 'a' { model.as_ref().map(|m| m.len()).unwrap_or(0) } else { 0 };
                    want_log.push(Val::Int((base + appended.len()) as i64));
                    ctx.class("writes:flush-then-read-back");
                }
            }
        } else {
            src.push_str("  push(log, read(f));\n");
            want_log.push(bytes_val(model.as_deref().unwrap_or(&[])));
        }
        src.push_str("}\nlog");
        history.push_str(&format!("--- episode {} (mode {}, file {} before)\n{}\n", ei, ep.mode, if existed { "exists" } else { "missing" }, if src.len() > 1500 { format!("{} …", &src.chars().take(1500).collect::<String>()) } else { src.clone() }));
        let case = json!({"writes": true, "seed": hex(bytes)});
        guard("writes", "episodes", &history);
        let outcome = run_text(&src);
        let log = match outcome {
            Outcome::Ran(r) => match (r.err, r.last) {
                (Some((m, l)), _) => {
                    out.push(Violation::new("writes", format!("runtime-error:{}", msg_class(&m)), format!("episode {} line {}: {}\n{}", ei, l, m, history), case));
                    break;
                }
                (None, Val::Arr(log)) => log,
                (None, o) => {
                    out.push(Violation::new("writes", "no-log", o.show(), case));
                    break;
                }
            },
            Outcome::Panic(p) => {
                out.push(Violation::new("writes", p.signature(), format!("{}\n{}", p.describe(), history), case));
                break;
            }
            o => {
                out.push(Violation::new("writes", "harness:script-rejected", format!("{}\n{}", o.tag(), src), case));
                break;
            }
        };
        let opened = !(log.len() == 1 && log[0].same(&Val::Str("open-error".into())));
        if opened != open_ok {
            let sig = format!("open-mode-{}:{}", ep.mode, if opened { "succeeds-but-must-fail" } else { "fails-but-must-succeed" });
            out.push(Violation::new("writes", sig, format!("open(path, \"{}\") on {} file {}\n{}", ep.mode, if existed { "an existing" } else { "a missing" }, if opened { "succeeded" } else { "returned an error object" }, history), case));
            break;
        }
        if open_ok {
            // the model after this episode
            match ep.mode {
                'w' | 'x' => model = Some(appended.clone()),
                'a' => {
                    let mut m = model.clone().unwrap_or_default();
                    m.extend_from_slice(&appended);
                    model = Some(m);
                }
                _ => {}
            }
            if !Val::Arr(want_log.clone()).same(&Val::Arr(log.clone())) {
                out.push(Violation::new("writes", format!("write-return:{}", ep.mode), format!("episode {}: the calls returned {} ; expected {}\n{}", ei, Val::Arr(log).show().chars().take(200).collect::<String>(), Val::Arr(want_log).show().chars().take(200).collect::<String>(), history), case));
                break;
            }
        }
        let on_disk = std::fs::read(&path).ok();
        if on_disk != model {
            let (gl, wl) = (on_disk.as_ref().map(|b| b.len() as i64).unwrap_or(-1), model.as_ref().map(|b| b.len() as i64).unwrap_or(-1));
            let kind = if gl < 0 { "missing" } else if wl < 0 { "created" } else if gl < wl { "bytes-lost" } else if gl > wl { "extra-bytes" } else { "different-bytes" };
            out.push(Violation::new("writes", format!("file-content:mode-{}:{}", ep.mode, kind), format!("after episode {} the file holds {} bytes, expected {} (-1 = no file)\n{}", ei, gl, wl, history), case));
            break;
        }
    }
    let _ = std::fs::remove_file(&path);
    for i in 0..24 {
        let _ = std::fs::remove_file(format!("{}.{}", srcp, i));
    }
    out
}

/// Two handles open on one file at the same time, the second (or both) in mode `a`: every flushed write of an
/// appending handle lands at the end the file has at that moment. A non-appending first handle does all its writes
/// before the appender's first one, so nothing is overwritten and the content is the writes in time order.
fn shared_case(ctx: &mut Ctx, bytes: &[u8]) -> Vec<Violation> {
    let mut c = Choices::new(bytes);
    let path = scratch("c21-shared.dat");
    let _ = std::fs::remove_file(&path);
    let base: Option<Vec<u8>> = if c.bool() {
        let k = fill(c.u64(), 1 + c.below(120));
        let _ = std::fs::write(&path, &k);
        Some(k)
    } else {
        None
    };
    let m1 = match c.below(4) {
        0 => 'w',
        1 if base.is_none() => 'x',
        _ => 'a',
    };
    let nops = 2 + c.below(7);
    let split = 1 + c.below(nops - 1);
    let mut ops: Vec<(usize, Data)> = Vec::new();
    for i in 0..nops {
        let h = if m1 == 'a' { c.below(2) } else if i < split { 0 } else { 1 };
        let d = loop {
            let d = gen_data(&mut c);
            if !matches!(d, Data::FromFile(_)) {
                break d;
            }
        };
        ops.push((h, d));
    }
    let mut want: Vec<u8> = if m1 == 'a' { base.clone().unwrap_or_default() } else { Vec::new() };
    let mut src = format!("let f0 = open(\"{}\", \"{}\");\nlet f1 = open(\"{}\", \"a\");\nlet log = [];\n", path, m1, path);
    let mut want_log: Vec<Val> = Vec::new();
    for (h, d) in &ops {
        let arg = match d {
            Data::Str(s) => format!("\"{}\"", s),
            Data::Repeat(s, n) => format!("\"{}\" * {}", s, n),
            Data::Bytes(b) => format!("[{}]", b.iter().map(|x| super::super::render::byte_lit(*x)).collect::<Vec<_>>().join(", ")),
            Data::Byte(b) => super::super::render::byte_lit(*b),
            Data::FromFile(_) => unreachable!(),
        };
        src.push_str(&format!("push(log, write(f{}, {}));\nflush(f{});\n", h, arg, h));
        let b = d.bytes();
        want_log.push(Val::Int(b.len() as i64));
        want.extend_from_slice(&b);
    }
    src.push_str("log");
    let both = ops.iter().any(|(h, _)| *h == 0) && ops.iter().any(|(h, _)| *h == 1);
    ctx.case(hash_bytes(bytes), both);
    ctx.class("shared");
    if both {
        ctx.class("shared:both-handles-wrote");
    }
    guard("shared", "src", &src);
    let case = json!({"shared": true, "seed": hex(bytes)});
    let mut out = Vec::new();
    match run_text(&src) {
        Outcome::Ran(r) => match (r.err, r.last) {
            (Some((m, l)), _) => out.push(Violation::new("shared", format!("runtime-error:{}", msg_class(&m)), format!("line {}: {}\n{}", l, m, src.chars().take(1500).collect::<String>()), case)),
            (None, log) => {
                let on_disk = std::fs::read(&path).unwrap_or_default();
                if !Val::Arr(want_log.clone()).same(&log) {
                    out.push(Violation::new("shared", "shared:write-return", format!("the writes returned {}, expected {}\n{}", short(&log), short(&Val::Arr(want_log)), src.chars().take(1500).collect::<String>()), case));
                } else if on_disk != want {
                    let kind = if on_disk.len() < want.len() { "bytes-lost" } else if on_disk.len() > want.len() { "extra-bytes" } else { "different-bytes" };
                    out.push(Violation::new(
                        "shared",
                        format!("shared:file-content:{}+a:{}", m1, kind),
                        format!("two handles (modes {} and a) on one file: it holds {} bytes, expected {} (the flushed writes in time order{})\n{}", m1, on_disk.len(), want.len(), if m1 == 'a' { " after the old content" } else { "" }, src.chars().take(1500).collect::<String>()),
                        case,
                    ));
                }
            }
        },
        Outcome::Panic(p) => out.push(Violation::new("shared", p.signature(), format!("{}\n{}", p.describe(), src.chars().take(1500).collect::<String>()), case)),
        o => out.push(Violation::new("shared", "harness:script-rejected", format!("{}\n{}", o.tag(), src.chars().take(800).collect::<String>()), case)),
    }
    let _ = std::fs::remove_file(&path);
    out
}

pub fn run(ctx: &mut Ctx) {
    let n = ctx.nshards as u32;
    drive(ctx, "reads", ctx.tier.pick(24_000, 800_000) / n, 32, 300, |ctx, b| reads_case(ctx, b));
    ctx.more_samples(2);
    drive(ctx, "writes", ctx.tier.pick(8_000, 300_000) / n, 32, 300, |ctx, b| writes_case(ctx, b));
    drive(ctx, "shared", ctx.tier.pick(4_000, 150_000) / n, 32, 200, |ctx, b| shared_case(ctx, b));
    // the e2e part is spread over few shards: process creation does not scale here
    set_shrink_iters(80);
    ctx.more_samples(2);
    let e2e_shards = 4.min(ctx.nshards);
    if ctx.shard < e2e_shards {
        drive(ctx, "stdin", ctx.tier.pick(600, 20_000) / e2e_shards as u32, 32, 300, |ctx, b| stdin_case(ctx, b));
    }
}

pub fn replay(section: &str, case: &Value, ctx: &mut Ctx) {
    if case.get("shared").is_some() {
        let seed = unhex(case["seed"].as_str().unwrap_or(""));
        for v in shared_case(ctx, &seed) {
            ctx.report(v);
        }
        return;
    }
    if case.get("writes").is_some() {
        let seed = unhex(case["seed"].as_str().unwrap_or(""));
        for v in writes_case(ctx, &seed) {
            ctx.report(v);
        }
        return;
    }
    let content = unhex(case["content"].as_str().unwrap_or(""));
    let calls = calls_from(&case["calls"]);
    if case.get("stdin").is_some() {
        let mut sched = Vec::new();
        let mut p = 0usize;
        for ch in case["chunks"].as_array().cloned().unwrap_or_default() {
            let n = ch[0].as_u64().unwrap_or(0) as usize;
            let e = (p + n).min(content.len());
            sched.push((content[p..e].to_vec(), ch[1].as_u64().unwrap_or(0)));
            p = e;
        }
        if p < content.len() {
            sched.push((content[p..].to_vec(), 0));
        }
        for v in run_stdin(ctx, &content, &calls, sched) {
            ctx.report(v);
        }
        return;
    }
    for v in run_reads(section, &content, &calls) {
        ctx.report(v);
    }
}
