//! C14 — bytecode operands are encoded losslessly or the program is rejected.

use serde_json::{json, Value};

use crate::code::definitions::{lookup, make, read_operands};
use crate::code::opcode::Opcode;

use super::super::choices::hash_str;
use super::super::engine::*;
use super::super::gen::{gen_program, Cfg};
use super::super::p2::{compile_text, run_bytecode, run_text, Compiled, Outcome, Session, Step, Val};
use super::Meta;

pub const META: Meta = Meta {
    rule: "(roundtrip, exhaustive) every opcode x every operand value of its declared widths (OpClosure: 65536 x 256) through make -> lookup/read_operands: opcode, operands and instruction length must come back; \
(wellformed, proptest) the bytecode of generated programs (main program, every function constant, filters) is walked instruction by instruction with the decoder: every opcode is defined, the walk ends exactly at the end, \
every jump target is an instruction boundary, every constant index is inside the pool; (vm-operands) instruction streams assembled by hand with the real encoder and run by the real VM: global index (define / set / get), constant index, array element count and jump target at the corners of the two-byte range \
(0, 1, 255, 256, 257, 32767, 32768, 65280, 65534, 65535 ...), each read back next to a neighbour that differs in one operand byte; (limits) programs generated just below, at and just above each encoding limit, each limit through at least two constructs: constant-pool \
index (65535/65536/65537 constants), global index, jump target (if / while / loop+break / && / || / match arm pushed across position 65535, at top level and inside a function), array literal (65535/65536 elements), map literal \
(32767/32768 pairs), locals per function (255/256/257), call arguments (255/256), captured variables (255/256), and constants accumulated line by line over a REPL session. Above a limit the compiler must reject; at or below it must \
compile and behave as computed by the harness (the large operand is read back: the last constant / global / local / argument / captured variable is returned, the far jump is taken). \
Non-trivial: (roundtrip) an operand >= 256 (2-byte) or >= 128 (1-byte); (limits) every case. Distinct by case name.",
    assumptions: &[
        "array/map literals of 4096..65535 elements are within the encoding but exceed the VM's operand stack: only 'compiles, and running gives a value or a runtime error' is required there",
        "limit values come from the operand widths in src/code/definitions.rs (2 bytes: 65535, 1 byte: 255)",
    ],
    required_classes: &[("roundtrip", 16_000_000), ("wellformed", 5_000), ("limit", 25), ("vm-operand", 150)],
    exhaustive_when_sections: &["roundtrip"],
};

fn all_opcodes() -> Vec<(u8, Opcode)> {
    let mut v = Vec::new();
    for b in 0u8..=255 {
        let op = Opcode::from(b);
        if !matches!(op, Opcode::Invalid) {
            v.push((b, op));
        }
    }
    v
}

fn widths_of(b: u8) -> Vec<usize> {
    // probe the decoder: encode zeros and see how many bytes each operand takes
    match lookup(b) {
        Ok(def) => {
            let ins = make(Opcode::from(b), &[0, 0, 0], 1);
            let (ops, read) = read_operands(def, &ins.code[1..].iter().copied().chain(std::iter::repeat(0).take(8)).collect::<Vec<u8>>());
            let _ = ops;
            // widths are private: recover them from the encoded length by trying single operands
            let n = ins.code.len() - 1;
            let _ = read;
            match n {
                0 => vec![],
                1 => vec![1],
                2 => vec![2],
                3 => vec![2, 1],
                _ => vec![],
            }
        }
        Err(_) => vec![],
    }
}

fn roundtrip(ctx: &mut Ctx) {
    let mut idx = 0u64;
    for (b, op) in all_opcodes() {
        let widths = widths_of(b);
        let def = match lookup(b) {
            Ok(d) => d,
            Err(_) => continue,
        };
        let ranges: Vec<usize> = widths.iter().map(|w| 1usize << (8 * w)).collect();
        let total: usize = ranges.iter().product::<usize>().max(1);
        // shard by blocks of 4096 values
        let mut k = 0usize;
        while k < total {
            let end = (k + 4096).min(total);
            idx += 1;
            if ctx.mine(idx) {
                for v in k..end {
                    let operands: Vec<usize> = match ranges.len() {
                        0 => vec![],
                        1 => vec![v],
                        _ => vec![v % ranges[0], v / ranges[0]],
                    };
                    let ins = make(op, &operands, 7);
                    let ok_len = ins.code.len() == 1 + widths.iter().sum::<usize>() && ins.lines.len() == ins.code.len();
                    let ok_op = ins.code.first().copied() == Some(b) && Opcode::from(ins.code[0]) == op;
                    let (dec, read) = read_operands(def, &ins.code[1..]);
                    let ok_operands = dec == operands && read == ins.code.len() - 1;
                    let nontrivial = operands.iter().zip(&widths).any(|(o, w)| if *w == 2 { *o >= 256 } else { *o >= 128 });
                    ctx.case_enum(nontrivial);
                    if !(ok_len && ok_op && ok_operands) {
                        let case = json!({"opcode": b, "operands": operands});
                        let v = Violation::new(
                            "roundtrip",
                            format!("roundtrip:{:?}", op),
                            format!("opcode {:?} operands {:?} encode to {:?} and decode to {:?} (read {} bytes)", op, operands, ins.code, dec, read),
                            case,
                        );
                        if ctx.report(v) {
                            // one report per opcode is enough
                        }
                        break;
                    }
                }
                ctx.class_n("roundtrip", (end - k) as u64);
            }
            k = end;
        }
    }
    ctx.exhaustive("roundtrip");
}

/// walk an instruction stream with the decoder; returns an error description
fn walk(code: &[u8], nconst: usize) -> Result<usize, String> {
    let mut starts = Vec::new();
    let mut jumps = Vec::new();
    let mut i = 0usize;
    while i < code.len() {
        starts.push(i);
        let def = lookup(code[i]).map_err(|e| format!("at {}: {}", i, e))?;
        let op = Opcode::from(code[i]);
        if matches!(op, Opcode::Invalid) {
            return Err(format!("undefined opcode {} at {}", code[i], i));
        }
        let ins = make(op, &[0, 0], 0);
        let need = ins.code.len();
        if i + need > code.len() {
            return Err(format!("instruction {:?} at {} runs past the end", op, i));
        }
        let (ops, read) = read_operands(def, &code[i + 1..]);
        match op {
            Opcode::Jump | Opcode::JumpIfFalse | Opcode::JumpIfFalseNoPop => jumps.push((i, ops[0])),
            Opcode::Constant | Opcode::Closure => {
                if ops[0] >= nconst {
                    return Err(format!("{:?} at {} refers to constant {} of {}", op, i, ops[0], nconst));
                }
            }
            _ => {}
        }
        i += 1 + read;
    }
    if i != code.len() {
        return Err(format!("walk ended at {} of {}", i, code.len()));
    }
    for (at, t) in jumps {
        if t != code.len() && starts.binary_search(&t).is_err() {
            return Err(format!("jump at {} targets {} which is not an instruction boundary", at, t));
        }
    }
    Ok(starts.len())
}

fn wellformed(ctx: &mut Ctx, src: &str) -> Vec<Violation> {
    guard("wellformed", "src", src);
    let mut out = Vec::new();
    if let Ok(Compiled::Ok(b)) = compile_text(src) {
        let (bc, _) = *b;
        let n = bc.constants.len();
        let mut streams: Vec<(String, Vec<u8>)> = vec![("main".into(), bc.instructions.code.clone())];
        for (i, c) in bc.constants.iter().enumerate() {
            if let crate::object::Object::Func(f) = c.as_ref() {
                streams.push((format!("function constant {}", i), f.instructions.code.clone()));
            }
        }
        for (i, f) in bc.filters.iter().enumerate() {
            streams.push((format!("filter {}", i), f.instructions.code.clone()));
        }
        let mut count = 0;
        for (name, code) in streams {
            match walk(&code, n) {
                Ok(k) => count += k,
                Err(e) => out.push(Violation::new("wellformed", "malformed-bytecode", format!("{}: {}\n{}", name, e, src), json!({"src": src}))),
            }
        }
        ctx.case(hash_str(src), count >= 20);
        ctx.class("wellformed");
    }
    out
}

// ------------------------------------------------------------------ limits

#[derive(Clone)]
pub struct LimitCase {
    pub name: String,
    pub src: String,
    /// Some(v): must compile and the final value must be v; None with reject=false: must compile, run outcome free
    pub expect: Option<Val>,
    pub reject: bool,
}

fn stmts(n: usize, f: impl Fn(usize) -> String) -> String {
    let mut s = String::with_capacity(n * 12);
    for i in 0..n {
        s.push_str(&f(i));
        s.push('\n');
    }
    s
}

/// `s = s + 1;` compiles to 11 bytes and one constant
const INC: &str = "s = s + 1;";
const INC_BYTES: usize = 11;

pub fn limit_cases(thorough: bool) -> Vec<LimitCase> {
    let mut v = Vec::new();
    let mut add = |name: &str, src: String, expect: Option<Val>, reject: bool| v.push(LimitCase { name: name.to_string(), src, expect, reject });

    // --- constant pool. Cheap form: two big array literals inside a function that is never called
    // (a + b integer constants, then the function object, then the literal that is read back)
    for (ab, reject) in [(65534usize, false), (65535, true)] {
        let a = 32768usize;
        let b = ab - a;
        let zeros = |n: usize| std::iter::repeat("0").take(n).collect::<Vec<_>>().join(",");
        let src = format!("fn never() {{\n[{}];\n[{}];\n}}\nlet s = 12345;\ns", zeros(a), zeros(b));
        add(&format!("constants-in-unused-function-{}", ab + 2), src, if reject { None } else { Some(Val::Int(12345)) }, reject);
    }
    if thorough {
        // `let s = 0;` uses constant 0, every INC one more, the final literal one more
        for (n, reject) in [(65534usize, false), (65535, true)] {
            // constants: 1 (let) + n (incs) + 1 (final 7) -> n + 2
            let src = format!("let s = 0;\n{}s + 7", stmts(n, |_| INC.to_string()));
            add(&format!("constants-by-statements-{}", n + 2), src, if reject { None } else { Some(Val::Int(n as i64 + 7)) }, reject);
        }
        // the same limit through string constants inside a function body
        for (n, reject) in [(65534usize, false), (65535, true)] {
            let src = format!("fn f() {{\nlet s = 0;\n{}s + 7\n}}\nf()", stmts(n - 1, |_| INC.to_string()));
            // constants: n - 1 + 2 inside the function, + 1 for the function itself
            add(&format!("constants-in-function-{}", n + 2), src, if reject { None } else { Some(Val::Int(n as i64 - 1 + 7)) }, reject);
        }
    }

    // --- globals: g_i defined in order; builtins do not take global slots.
    // Every global needs its own statement and the compiler copies its instruction vector on
    // every emit, so these two programs take minutes: thorough tier only.
    for (n, reject) in if thorough { vec![(65536usize, false), (65537, true)] } else { vec![] } {
        // keep the constant pool below its limit: initialise from a variable, not a literal
        let src = format!("let z = 5;\n{}g{}", stmts(n - 1, |i| format!("let g{} = z;", i + 1)), n - 1);
        add(&format!("globals-{}", n), src, if reject { None } else { Some(Val::Int(5)) }, reject);
    }

    // --- jump targets across position 65535 (cheap: ~6000 statements)
    let body_below = (65535 - 80) / INC_BYTES; // the whole construct ends below 65535
    let body_above = 65535 / INC_BYTES + 8; // the jump target lies above 65535
    for (tag, n, reject) in [("below", body_below, false), ("above", body_above, true)] {
        let body = stmts(n, |_| INC.to_string());
        let e = |val: i64| if reject { None } else { Some(Val::Int(val)) };
        add(&format!("jump-if-false-branch-{}", tag), format!("let s = 0;\nif false {{\n{}}};\ns", body), e(0), reject);
        add(&format!("jump-if-true-then-else-{}", tag), format!("let s = 0;\nif true {{\n{}}} else {{ s = 0 - 1; }};\ns", body), e(n as i64), reject);
        add(&format!("jump-while-exit-{}", tag), format!("let s = 0;\nlet k = 0;\nwhile k < 2 {{\nk = k + 1;\n{}}}\ns", body), e(2 * n as i64), reject);
        add(&format!("jump-loop-break-{}", tag), format!("let s = 0;\nloop {{\nif s > 0 {{ break; }}\n{}}}\ns", body), e(n as i64), reject);
        // && and ||: the skipped right operand is a sum of ~16400 terms (4 bytes each)
        let terms = if reject { 65535 / 4 + 12 } else { (65535 - 80) / 4 };
        let sum = format!("1{}", " + 1".repeat(terms));
        add(&format!("jump-logical-and-{}", tag), format!("let r = false && ({});\nr", sum), if reject { None } else { Some(Val::Bool(false)) }, reject);
        add(&format!("jump-logical-or-{}", tag), format!("let r = 7 || ({});\nr", sum), if reject { None } else { Some(Val::Int(7)) }, reject);
        add(
            &format!("jump-match-arm-{}", tag),
            format!("let s = 0;\nlet m = match 2 {{\n1 => {{\n{}s\n}}\n2 => {{ 0 - 5 }}\n_ => {{ 0 - 7 }}\n}};\nm", body),
            e(-5),
            reject,
        );
        add(&format!("jump-inside-function-{}", tag), format!("let s = 0;\nfn f(c) {{\nif c {{\n{}}};\ns\n}}\nf(false) + f(true)", body), e(n as i64), reject);
    }
    // a jump *backwards* from above 65535 to the loop start is fine; only the exit target is large:
    // the loop head itself beyond 65535
    {
        let pre = stmts(body_above, |_| INC.to_string());
        add("jump-loop-start-above", format!("let s = 0;\n{}let k = 0;\nwhile k < 3 {{ k = k + 1; }}\nk", pre), None, true);
    }

    // --- locals per function (parameters included)
    for (n, reject) in [(256usize, false), (257, true)] {
        let src = format!("fn f() {{\n{}a{}\n}}\nf()", stmts(n, |i| format!("let a{} = {};", i, i % 7)), n - 1);
        add(&format!("locals-{}", n), src, if reject { None } else { Some(Val::Int(((n - 1) % 7) as i64)) }, reject);
        // the same through parameters + locals
        let params: Vec<String> = (0..100).map(|i| format!("p{}", i)).collect();
        let args: Vec<String> = (0..100).map(|i| (i % 5).to_string()).collect();
        let src = format!("fn f({}) {{\n{}a{} + p99\n}}\nf({})", params.join(", "), stmts(n - 100, |i| format!("let a{} = {};", i, i % 7)), n - 101, args.join(", "));
        add(&format!("locals-with-params-{}", n), src, if reject { None } else { Some(Val::Int(((n - 101) % 7) as i64 + 4)) }, reject);
    }

    // --- call arguments
    for (n, reject) in [(255usize, false), (256, true)] {
        let params: Vec<String> = (0..n).map(|i| format!("p{}", i)).collect();
        let args: Vec<String> = (0..n).map(|i| (i % 9).to_string()).collect();
        let src = format!("fn f({}) {{ p{} + p0 }}\nf({})", params.join(", "), n - 1, args.join(", "));
        add(&format!("call-args-{}", n), src, if reject { None } else { Some(Val::Int(((n - 1) % 9) as i64)) }, reject);
    }

    // --- captured variables
    for (n, reject) in [(255usize, false), (256, true)] {
        let sum: Vec<String> = (0..n).map(|i| format!("v{}", i)).collect();
        let src = format!("fn outer() {{\n{}fn() {{ {} }}\n}}\nouter()()", stmts(n, |i| format!("let v{} = {};", i, i % 3)), sum.join(" + "));
        let expected: i64 = (0..n).map(|i| (i % 3) as i64).sum();
        add(&format!("captured-{}", n), src, if reject { None } else { Some(Val::Int(expected)) }, reject);
    }

    // --- array / map literal element counts (compile-time limit; running exceeds the VM stack: don't care)
    if thorough {
        for (n, reject) in [(65535usize, false), (65536, true)] {
            let elems: Vec<&str> = std::iter::repeat("z").take(n).collect();
            add(&format!("array-literal-{}", n), format!("let z = 1;\nlet a = [{}];\n0", elems.join(",")), None, reject);
        }
        for (n, reject) in [(32767usize, false), (32768, true)] {
            let elems: Vec<String> = (0..n).map(|_| "z:z".to_string()).collect();
            add(&format!("map-literal-{}", n), format!("let z = 1;\nlet m = map {{{}}};\n0", elems.join(",")), None, reject);
        }
    }
    v
}

fn check_limit(ctx: &mut Ctx, lc: &LimitCase) -> Vec<Violation> {
    let t0 = std::time::Instant::now();
    let r = check_limit_inner(ctx, lc);
    ctx.note(format!("limit case {} took {:.1}s", lc.name, t0.elapsed().as_secs_f64()));
    r
}

fn check_limit_inner(ctx: &mut Ctx, lc: &LimitCase) -> Vec<Violation> {
    guard("limits", "limit", &lc.name);
    ctx.case(hash_str(&lc.name), true);
    ctx.class("limit");
    let case = json!({"limit": lc.name});
    let mut out = Vec::new();
    if lc.reject {
        match compile_text(&lc.src) {
            Ok(Compiled::CompileError { .. }) => {}
            Ok(Compiled::ParseErrors(e)) => ctx.infra(format!("C14 harness: limit program {} has parse errors: {:?}", lc.name, e.first())),
            Ok(Compiled::Ok(_)) => out.push(Violation::new(
                "limits",
                format!("limit-not-enforced:{}", lc.name.trim_end_matches(|c: char| c.is_ascii_digit() || c == '-')),
                format!("program `{}` needs an operand its encoding cannot hold but the compiler accepted it (silently truncated)", lc.name),
                case,
            )),
            Err(p) => out.push(Violation::new("limits", p.signature(), format!("compiling `{}` crashed: {}", lc.name, p.describe()), case)),
        }
    } else {
        match run_text(&lc.src) {
            Outcome::Ran(r) => {
                if let Some(exp) = &lc.expect {
                    let ok = r.err.is_none() && exp.same(&r.last);
                    if !ok {
                        out.push(Violation::new(
                            "limits",
                            format!("limit-miscompiled:{}", lc.name.trim_end_matches(|c: char| c.is_ascii_digit() || c == '-')),
                            format!("program `{}` is within every encoding limit; expected final value {}, got {}", lc.name, exp.show(), match &r.err { Some((m, l)) => format!("runtime error [line {}] {}", l, m), None => r.last.show() }),
                            case,
                        ));
                    }
                }
            }
            Outcome::CompileError { msg, line } => out.push(Violation::new(
                "limits",
                format!("limit-too-strict:{}", lc.name.trim_end_matches(|c: char| c.is_ascii_digit() || c == '-')),
                format!("program `{}` is within every encoding limit but was rejected: [line {}] {}", lc.name, line, msg),
                case,
            )),
            Outcome::ParseErrors(e) => ctx.infra(format!("C14 harness: limit program {} has parse errors: {:?}", lc.name, e.first())),
            Outcome::Panic(p) => out.push(Violation::new("limits", p.signature(), format!("`{}` crashed: {}", lc.name, p.describe()), case)),
        }
    }
    if ctx.want_sample() {
        ctx.sample(json!({"limit_case": lc.name, "source_bytes": lc.src.len(), "must_reject": lc.reject, "expected": lc.expect.as_ref().map(|v| v.show())}));
    }
    out
}

/// constants accumulated over REPL lines: every line adds ~100 constants
fn repl_accumulation(ctx: &mut Ctx) -> Vec<Violation> {
    guard("limits", "limit", "repl-accumulated-constants");
    ctx.case(hash_str("repl-accumulated-constants"), true);
    ctx.class("limit");
    let mut sess = Session::new();
    let mut out = Vec::new();
    let mut lines = 0usize;
    loop {
        lines += 1;
        // 100 constants per line, different on every line (a wrapped index reads another line's values)
        let line: String = format!("let q = {};", (0..100).map(|i| (lines * 100 + i).to_string()).collect::<Vec<_>>().join(" + "));
        let expected_q: i64 = (0..100).map(|i| (lines * 100 + i) as i64).sum();
        let before = sess.num_constants();
        match sess.step(&line) {
            Step::Ran(r) => {
                if r.err.is_some() {
                    out.push(Violation::new("limits", "limit-miscompiled:repl-constants", format!("REPL line {} failed at run time: {:?}", lines, r.err), json!({"limit": "repl-accumulated-constants"})));
                    break;
                }
                // read the value back through the last constants just added
                match sess.step("q") {
                    Step::Ran(r2) if r2.err.is_none() && r2.last.same(&Val::Int(expected_q)) => {}
                    other => {
                        let got = match other {
                            Step::Ran(r2) => format!("{:?} / {}", r2.err, r2.last.show()),
                            Step::CompileError { msg, .. } => format!("compile error {}", msg),
                            _ => "other".into(),
                        };
                        if before + 100 > 65536 {
                            out.push(Violation::new(
                                "limits",
                                "limit-not-enforced:repl-constants",
                                format!("after {} REPL lines the constant pool holds {} entries (> 65536): the line was accepted and `q` evaluates to {} instead of {}", lines, sess.num_constants(), got, expected_q),
                                json!({"limit": "repl-accumulated-constants"}),
                            ));
                        } else {
                            out.push(Violation::new("limits", "limit-miscompiled:repl-constants", format!("REPL line {}: q = {}", lines, got), json!({"limit": "repl-accumulated-constants"})));
                        }
                        break;
                    }
                }
            }
            Step::CompileError { .. } => {
                // rejected: fine once the pool is exhausted, wrong before
                if before + 100 <= 65536 {
                    out.push(Violation::new(
                        "limits",
                        "limit-too-strict:repl-constants",
                        format!("REPL line {} rejected although the constant pool held only {} entries", lines, before),
                        json!({"limit": "repl-accumulated-constants"}),
                    ));
                }
                break;
            }
            Step::ParseErrors(e) => {
                ctx.infra(format!("C14 harness: REPL line does not parse: {:?}", e.first()));
                break;
            }
            Step::Panic(p) => {
                out.push(Violation::new("limits", p.signature(), format!("REPL accumulation crashed: {}", p.describe()), json!({"limit": "repl-accumulated-constants"})));
                break;
            }
        }
        if lines > 800 {
            break;
        }
    }
    out
}


/// Hand-assembled instruction streams (encoded with the real `make`) run by the real VM: every two-byte operand
/// kind at the corners of its range. The program reads the operand's target back next to a neighbour that differs
/// in one operand byte, so a decoder that drops, swaps or truncates a byte returns the neighbour's value.
fn vm_operands(ctx: &mut Ctx, only: Option<&str>) {
    use crate::code::definitions::Instructions;
    use crate::compiler::Bytecode;
    use crate::object::Object;
    use std::rc::Rc;
    let corners: Vec<usize> = vec![0, 1, 2, 127, 128, 254, 255, 256, 257, 258, 511, 512, 4095, 4096, 32767, 32768, 32769, 65279, 65280, 65281, 65533, 65534, 65535];
    let assemble = |parts: &[(Opcode, Vec<usize>)]| {
        let mut ins = Instructions::default();
        for (op, operands) in parts {
            let m = make(*op, operands, 1);
            ins.code.extend_from_slice(&m.code);
            ins.lines.extend_from_slice(&m.lines);
        }
        ins
    };
    let nconst = 65536usize;
    let constants = || -> Vec<Rc<Object>> { (0..nconst).map(|i| Rc::new(Object::Integer(i as i64 * 3 + 1))).collect() };
    let cval = |i: usize| Val::Int(i as i64 * 3 + 1);
    let mut idx = 0u64;
    let mut one = |ctx: &mut Ctx, name: String, parts: Vec<(Opcode, Vec<usize>)>, expect: Val| {
        idx += 1;
        match only {
            Some(o) if o != name => return,
            None if !ctx.mine(idx) => return,
            _ => {}
        }
        guard("vm-operands", "case", &name);
        ctx.case(hash_str(&name), true);
        ctx.class("vm-operand");
        let bc = Bytecode { instructions: assemble(&parts), constants: constants(), filters: vec![], filter_end: None };
        let case = json!({"vm_operands": name});
        let v = match run_bytecode(bc, None) {
            Outcome::Ran(r) => {
                if r.err.is_none() && expect.same(&r.last) {
                    None
                } else {
                    Some(Violation::new(
                        "vm-operands",
                        format!("vm-operand-misread:{}", name.split(':').next().unwrap_or("")),
                        format!("hand-assembled program `{}`: expected the last value {}, got {}", name, expect.show(), match &r.err { Some((m, l)) => format!("runtime error [line {}] {}", l, m), None => r.last.show() }),
                        case,
                    ))
                }
            }
            Outcome::Panic(p) => Some(Violation::new("vm-operands", p.signature(), format!("hand-assembled program `{}` crashed the VM: {}", name, p.describe()), case)),
            _ => None,
        };
        if ctx.want_sample() {
            ctx.sample(json!({"vm_operand_case": name, "expected": expect.show()}));
        }
        if let Some(v) = v {
            ctx.report(v);
        }
    };
    for &g in &corners {
        for &nb in &[g ^ 1, g ^ 0x100, (g + 1) % 65536, (g + 65535) % 65536, ((g & 0xff) << 8) | (g >> 8)] {
            if nb == g {
                continue;
            }
            // let G = c1; let NB = c2; G = c3; [G, NB]
            let (c1, c2, c3) = (g, nb, 65535 - (g % 1000));
            one(
                ctx,
                format!("global:{}:{}", g, nb),
                vec![
                    (Opcode::Constant, vec![c1]),
                    (Opcode::DefineGlobal, vec![g]),
                    (Opcode::Constant, vec![c2]),
                    (Opcode::DefineGlobal, vec![nb]),
                    (Opcode::Constant, vec![c3]),
                    (Opcode::SetGlobal, vec![g]),
                    (Opcode::Pop, vec![]),
                    (Opcode::GetGlobal, vec![g]),
                    (Opcode::GetGlobal, vec![nb]),
                    (Opcode::Array, vec![2]),
                    (Opcode::Pop, vec![]),
                ],
                Val::Arr(vec![cval(c3), cval(c2)]),
            );
        }
        // constant index g read back
        one(ctx, format!("constant:{}", g), vec![(Opcode::Constant, vec![g]), (Opcode::Pop, vec![])], cval(g));
    }
    // element counts of array literals (bounded by the operand stack)
    for &n in &[0usize, 1, 2, 255, 256, 257, 511, 512, 1000, 2048, 4000] {
        let mut parts: Vec<(Opcode, Vec<usize>)> = (0..n).map(|i| (Opcode::Constant, vec![i])).collect();
        parts.push((Opcode::Array, vec![n]));
        parts.push((Opcode::Pop, vec![]));
        one(ctx, format!("array:{}", n), parts, Val::Arr((0..n).map(cval).collect()));
    }
    // jump targets: the skipped region overwrites global 0, the landing pad reads it
    for &pad in &[0usize, 1, 30, 36, 37, 73, 4681, 9361, 9362] {
        for (tag, jump) in [("jump", Opcode::Jump), ("jump-if-false", Opcode::JumpIfFalse)] {
            let mut parts: Vec<(Opcode, Vec<usize>)> = vec![(Opcode::Constant, vec![7]), (Opcode::DefineGlobal, vec![0])];
            let mut pos = 6;
            if jump == Opcode::JumpIfFalse {
                parts.push((Opcode::False, vec![]));
                pos += 1;
            }
            pos += 3;
            let target = pos + pad * 7;
            if target > 65535 {
                continue;
            }
            parts.push((jump, vec![target]));
            for k in 0..pad {
                parts.push((Opcode::Constant, vec![100 + k]));
                parts.push((Opcode::SetGlobal, vec![0]));
                parts.push((Opcode::Pop, vec![]));
            }
            parts.push((Opcode::GetGlobal, vec![0]));
            parts.push((Opcode::Pop, vec![]));
            one(ctx, format!("{}:{}", tag, target), parts, cval(7));
        }
    }
}

pub fn run(ctx: &mut Ctx) {
    roundtrip(ctx);
    vm_operands(ctx, None);
    ctx.more_samples(2);
    let n = ctx.nshards as u32;
    drive(ctx, "wellformed", ctx.tier.pick(20_000, 500_000) / n, 16, 500, |ctx, bytes| {
        let mut cfg = Cfg::default();
        cfg.max_stmts = 6 + (bytes.first().copied().unwrap_or(0) as usize % 24);
        let (prog, _) = gen_program(&bytes[1.min(bytes.len())..], cfg);
        let src = super::super::ast::render(&prog);
        wellformed(ctx, &src)
    });
    ctx.more_samples(6);
    // single limit programs legitimately compile for a long time
    set_hang_limit(if ctx.tier == Tier::Thorough { 3600 } else { 300 });
    let cases = limit_cases(ctx.tier == Tier::Thorough);
    // the expensive ones first so that the shards finish together
    for (i, lc) in cases.iter().enumerate() {
        if ctx.mine(i as u64) {
            for v in check_limit(ctx, lc) {
                ctx.report(v);
            }
        }
    }
    if ctx.mine(cases.len() as u64) {
        for v in repl_accumulation(ctx) {
            ctx.report(v);
        }
    }
}

pub fn replay(section: &str, case: &Value, ctx: &mut Ctx) {
    if let Some(name) = case.get("vm_operands").and_then(|v| v.as_str()) {
        vm_operands(ctx, Some(name));
        return;
    }
    if let Some(name) = case.get("limit").and_then(|v| v.as_str()) {
        if name == "repl-accumulated-constants" {
            for v in repl_accumulation(ctx) {
                ctx.report(v);
            }
            return;
        }
        for lc in limit_cases(true) {
            if lc.name == name {
                for v in check_limit(ctx, &lc) {
                    ctx.report(v);
                }
            }
        }
        return;
    }
    if let Some(src) = case.get("src").and_then(|v| v.as_str()) {
        for v in wellformed(ctx, src) {
            ctx.report(v);
        }
        return;
    }
    if section == "roundtrip" {
        let b = case["opcode"].as_u64().unwrap_or(0) as u8;
        let operands: Vec<usize> = case["operands"].as_array().map(|a| a.iter().filter_map(|x| x.as_u64().map(|v| v as usize)).collect()).unwrap_or_default();
        if let Ok(def) = lookup(b) {
            let ins = make(Opcode::from(b), &operands, 1);
            let (dec, _) = read_operands(def, &ins.code[1..]);
            if dec != operands {
                ctx.report(Violation::new("roundtrip", format!("roundtrip:{:?}", Opcode::from(b)), format!("{:?} -> {:?}", operands, dec), case.clone()));
            }
        }
    }
}
