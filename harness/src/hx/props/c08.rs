//! C08 — execution never crashes: failures surface as runtime errors.

use serde_json::{json, Value};

use super::super::choices::{hash_str, mix64, Choices};
use super::super::e2e::{self, Opts, Stdin};
use super::super::engine::*;
use super::super::gen::{gen_program, Cfg};
use super::super::ops::{BINOPS, UNOPS};
use super::super::p2::{run_text, Outcome};
use super::super::pcapfile::{fill, scratch, GHdr, PcapFile, Rec, MAGIC_US};
use super::Meta;

pub const META: Meta = Meta {
    rule: "(calls, in-process under catch_unwind) every builtin of the real BUILTINFNS table x arity 0..3 x a pool of 60 boundary values (null, booleans, 0, +-1, 64, 65, 255, 256, 4096, i64 MIN/MAX, +-0.0, inf, NaN, strings incl. format \
specifiers and numerals, chars, bytes, empty / sorted / mixed / nested arrays, maps, a function, a builtin, reader / writer / pcap handles, a packet, an error object, stdin/stdout/stderr): all values at arity 1, all ordered pairs at arity 2, \
a pseudo-random sample of triples; (operators) every binary / unary operator on all pairs of the pool's scalars and containers; (programs, proptest) the C02 generator with 15% deliberately ill-typed or failing operations; \
(stress) templates for unbounded direct / mutual / closure recursion, deep non-tail recursion, functions with 200..300 locals and parameters, calls with wrong arity, calls of non-functions, long operator chains and nested literals; \
(filters, e2e through the real binary with a pcap stream on stdin) break / continue / return in filter actions, filters nested in functions / blocks / loops, failing patterns and actions, non-boolean patterns, recursion inside actions, exit(n) \
in the prologue, in an action and in the end filter, on normal, empty and garbage streams. Oracle: the run ends as a value or a reported runtime / compile error (in-process: no panic; e2e: no signal, no panic text, status 0 or the one requested by exit); \
non-trivial = the call or program reaches the builtin / operator with arguments of an unexpected kind or boundary magnitude (everything except the all-plain-values cases). Distinct by source text.",
    assumptions: &[
        "requests for more memory than the machine has (string/array repetition and format widths above 2^22) and printing self-containing containers are excluded by construction, as the statement allows",
        "exit(n) is only exercised end to end (in-process it would end the worker); sleep with a positive duration is not called",
        "hangs are reported by the watchdog as inconclusive (exit 2), not as violations, except sleep with a negative argument whose prompt return is checked end to end",
    ],
    required_classes: &[("call", 100_000), ("operator", 20_000), ("program", 10_000), ("stress", 80), ("filter-run", 100), ("exit-status", 20)],
    exhaustive_when_sections: &["calls", "operators"],
};

const POOL: &[&str] = &[
    "null", "true", "false", "0", "1", "-1", "2", "64", "65", "255", "256", "4096", "9223372036854775807", "(-9223372036854775807 - 1)", "1.5", "-0.0", "(1e308 * 10.0)", "((1e308 * 10.0) - (1e308 * 10.0))", "1e-320",
    "\"\"", "\"a\"", "\"abc\"", "\"日本\"", "\"{}\"", "\"{:>5}\"", "\"{0}{1}\"", "\"{18446744073709551615}\"", "\"{99999999999999999999:x}\"", "\"{1:*<3}{\"", "\"r\"", "\"w\"", "\"10\"", "\"-5\"", "\"1e3\"", "\"0x10\"", "'a'", "'√'", "b'a'", "byte(0)", "byte(255)",
    "[]", "[1, 2, 3]", "[3, 1, 2]", "[\"b\", \"a\"]", "['a', 'b']", "[b'a', b'b']", "[[1], [2]]", "[1, \"a\"]", "[1.5, 0.5]", "map {}", "map {\"a\": 1}", "map {1: [1]}",
    "fn(x) { x }", "len", "FR", "FW", "PR", "PW", "PK", "ER", "stdin", "stdout", "stderr",
];

fn prologue_for(src: &str) -> String {
    let mut p = String::new();
    let small = scratch("c08-small.txt");
    let valid = scratch("c08-valid.pcap");
    if src.contains("FR") {
        p.push_str(&format!("let FR = open(\"{}\");\n", small));
    }
    if src.contains("FW") {
        p.push_str(&format!("let FW = open(\"{}\", \"w\");\n", scratch("c08-out.txt")));
    }
    if src.contains("PR") {
        p.push_str(&format!("let PR = pcap_open(\"{}\");\n", valid));
    }
    if src.contains("PW") {
        p.push_str(&format!("let PW = pcap_open(\"{}\", \"w\");\n", scratch("c08-out.pcap")));
    }
    if src.contains("PK") {
        p.push_str(&format!("let PK = pcap_read_next(pcap_open(\"{}\"));\n", valid));
    }
    if src.contains("ER") {
        p.push_str("let ER = open(\"/nonexistent/c08\");\n");
    }
    p
}

fn prepare() {
    let _ = std::fs::write(scratch("c08-small.txt"), "line one\nline two\n");
    let mut b = fill(3, 60);
    b[12] = 0x08;
    b[13] = 0x00;
    b[14] = 0x45;
    b[23] = 17;
    let f = PcapFile { hdr: GHdr { magic: MAGIC_US, major: 2, minor: 4, thiszone: 0, sigfigs: 0, snaplen: 65535, linktype: 1 }, recs: vec![Rec { sec: 1, usec: 2, wirelen: 60, data: b.clone() }, Rec { sec: 3, usec: 4, wirelen: 60, data: b }] };
    let _ = std::fs::write(scratch("c08-valid.pcap"), f.bytes());
    // relative paths used by generated calls land in the scratch directory
    let _ = std::env::set_current_dir(scratch(""));
}

fn plain(v: &str) -> bool {
    matches!(v, "0" | "1" | "2" | "64" | "\"a\"" | "\"abc\"" | "[1, 2, 3]" | "true" | "false")
}

fn excluded(name: &str, args: &[&str]) -> bool {
    match name {
        // ends the worker process; exercised end to end
        "exit" => args.len() == 1 && args[0].chars().next().map(|c| c.is_ascii_digit() || c == '-' || c == '(').unwrap_or(false) && !args[0].contains('.') && !args[0].contains("e3"),
        // would really sleep
        "sleep" => args.len() == 1 && matches!(args[0], "1" | "2" | "64" | "65" | "255" | "256" | "4096" | "9223372036854775807"),
        _ => false,
    }
}

fn run_one(ctx: &mut Ctx, section: &str, body: &str, class: &str, nontrivial: bool) {
    let src = format!("{}{}", prologue_for(body), body);
    ctx.case(hash_str(&src), nontrivial);
    ctx.class(class);
    guard(section, "src", &src);
    let outcome = run_text(&src);
    if ctx.want_sample() && nontrivial && ctx.res.evals % 1009 == 17 {
        let ended = match &outcome {
            Outcome::Ran(r) => match &r.err {
                Some((m, _)) => format!("runtime error: {}", m),
                None => format!("value {}", r.last.show().chars().take(60).collect::<String>()),
            },
            o => o.tag(),
        };
        ctx.sample(json!({"section": section, "program": body, "ended_as": ended}));
    }
    match outcome {
        Outcome::Panic(p) => {
            ctx.report(Violation::new(section, p.signature(), format!("{}\n--- program\n{}", p.describe(), src), json!({"src": body})));
        }
        Outcome::Ran(r) => {
            if r.err.is_some() {
                ctx.class_n("ended:runtime-error", 1);
            } else {
                ctx.class_n("ended:value", 1);
            }
        }
        _ => ctx.class_n("ended:static-error", 1),
    }
}

fn calls(ctx: &mut Ctx) {
    let names: Vec<&'static str> = crate::builtins::functions::BUILTINFNS.iter().map(|b| b.name).collect();
    let mut idx = 0u64;
    for name in &names {
        // arity 0 and 1
        idx += 1;
        if ctx.mine(idx) && !excluded(name, &[]) {
            run_one(ctx, "calls", &format!("{}()", name), "call", true);
        }
        for a in POOL {
            idx += 1;
            if !ctx.mine(idx) || excluded(name, &[a]) {
                continue;
            }
            run_one(ctx, "calls", &format!("{}({})", name, a), "call", !plain(a));
        }
        for a in POOL {
            for b in POOL {
                idx += 1;
                if !ctx.mine(idx) || excluded(name, &[a, b]) {
                    continue;
                }
                run_one(ctx, "calls", &format!("{}({}, {})", name, a, b), "call", !(plain(a) && plain(b)));
            }
        }
        let triples = ctx.tier.pick(600u64, 20_000);
        for k in 0..triples {
            idx += 1;
            if !ctx.mine(idx) {
                continue;
            }
            let h = mix64(k ^ hash_str(name) ^ ctx.seed);
            let (a, b, c) = (POOL[(h % POOL.len() as u64) as usize], POOL[((h >> 16) % POOL.len() as u64) as usize], POOL[((h >> 32) % POOL.len() as u64) as usize]);
            if excluded(name, &[a, b, c]) {
                continue;
            }
            run_one(ctx, "calls", &format!("{}({}, {}, {})", name, a, b, c), "call", true);
        }
        // four and five arguments
        idx += 1;
        if ctx.mine(idx) {
            run_one(ctx, "calls", &format!("{}(1, 2, 3, 4)", name), "call", true);
            run_one(ctx, "calls", &format!("{}(\"{{}}\", [], null, 1.5, FR)", name), "call", true);
        }
    }
    ctx.exhaustive("calls");
}

fn operators(ctx: &mut Ctx) {
    let mut idx = 0u64;
    let huge = |op: &str, a: &str, b: &str| -> bool {
        // repetition counts that ask for more memory than exists
        op == "*" && [a, b].iter().any(|v| matches!(*v, "9223372036854775807" | "4096" | "256" | "255" | "65" | "64")) && [a, b].iter().any(|v| v.starts_with('"') || v.starts_with('['))
            && [a, b].iter().any(|v| *v == "9223372036854775807")
    };
    for op in BINOPS.iter().chain(["&&", "||"].iter()) {
        for a in POOL {
            for b in POOL {
                idx += 1;
                if !ctx.mine(idx) || huge(op, a, b) {
                    continue;
                }
                run_one(ctx, "operators", &format!("({}) {} ({})", a, op, b), "operator", !(plain(a) && plain(b)));
            }
        }
    }
    for op in UNOPS.iter() {
        for a in POOL {
            idx += 1;
            if ctx.mine(idx) {
                run_one(ctx, "operators", &format!("{}({})", op, a), "operator", !plain(a));
            }
        }
    }
    // indexing and assignment through an index
    for a in POOL {
        for b in POOL {
            idx += 1;
            if !ctx.mine(idx) {
                continue;
            }
            run_one(ctx, "operators", &format!("({})[{}]", a, b), "operator", true);
            run_one(ctx, "operators", &format!("let x = {}; x[{}] = 1; x", a, b), "operator", true);
        }
    }
    ctx.exhaustive("operators");
}

fn stress(ctx: &mut Ctx) {
    let mut t: Vec<String> = vec![
        "fn f(n) { f(n + 1) } f(0)".into(),
        "fn f(n) { 1 + f(n + 1) } f(0)".into(),
        "fn f(n) { g(n) } fn g(n) { f(n + 1) } f(0)".into(),
        "let f = fn(n) { n }; let g = fn(h, n) { h(h, n + 1) }; g(g, 0)".into(),
        "fn f(n) { let a = [n, n, n]; let m = map {n: a}; f(n + 1) + len(a) } f(0)".into(),
        "fn f(n) { if n == 0 { 0 } else { 1 + f(n - 1) } } f(900)".into(),
        "fn f(n) { if n == 0 { 0 } else { 1 + f(n - 1) } } f(100000)".into(),
        "fn f(a, b) { a + b } f(1)".into(),
        "fn f(a, b) { a + b } f(1, 2, 3)".into(),
        "fn f() { 1 } f(1)".into(),
        "let f = fn(a) { a }; f()".into(),
        "let x = 5; x(1)".into(),
        "\"s\"(1)".into(),
        "null()".into(),
        "[1, 2](0)".into(),
        "len(len)".into(),
        "let a = [fn() { 1 / 0 }]; a[0]()".into(),
        "loop { let a = [1][5]; }".into(),
        "let i = 0; while i < 100000 { i = i + 1; } i".into(),
        "let s = \"\"; let i = 0; while i < 20000 { s = s + \"x\"; i = i + 1; } len(s)".into(),
        "let a = []; let i = 0; while i < 100000 { push(a, i); i = i + 1; } len(a)".into(),
        "let m = map {}; let i = 0; while i < 20000 { m[i] = i; i = i + 1; } len(m)".into(),
        "match 5 { 1 => 1, _ => [1][9] }".into(),
        "fn f() { return f; } f()()()()()".into(),
    ];
    // sorting arrays that mix kinds without an order between them, in several arrangements and lengths
    for n in [3usize, 20, 21, 40, 64, 100, 300] {
        for mix in [
            "push(a, i); push(a, str(i));",
            "push(a, str(i)); push(a, n - i);",
            "if i % 3 == 0 { push(a, null); } else { push(a, (i * 7919) % 101); }",
            "push(a, (i * 31) % 17); push(a, [i]); push(a, 1.5 * i);",
            "push(a, i * 0.5); push(a, (1e308 * 10.0) - (1e308 * 10.0)); push(a, n - i);",
            "push(a, char(97 + i % 26)); push(a, \"s\"); push(a, byte(i % 256));",
            "push(a, i % 2 == 0); push(a, i % 5);",
            "push(a, (i * 7919) % 1009);",
        ] {
            t.push(format!("let n = {}; let a = []; let i = 0; while i < n {{ {} i = i + 1; }} len(sort(a))", n, mix));
        }
    }
    for n in [1usize, 200, 250, 254, 255, 256, 257, 300] {
        let locals: String = (0..n).map(|i| format!("let v{} = {}; ", i, i)).collect();
        t.push(format!("fn f() {{ {} v0 + v{} }} f()", locals, n - 1));
        let params: Vec<String> = (0..n).map(|i| format!("p{}", i)).collect();
        let args: Vec<String> = (0..n).map(|i| i.to_string()).collect();
        t.push(format!("fn f({}) {{ p0 + p{} }} f({})", params.join(", "), n - 1, args.join(", ")));
        t.push(format!("len([{}])", args.join(", ")));
        t.push(format!("{{ {} v{} }}", locals, n - 1));
        t.push(format!("fn f() {{ {} fn() {{ v0 + v{} }} }} f()()", locals, n - 1));
        // a closure that captures every one of them
        let all: Vec<String> = (0..n).map(|i| format!("v{}", i)).collect();
        t.push(format!("fn f() {{ {} fn() {{ {} }} }} f()()", locals, all.join(" + ")));
        t.push(format!("fn f(a) {{ {} fn(b) {{ fn() {{ a + b + {} }} }} }} f(1)(2)()", locals, all.join(" + ")));
    }
    for n in [10usize, 100, 1000, 5000] {
        t.push((0..n).map(|i| i.to_string()).collect::<Vec<_>>().join(" + "));
        t.push((0..n).map(|_| "1").collect::<Vec<_>>().join(" - "));
        t.push(format!("{}1{}", "-".repeat(n.min(1000)), ""));
        t.push(format!("{}true", "!".repeat(n.min(1000))));
    }
    for n in [10usize, 50, 150] {
        t.push(format!("{}1{}", "[".repeat(n), "]".repeat(n)));
        t.push(format!("{}1{}", "(".repeat(n), ")".repeat(n)));
        t.push(format!("{} 1 {}", "{ ".repeat(n), " }".repeat(n)));
        t.push(format!("{} 7 {}", "if true { ".repeat(n), " }".repeat(n)));
        t.push(format!("let f = {} 1 {}; f{}", "fn() { ".repeat(n), " }".repeat(n), "()".repeat(n)));
    }
    for (i, s) in t.iter().enumerate() {
        if ctx.mine(i as u64) {
            run_one(ctx, "stress", s, "stress", true);
        }
    }
}

fn program_case(ctx: &mut Ctx, bytes: &[u8]) -> Vec<Violation> {
    let mut cfg = Cfg::default();
    let b = bytes.first().copied().unwrap_or(0);
    cfg.max_stmts = 4 + (b as usize % 24);
    cfg.p_fail = 150;
    let (prog, _) = gen_program(&bytes[1.min(bytes.len())..], cfg);
    // the reference only serves to keep memory requests out (repetition by huge counts)
    let src = super::super::ast::render(&prog);
    guard("programs", "src-before-reference", &src);
    let rr = super::super::progcheck::reference(&prog, 200_000);
    // (after an unspecified `int * string` the reference no longer knows the sizes involved)
    if super::super::progcheck::memory_risk(&rr, &src) {
        ctx.excluded(1);
        return vec![];
    }
    ctx.case(hash_str(&src), true);
    ctx.class("program");
    guard("programs", "src", &src);
    match run_text(&src) {
        // `capacity overflow` is how a request for more memory than can exist surfaces (excluded by the statement);
        // it is only reachable here when the reference had lost track of the values before the repetition
        Outcome::Panic(p) if p.msg.contains("capacity overflow") => {
            ctx.excluded(1);
            ctx.class("excluded:memory-request");
            vec![]
        }
        Outcome::Panic(p) => vec![Violation::new("programs", p.signature(), format!("{}\n--- program\n{}", p.describe(), src), json!({"src": src}))],
        _ => vec![],
    }
}

// ---------------------------------------------------------------- filters through the real binary

fn stream() -> Vec<u8> {
    let mut b = fill(5, 64);
    b[12] = 0x08;
    b[13] = 0x00;
    let f = PcapFile { hdr: GHdr { magic: MAGIC_US, major: 2, minor: 4, thiszone: 0, sigfigs: 0, snaplen: 65535, linktype: 1 }, recs: (0..3).map(|i| Rec { sec: i, usec: i, wirelen: 64, data: b.clone() }).collect() };
    f.bytes()
}

/// three Ethernet / IPv4 / UDP frames
fn layer_stream() -> Vec<u8> {
    let mut b = vec![0x66, 0x77, 0x88, 0x99, 0xaa, 0xbb, 0x00, 0x11, 0x22, 0x33, 0x44, 0x55, 0x08, 0x00];
    b.extend_from_slice(&[0x45, 0, 0, 36, 0, 1, 0, 0, 64, 17, 0, 0, 10, 0, 0, 1, 10, 0, 0, 2]);
    b.extend_from_slice(&[0x04, 0xd2, 0x00, 0x35, 0, 16, 0, 0]);
    b.extend_from_slice(b"payload!");
    let f = PcapFile { hdr: GHdr { magic: MAGIC_US, major: 2, minor: 4, thiszone: 0, sigfigs: 0, snaplen: 65535, linktype: 1 }, recs: (0..3).map(|i| Rec { sec: i, usec: i, wirelen: b.len() as u32, data: b.clone() }).collect() };
    f.bytes()
}

fn filter_programs() -> Vec<(String, Option<i32>)> {
    let mut v: Vec<(String, Option<i32>)> = Vec::new();
    let actions = [
        "return 5;", "return;", "break;", "continue;", "loop { break; }", "let i = 0; while i < 3 { i = i + 1; if i == 2 { continue; } }", "if NP > 1 { return; }", "let f = fn() { return 3; }; f();",
        "1 / 0;", "[1][5];", "undefined_fn_value();", "fn g(n) { g(n + 1) } g(0);", "NP();", "($9).x;", "($1).nosuch;", "($0).caplen = \"x\";", "($1).type = -1;", "($1).src = \"zz\";", "let a = []; push(a, a);",
        "exit(3);", "exit(0);", "exit(256 + 7);", "exit(-1);", "puts(1 / 0);", "@ true { puts(2); }", "fn h() { @ NP > 1 { puts(3); } } h();", "loop { @ true { break; } break; }",
    ];
    for a in actions {
        let code = a.strip_prefix("exit(").and_then(|r| r.strip_suffix(");")).and_then(|e| match e {
            "3" => Some(3),
            "0" => Some(0),
            "256 + 7" => Some(7),
            "-1" => Some(255),
            _ => None,
        });
        v.push((format!("@ true {{ {} }}\n", a), code));
        v.push((format!("@ NP == 2 {{ {} }}\n@ true\n", a), code));
        v.push((format!("@ end {{ {} }}\n", a), code));
        v.push((format!("let n = 0;\n@ {{ n = n + 1; }}\n@ end {{ {} eprintln(\"{{}}\", n); }}\n", a), code));
    }
    let patterns = ["1", "null", "\"s\"", "[1]", "1 / 0", "NP", "NP + \"a\"", "($1).type", "undefined()", "fn() { true }", "($7).ttl > 1", "PL / 0 > 1", "true && 5"];
    for p in patterns {
        v.push((format!("@ {}\n", p), None));
        v.push((format!("@ {} {{ eprintln(\"x\"); }}\n", p), None));
    }
    // two constructs in one action (a nested filter next to a jump, a function next to a return ...)
    let parts = [
        "@ true { eprintln(\"n\"); }", "return 1;", "return;", "break;", "continue;", "let f = fn() { return 3; }; f();", "fn h() { @ NP > 1 { eprintln(\"h\"); } } h();", "loop { break; }", "if NP > 1 { return; }",
        "let z = [1][0];", "{ @ end { return; } }", "while false { @ true { continue; } }",
    ];
    for a in parts {
        for b in parts {
            v.push((format!("@ true {{ {} {} }}\n", a, b), None));
        }
    }
    // filters inside functions that use the function's locals / parameters; failing filters followed by others and by end
    for p in [
        "fn g() { let x = 5; @ x > 0 { eprintln(\"{}\", x); } } g();",
        "fn g(p) { @ true { eprintln(\"{}\", p); } } g(1);",
        "fn g(p) { let q = p; let h = fn() { @ q > 0 }; h(); } g(1);",
        "fn g(p) { { let q = p; @ NP > q } } g(1);",
        "let y = 1; fn g(p) { @ y > 0 { let z = 2; eprintln(\"{}\", y + z); } } g(1);",
        "fn r() { r() }\n@ true { r(); }\n@ end { eprintln(\"e\"); }",
        "fn r(n) { 1 + r(n + 1) }\n@ r(0) > 0\n@ true\n@ end { let a = 1; eprintln(\"{}\", a); }",
        "@ true { [1][5]; }\n@ true { let b = 2; }\n@ end { let a = 1; eprintln(\"{}\", a); }",
        "@ NP == 2 { fn r() { r() } r(); }\n@ true\n@ end { eprintln(\"e\"); }",
    ] {
        v.push((format!("{}\n", p), None));
    }
    // the main program fails, filters with locals follow
    for pre in ["fn f() { f() } f();", "fn f(n) { 1 + f(n + 1) } f(0);", "[1][9];", "let a = [1, 2, 3]; a[5] = 1;", "undefined_name;"] {
        v.push((format!("{}\n@ true {{ let a = 1; let b = [a, a]; eprintln(\"{{}}\", b); }}\n@ NP > 1\n@ end {{ let c = 2; eprintln(\"{{}}\", c); }}\n", pre), None));
    }
    for pre in ["exit(4);", "1 / 0;", "fn f() { @ true } f();", "{ @ true { eprintln(\"b\"); } }", "if true { @ NP > 0 }", "while false { @ true }", "let f = fn() { @ true };", "@ true\n@ true\n@ end { }\n@ end { }"] {
        let code = if pre == "exit(4);" { Some(4) } else { None };
        v.push((format!("{}\n@ true {{ eprintln(\"{{}}\", NP); }}\n", pre), code));
    }
    v
}

fn filters(ctx: &mut Ctx) {
    let progs = filter_programs();
    let good = stream();
    let garbage = fill(77, 50);
    let e2e_shards = 4.min(ctx.nshards);
    if ctx.shard >= e2e_shards {
        return;
    }
    let stride = ctx.tier.pick(3u64, 1);
    for (i, (src, code)) in progs.iter().enumerate() {
        if (i as u64) % e2e_shards as u64 != ctx.shard as u64 {
            continue;
        }
        for (k, (input, silent)) in [(&good, false), (&good, true), (&Vec::new(), false), (&garbage, true)].iter().enumerate() {
            // quick tier: the full stream always, the other inputs for every third program
            if k > 0 && (i as u64 + k as u64 + ctx.seed) % stride != 0 {
                continue;
            }
            ctx.case(hash_str(src) ^ k as u64, true);
            ctx.class("filter-run");
            let path = e2e::script_file("c08.p2", src);
            let mut args = vec![];
            if *silent {
                args.push("-s".to_string());
            }
            args.push(path);
            let r = e2e::run(Opts::new(args).stdin(Stdin::Bytes((*input).clone())));
            let case = json!({"filter": true, "src": src, "input": k, "code": code});
            if r.spawn_error.is_some() {
                ctx.infra("C08: spawn failed".to_string());
                continue;
            }
            if r.timed_out {
                ctx.infra(format!("C08: filter program timed out: {}", src));
                continue;
            }
            if let Some(c) = r.crashed() {
                ctx.report(Violation::new("filters", e2e::crash_signature(&c), format!("{}\n--- program (input {})\n{}", c, k, src), case));
                continue;
            }
            // the status requested by exit, when the exit is reached (a normal stream has packets)
            let want = if k < 2 || src.starts_with("exit(4)") || src.starts_with("@ end") { *code } else { None };
            if k < 2 {
                if let Some(w) = want {
                    ctx.class("exit-status");
                    if r.code != Some(w) {
                        ctx.report(Violation::new("filters", "exit-status", format!("exit status {:?}, requested {}\n{}", r.code, w, src), case));
                    }
                    continue;
                }
            }
            if want.is_none() && r.code != Some(0) && code.is_none() {
                ctx.report(Violation::new("filters", "exit-status:unrequested", format!("exit status {:?} without exit()\n{}\nstderr: {}", r.code, src, r.err_text()), case));
            }
        }
    }
    // packet input: a stream of frames of every stack, each also cut at many lengths, read at every depth and
    // written out again (accessors on cut headers, cached layers and the serialisers must not crash)
    if ctx.shard == 2 % e2e_shards {
        use super::super::choices::Choices;
        use super::super::frames::stack_frame;
        let mut recs = Vec::new();
        for stack in 0..8u8 {
            for k in 0..3u64 {
                let fb = fill(mix64(stack as u64 * 31 + k + ctx.seed), 400);
                let mut fc = Choices::new(&fb);
                let frame = stack_frame(&mut fc, stack);
                let step = if ctx.tier == Tier::Quick { 3 } else { 1 };
                let mut cut = frame.len();
                loop {
                    recs.push(Rec { sec: cut as u32, usec: stack as u32, wirelen: frame.len() as u32, data: frame[..cut].to_vec() });
                    if cut < 10 {
                        break;
                    }
                    cut -= step.min(cut);
                }
            }
        }
        let n = recs.len();
        let f = PcapFile { hdr: GHdr { magic: MAGIC_US, major: 2, minor: 4, thiszone: 0, sigfigs: 0, snaplen: 65535, linktype: 1 }, recs };
        let input = f.bytes();
        for (k, prog) in ["@ { $1; $2; $3; $4; $5; $6; }\n@ true\n", "@ { $6; $5; $4; $3; $2; $1; str($3); str($4); }\n@ true\n", "@ { let a = [$1, $2, $3, $4]; let s = str(a); }\n@ true\n@ end { eprintln(\"{}\", NP); }\n", "@ { $3; }\n@ true\n@ { $4; $2; }\n@ true\n"].iter().enumerate() {
            ctx.case(hash_str(prog) ^ n as u64, true);
            ctx.class("packet-stream");
            let r = e2e::run(Opts::new(vec![e2e::script_file("c08-pkt.p2", prog)]).stdin(Stdin::Bytes(input.clone())));
            if let Some(c) = r.crashed() {
                ctx.report(Violation::new("filters", e2e::crash_signature(&c), format!("{} packets of all stacks, cut at many lengths: {}\n{}", n, c, prog), json!({"packet_stream": k, "src": prog})));
            }
        }
    }
    // containers that contain themselves, used in anything but printing (hashing, equality, ordering ...)
    let pre = "let a = [1]; push(a, a); let b = [1]; push(b, b); let m = map {}; let m1 = map {}; m1[1] = m1; let m2 = map {}; m2[1] = m2;";
    let selfref: &[(&str, &str, &str)] = &[
        ("hash", "insert", "insert(m, a, 1);"),
        ("hash", "index-set", "m[a] = 1;"),
        ("hash", "literal", "let k = map {a: 1};"),
        ("hash", "get", "get(m, a);"),
        ("hash", "contains", "contains(m, a);"),
        ("hash", "index-get", "m[1] = 2; m[a];"),
        ("eq", "distinct-arrays", "a == b;"),
        ("eq", "distinct-arrays-ne", "a != b;"),
        ("eq", "distinct-maps", "m1 == m2;"),
        ("eq", "nested", "[a] == [b];"),
        ("same", "same-array", "a == a; m1 == m1;"),
        ("sort", "sort", "sort([a, b]); sort([a, 1, b]);"),
        ("other", "len-rest-concat", "len(a); rest(a); a + b; first(a); last(a); pop(b); push(b, a);"),
        ("other", "truthiness", "if a { 1 } else { 2 }; !a; a && b; a || b;"),
        ("other", "compare", "a < b;"),
        ("other", "map-inside-its-own-key", "let q = map {}; let r = map {}; q[[q]] = 1; q[[r]] = 2; q[[q]] = 3;"),
        ("other", "map-as-its-own-key", "let q = map {}; let r = map {}; insert(q, r, 1); insert(q, q, 2); contains(q, q); get(q, r);"),
        ("other", "match", "match a { 1 => 1, _ => 2 };"),
        ("other", "index", "a[1][1][1][0]; m1[1][1][1];"),
    ];
    if ctx.shard == 1 % e2e_shards {
        for (root, name, body) in selfref {
            ctx.case(hash_str(body), true);
            ctx.class("selfref");
            let src = format!("{} {} eprintln(\"done\");", pre, body);
            // from a file: -c would print the last value, and printing such a container is excluded
            let r = e2e::run(Opts::new(vec![e2e::script_file("c08-selfref.p2", &src)]));
            if let Some(c) = r.crashed() {
                let sig = if *root == "hash" || *root == "eq" { format!("selfref:{}", root) } else { format!("selfref:{}", name) };
                ctx.report(Violation::new("filters", sig, format!("a container that contains itself, not printed ({}): {}\n{}", name, c, src), json!({"selfref": true, "src": src, "root": root, "name": name})));
            }
        }
    }
    // cycles among the protocol layers of the current packet (the layer setters store any object) walked by `$n`
    // with indices of every kind, compared, matched, re-assigned; written out again (a finding of its own).
    // Not included: hashing a layer (a layer is not a valid key, and the KeyError message prints it) and str()/print.
    if ctx.shard == 3 % e2e_shards {
        let input = layer_stream();
        let cycles = ["e.ipv4 = e;", "i.udp = e; e.ipv4 = i;", "e.ipv4 = $0;", "i.udp = i;", "e.vlan = e; e.ipv6 = i;", ""];
        let indices = ["0 - 1", "0 - 2", "-9223372036854775807 - 1", "0", "3", "9", "10", "11", "255", "256", "4294967296", "9223372036854775807", "1.5", "null", "\"1\"", "true"];
        let uses = [
            "e == i; e != i; e == e; $3 == $2; $1 == e;",
            "let f = $1; f.ipv4 = f; f == e; f != i;",
            "match e { 1 => 1, _ => 2 }; match i { 1..3 => 1, _ => 2 };",
            "if e { 1 } else { 2 }; !e; e && i; i || e;",
            "e.ipv4 = null; e.ipv4 = 5; e.ipv4 = i;",
            "let p = $0; p.eth; e.type; i.ttl; i.src; e.dst;",
            "let arr = [e, i, $0]; len(arr); first(arr) == last(arr); push(arr, arr[0]);",
            "$1; $2; $3; $4; $5; $10;",
        ];
        let mut progs: Vec<(String, &str)> = Vec::new();
        for cyc in cycles {
            for idx in indices {
                progs.push((format!("let n = {};\n@ NP < 3 {{\nlet e = $1; let i = $2;\n{}\nlet inner = $n;\neprintln(\"ok\");\n}}\n", idx, cyc), "layer-cycle"));
            }
            for u in uses {
                progs.push((format!("@ NP < 3 {{\nlet e = $1; let i = $2;\n{}\n{}\neprintln(\"ok\");\n}}\n", cyc, u), "layer-cycle"));
            }
            if !cyc.is_empty() {
                progs.push((format!("@ NP < 3 {{\nlet e = $1; let i = $2;\n{}\npcap_write(pcap_open(\"/dev/null\", \"w\"), $0);\n}}\n", cyc), "selfref:layer-serialise"));
                progs.push((format!("@ NP < 3 {{\nlet e = $1; let i = $2;\n{}\n}}\n@ true\n", cyc), "selfref:layer-serialise-output"));
            }
        }
        for (k, (src, kind)) in progs.iter().enumerate() {
            if ctx.tier == Tier::Quick && *kind == "layer-cycle" && (k as u64 + ctx.seed) % 2 != 0 {
                continue;
            }
            ctx.case(hash_str(src), true);
            ctx.class("layer-cycle");
            let silent = *kind != "selfref:layer-serialise-output";
            let mut args = vec![];
            if silent {
                args.push("-s".to_string());
            }
            args.push(e2e::script_file("c08-layers.p2", src));
            let r = e2e::run(Opts::new(args).stdin(Stdin::Bytes(input.clone())));
            if let Some(c) = r.crashed() {
                let sig = if kind.starts_with("selfref:") { "selfref:layer-serialise".to_string() } else { format!("layer-cycle:{}", e2e::crash_signature(&c)) };
                ctx.report(Violation::new("filters", sig, format!("protocol layers that contain themselves ({}): {}\n{}", kind, c, src), json!({"layer_cycle": true, "src": src, "silent": silent, "kind": kind})));
            }
        }
    }
    // sleep with a negative duration must return (a runtime error or at once), not sleep for ever
    if ctx.shard == 0 {
        ctx.case(hash_str("sleep-negative"), true);
        ctx.class("filter-run");
        let mut o = Opts::new(vec!["-c".into(), "sleep(-1); sleep(-9223372036854775807 - 1); eprintln(\"after\");".into()]);
        o.timeout_ms = 8_000;
        let r = e2e::run(o);
        if r.timed_out {
            ctx.report(Violation::new("filters", "sleep-negative-never-returns", "sleep(-1) was still sleeping after 8 s".to_string(), json!({"sleep": true})));
        } else if let Some(c) = r.crashed() {
            ctx.report(Violation::new("filters", e2e::crash_signature(&c), c, json!({"sleep": true})));
        }
    }
}

pub fn run(ctx: &mut Ctx) {
    prepare();
    set_hang_limit(120);
    calls(ctx);
    operators(ctx);
    stress(ctx);
    let n = ctx.nshards as u32;
    drive(ctx, "programs", ctx.tier.pick(60_000, 3_000_000) / n, 16, 600, |ctx, b| program_case(ctx, b));
    set_shrink_iters(20);
    filters(ctx);
}

pub fn replay(section: &str, case: &Value, ctx: &mut Ctx) {
    prepare();
    if case.get("sleep").is_some() {
        let mut o = Opts::new(vec!["-c".into(), "sleep(-1); eprintln(\"after\");".into()]);
        o.timeout_ms = 8_000;
        if e2e::run(o).timed_out {
            ctx.report(Violation::new(section, "sleep-negative-never-returns", "sleep(-1) was still sleeping after 8 s".to_string(), case.clone()));
        }
        return;
    }
    let src = case["src"].as_str().unwrap_or("");
    if case.get("packet_stream").is_some() {
        // the stream is rebuilt by the section itself on every run; nothing to replay separately
        return;
    }
    if case.get("layer_cycle").is_some() {
        let mut args = vec![];
        if case["silent"].as_bool().unwrap_or(true) {
            args.push("-s".to_string());
        }
        args.push(e2e::script_file("c08-layers.p2", src));
        let r = e2e::run(Opts::new(args).stdin(Stdin::Bytes(layer_stream())));
        if let Some(c) = r.crashed() {
            let kind = case["kind"].as_str().unwrap_or("");
            let sig = if kind.starts_with("selfref:") { "selfref:layer-serialise".to_string() } else { format!("layer-cycle:{}", e2e::crash_signature(&c)) };
            ctx.report(Violation::new(section, sig, c, case.clone()));
        }
        return;
    }
    if case.get("selfref").is_some() {
        let r = e2e::run(Opts::new(vec![e2e::script_file("c08-selfref.p2", src)]));
        if let Some(c) = r.crashed() {
            let root = case["root"].as_str().unwrap_or("");
            let sig = if root == "hash" || root == "eq" { format!("selfref:{}", root) } else { format!("selfref:{}", case["name"].as_str().unwrap_or("")) };
            ctx.report(Violation::new(section, sig, c, case.clone()));
        }
        return;
    }
    if case.get("filter").is_some() {
        let path = e2e::script_file("c08.p2", src);
        let k = case["input"].as_u64().unwrap_or(0);
        let input = match k {
            0 | 1 => stream(),
            2 => vec![],
            _ => fill(77, 50),
        };
        let mut args = vec![];
        if k == 1 || k == 3 {
            args.push("-s".to_string());
        }
        args.push(path);
        let r = e2e::run(Opts::new(args).stdin(Stdin::Bytes(input)));
        if let Some(c) = r.crashed() {
            ctx.report(Violation::new(section, e2e::crash_signature(&c), c, case.clone()));
        } else if let Some(w) = case["code"].as_i64() {
            if k < 2 && r.code != Some(w as i32) {
                ctx.report(Violation::new(section, "exit-status", format!("{:?}", r.code), case.clone()));
            }
        }
        return;
    }
    let full = format!("{}{}", prologue_for(src), src);
    if let Outcome::Panic(p) = run_text(&full) {
        ctx.report(Violation::new(section, p.signature(), p.describe(), case.clone()));
    }
}
