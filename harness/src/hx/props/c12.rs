//! C12 — format and print render the documented format mini-language.

use serde_json::{json, Value};

use super::super::choices::{hash_str, Choices};
use super::super::engine::*;
use super::super::p2::{run_text, Outcome, Val};
use super::super::render::int_lit;
use super::Meta;

pub const META: Meta = Meta {
    rule: "proptest byte-vectors decoded into format strings from the grammar text | {{ | }} | {[index][:[[fill](<|>)][width][b|o|x|X]]} (0..6 specifiers, literal segments, indices in and out of range, \
widths 0..40, fills from printable ASCII minus { } : < > b o x X \"), mixing indexed and positional specifiers on purpose, with argument lists of 0..6 values (integers >= 0 under b o x X, any integer otherwise, \
ASCII strings, booleans, null; non-ASCII strings only in unpadded specifiers); `format(...)` is executed in-process and its result compared with a reference renderer written from the property statement \
(positional specifiers consume arguments left to right independently of indexed ones; index n selects argument n+1; fill/width/alignment; binary/octal/hex; a specifier without a matching argument is a \
runtime error). (malformed) unclosed braces, stray }, non-numeric widths, number formats on non-integers, duplicate colons: any result or a runtime error, never a crash. \
The print/println/eprint/eprintln half (bytes on the right stream, returned length) is checked end to end by the e2e section. \
Non-trivial: >= 2 specifiers of which >= 1 indexed and >= 1 positional, or a padded specifier whose argument is shorter than the width, or a number format. Distinct by call text.",
    assumptions: &["display of floats, chars, bytes and containers as arguments is a don't-care zone and not generated in strict cases"],
    required_classes: &[("strict", 20_000), ("mixed-indexed-positional", 2_000), ("padded", 5_000), ("number-format", 3_000), ("missing-argument", 1_000), ("malformed", 2_000), ("print-family", 150)],
    exhaustive_when_sections: &[],
};

#[derive(Clone, Debug)]
pub enum Arg {
    Int(i64),
    Str(String),
    Bool(bool),
    Null,
    /// floats whose display is their literal (1.5, 0.25, ...)
    Float(f64),
}

impl Arg {
    fn lit(&self) -> String {
        match self {
            Arg::Int(i) => int_lit(*i),
            Arg::Str(s) => format!("\"{}\"", s),
            Arg::Bool(b) => b.to_string(),
            Arg::Null => "null".into(),
            Arg::Float(f) => format!("{:?}", f),
        }
    }
    fn display(&self) -> String {
        match self {
            Arg::Int(i) => i.to_string(),
            Arg::Str(s) => s.clone(),
            Arg::Bool(b) => b.to_string(),
            Arg::Null => "null".into(),
            Arg::Float(f) => format!("{:?}", f),
        }
    }
}

#[derive(Clone, Debug)]
pub struct Spec {
    pub index: Option<usize>,
    pub fill: Option<char>,
    pub align: Option<char>,
    pub width: Option<usize>,
    pub num: Option<char>,
}

#[derive(Clone, Debug)]
pub enum Piece {
    Text(String),
    Open,  // {{
    Close, // }}
    Spec(Spec),
}

pub fn fmt_text(pieces: &[Piece]) -> String {
    let mut s = String::new();
    for p in pieces {
        match p {
            Piece::Text(t) => s.push_str(t),
            Piece::Open => s.push_str("{{"),
            Piece::Close => s.push_str("}}"),
            Piece::Spec(sp) => {
                s.push('{');
                if let Some(i) = sp.index {
                    s.push_str(&i.to_string());
                }
                if sp.align.is_some() || sp.width.is_some() || sp.num.is_some() {
                    s.push(':');
                    if let Some(a) = sp.align {
                        if let Some(f) = sp.fill {
                            s.push(f);
                        }
                        s.push(a);
                    }
                    if let Some(w) = sp.width {
                        // some widths are written with leading zeros: still that width, still padded with the fill
                        if w % 7 == 3 {
                            s.push('0');
                        } else if w % 11 == 5 {
                            s.push_str("00");
                        }
                        s.push_str(&w.to_string());
                    }
                    if let Some(n) = sp.num {
                        s.push(n);
                    }
                }
                s.push('}');
            }
        }
    }
    s
}

/// the reference renderer: Ok(text) or Err(()) for "a specifier without a matching argument"
pub fn render_ref(pieces: &[Piece], args: &[Arg]) -> Result<String, ()> {
    let mut out = String::new();
    let mut next = 0usize;
    for p in pieces {
        match p {
            Piece::Text(t) => out.push_str(t),
            Piece::Open => out.push('{'),
            Piece::Close => out.push('}'),
            Piece::Spec(sp) => {
                let arg = match sp.index {
                    Some(i) => args.get(i).ok_or(())?,
                    None => {
                        let a = args.get(next).ok_or(())?;
                        next += 1;
                        a
                    }
                };
                let body = match (sp.num, arg) {
                    (Some('b'), Arg::Int(i)) => format!("{:b}", i),
                    (Some('o'), Arg::Int(i)) => format!("{:o}", i),
                    (Some('x'), Arg::Int(i)) => format!("{:x}", i),
                    (Some('X'), Arg::Int(i)) => format!("{:X}", i),
                    _ => arg.display(),
                };
                let width = sp.width.unwrap_or(0);
                let len = body.chars().count();
                let pad: String = std::iter::repeat(sp.fill.unwrap_or(' ')).take(width.saturating_sub(len)).collect();
                let right_justify = match sp.align {
                    Some('>') => true,
                    Some('<') => false,
                    _ => matches!(arg, Arg::Int(_)),
                };
                if right_justify {
                    out.push_str(&pad);
                    out.push_str(&body);
                } else {
                    out.push_str(&body);
                    out.push_str(&pad);
                }
            }
        }
    }
    Ok(out)
}

const FILLS: &str = " !#$%&'()*+,-./0123456789;=?@ABCDEFGHIJKLMNOPQRSTUVWYZ[\\]^_`acdefghijklmnpqrstuvwyz|~";
const TEXTS: &[&str] = &["", "a", " ", "x=", "abc ", ": ", "<>", "100%", "é", "[", "] ", "b", "o", "x", "0", "#", "\n", ", "];

pub struct Case {
    pub pieces: Vec<Piece>,
    pub args: Vec<Arg>,
    pub mixed: bool,
    pub padded_short: bool,
    pub numfmt: bool,
}

pub fn gen_case(bytes: &[u8]) -> Case {
    let mut c = Choices::new(bytes);
    let nargs = c.below(7);
    let mut args: Vec<Arg> = Vec::new();
    for _ in 0..nargs {
        args.push(match c.below(9) {
            0..=2 => Arg::Int(match c.below(4) {
                0 => c.range(0, 9),
                1 => c.range(0, 70000),
                2 => c.range(-500, -1),
                _ => *c.pickv(&[0i64, 255, 256, 65535, i64::MAX, 1 << 40, 7, 8]),
            }),
            3 | 4 => Arg::Str(c.pick_s(&["", "a", "abc", "hello world", "x y", "12", "-", "A", "zz"]).to_string()),
            5 => Arg::Bool(c.bool()),
            6 => Arg::Null,
            8 => Arg::Float(*c.pickv(&[1.5f64, 0.25, -2.5, 3.75, 100.5, -0.125])),
            _ => Arg::Str(c.pick_s(&["é", "日本", "💖"]).to_string()),
        });
    }
    let nspec = c.below(7);
    let mut pieces: Vec<Piece> = Vec::new();
    let mut indexed = 0;
    let mut positional = 0;
    let mut next_pos = 0usize;
    let mut padded_short = false;
    let mut numfmt = false;
    for _ in 0..nspec {
        match c.below(6) {
            0 => pieces.push(Piece::Text(c.pick_s(TEXTS).to_string())),
            1 => pieces.push(if c.bool() { Piece::Open } else { Piece::Close }),
            _ => {}
        }
        // which argument will this specifier show?
        let use_index = c.below(3) == 0;
        let index = if use_index {
            // mostly in range
            Some(if nargs > 0 && c.below(8) != 0 { c.below(nargs) } else { c.below(8) })
        } else {
            None
        };
        let target: Option<&Arg> = match index {
            Some(i) => args.get(i),
            None => args.get(next_pos),
        };
        let mut sp = Spec { index, fill: None, align: None, width: None, num: None };
        let is_int = matches!(target, Some(Arg::Int(_)));
        let nonneg = matches!(target, Some(Arg::Int(i)) if *i >= 0);
        let ascii = match target {
            Some(Arg::Str(s)) => s.is_ascii(),
            _ => true,
        };
        if ascii && c.below(3) != 0 {
            if c.bool() {
                sp.align = Some(if c.bool() { '<' } else { '>' });
                if c.bool() {
                    let f = FILLS.chars().nth(c.below(FILLS.chars().count())).unwrap();
                    sp.fill = Some(f);
                }
            }
            if sp.align.is_none() || c.below(4) != 0 {
                sp.width = Some(match c.below(4) {
                    0 => c.below(4),
                    _ => c.below(41),
                });
            }
        }
        if is_int && nonneg && c.below(3) == 0 {
            sp.num = Some(*c.pickv(&['b', 'o', 'x', 'X']));
            numfmt = true;
        }
        if let (Some(w), Some(t)) = (sp.width, target) {
            if t.display().chars().count() < w {
                padded_short = true;
            }
        }
        if index.is_some() {
            indexed += 1;
        } else {
            positional += 1;
            next_pos += 1;
        }
        pieces.push(Piece::Spec(sp));
    }
    if c.bool() {
        pieces.push(Piece::Text(c.pick_s(TEXTS).to_string()));
    }
    Case { pieces, args, mixed: indexed >= 1 && positional >= 1, padded_short, numfmt }
}

fn call_text(fmt: &str, args: &[Arg]) -> String {
    let mut s = format!("format(\"{}\"", fmt);
    for a in args {
        s.push_str(", ");
        s.push_str(&a.lit());
    }
    s.push(')');
    s
}

pub fn check_case(ctx: &mut Ctx, section: &str, case: &Case) -> Vec<Violation> {
    check_strict(ctx, section, case)
}

fn check_strict(ctx: &mut Ctx, section: &str, case: &Case) -> Vec<Violation> {
    let fmt = fmt_text(&case.pieces);
    let text = call_text(&fmt, &case.args);
    guard(section, "src", &text);
    let expect = render_ref(&case.pieces, &case.args);
    let nontrivial = case.mixed || case.padded_short || case.numfmt;
    ctx.case(hash_str(&text), nontrivial);
    ctx.class("strict");
    if case.mixed {
        ctx.class("mixed-indexed-positional");
    }
    if case.padded_short {
        ctx.class("padded");
    }
    if case.numfmt {
        ctx.class("number-format");
    }
    if expect.is_err() {
        ctx.class("missing-argument");
    }
    if ctx.want_sample() && nontrivial && ctx.res.evals % 499 == 7 {
        ctx.sample(json!({"call": text, "expected": format!("{:?}", expect)}));
    }
    let cj = json!({"src": text, "expect": match &expect { Ok(s) => json!({"ok": s}), Err(_) => json!({"error": true}) }});
    check_text(ctx, section, &text, &expect, cj, "")
}

fn check_text(ctx: &mut Ctx, section: &str, text: &str, expect: &Result<String, ()>, cj: Value, shape: &str) -> Vec<Violation> {
    match run_text(text) {
        Outcome::Ran(r) => match (&r.err, expect) {
            (None, Ok(e)) => {
                if let Val::Str(got) = &r.last {
                    if got == e {
                        return vec![];
                    }
                }
                vec![Violation::new(section, format!("format:wrong-text:{}", shape), format!("`{}`\n expected: {:?}\n got:      {}", text, e, r.last.show()), cj)]
            }
            (Some((m, _)), Ok(e)) => vec![Violation::new(section, format!("format:unexpected-error:{}", shape), format!("`{}`\n expected: {:?}\n got a runtime error: {}", text, e, m), cj)],
            (None, Err(_)) => vec![Violation::new(section, format!("format:missing-error:{}", shape), format!("`{}`: a specifier has no matching argument, expected a runtime error, got {}", text, r.last.show()), cj)],
            (Some(_), Err(_)) => vec![],
        },
        Outcome::Panic(p) => vec![Violation::new(section, p.signature(), format!("`{}` crashed: {}", text, p.describe()), cj)],
        o => {
            ctx.infra(format!("C12 harness: `{}` did not compile: {}", text, o.tag()));
            vec![]
        }
    }
}

fn gen_malformed(bytes: &[u8]) -> String {
    let mut c = Choices::new(bytes);
    let n = 1 + c.below(8);
    let mut s = String::new();
    for _ in 0..n {
        s.push_str(c.pick_s(&[
            "{", "}", "{:", "{:>", "{:<", "{::}", "{:x}", "{:b}", "{:abc}", "{:5x5}", "{-1}", "{1.5}", "{999999999999999999999}", "{:99999999999999999999}", "{:>x}", "{a}", "{{", "}}", "{}", "{0}",
            "{:é>4}", "{:>é}", "{ }", "{:1 }", "{ :1}", "text", "{:<<5}", "{:*>*}", "{:+5}", "{:05}", "{0:}", "{:}", "{:o<o}",
        ]));
    }
    let nargs = c.below(4);
    let mut call = format!("format(\"{}\"", s);
    for _ in 0..nargs {
        call.push_str(", ");
        call.push_str(c.pick_s(&["1", "(-7)", "\"s\"", "1.5", "null", "[1]", "'c'", "b'c'", "map {1: 2}", "len", "true", "\"é\""]));
    }
    call.push(')');
    call
}

/// the print family through the real binary: the rendered text on the right stream, the byte length returned
fn print_case(ctx: &mut Ctx, bytes: &[u8]) -> Vec<Violation> {
    use super::super::e2e::{self, Opts};
    let case = gen_case(bytes);
    let want = match render_ref(&case.pieces, &case.args) {
        Ok(t) => t,
        Err(_) => return vec![],
    };
    let fmt = fmt_text(&case.pieces);
    let which = bytes.first().copied().unwrap_or(0) % 4;
    let (name, to_stderr, ln) = [("print", false, false), ("println", false, true), ("eprint", true, false), ("eprintln", true, true)][which as usize];
    let mut call = format!("{}(\"{}\"", name, fmt);
    for a in &case.args {
        call.push_str(", ");
        call.push_str(&a.lit());
    }
    call.push(')');
    let src = format!("let r = {};\n{}(\"{{}}\", r);\n", call, if to_stderr { "print" } else { "eprint" });
    ctx.case(hash_str(&src), !want.is_empty());
    ctx.class("print-family");
    guard("print", "src", &src);
    let path = e2e::script_file("c12-print.p2", &src);
    let r = e2e::run(Opts::new(vec![path]));
    let cj = json!({"print": true, "src": src, "want": want, "to_stderr": to_stderr, "ln": ln});
    judge_print(&r, &src, &want, to_stderr, ln, &cj)
}

fn judge_print(r: &super::super::e2e::Run, src: &str, want: &str, to_stderr: bool, ln: bool, cj: &Value) -> Vec<Violation> {
    let mut out = Vec::new();
    if r.spawn_error.is_some() || r.timed_out {
        return out;
    }
    if let Some(c) = r.crashed() {
        out.push(Violation::new("print", super::super::e2e::crash_signature(&c), format!("{}\n{}", c, src), cj.clone()));
        return out;
    }
    let text = format!("{}{}", want, if ln { "\n" } else { "" });
    let (text_stream, len_stream) = if to_stderr { (r.err_text(), r.out_text()) } else { (r.out_text(), r.err_text()) };
    if text_stream != text {
        out.push(Violation::new("print", "print:wrong-text-or-stream", format!("the {} stream holds {:?}, expected {:?}\n{}", if to_stderr { "stderr" } else { "stdout" }, text_stream, text, src), cj.clone()));
        return out;
    }
    // the returned length: the bytes of the text, with or without the newline of the ln variants
    let got: Option<usize> = len_stream.trim().parse().ok();
    let ok = got == Some(want.len()) || (ln && got == Some(want.len() + 1));
    if !ok {
        out.push(Violation::new("print", "print:wrong-length", format!("the call returned {:?}; the text has {} bytes\n{}", len_stream, want.len(), src), cj.clone()));
    }
    out
}

pub fn run(ctx: &mut Ctx) {
    let n = ctx.nshards as u32;
    drive(ctx, "strict", ctx.tier.pick(480_000, 6_000_000) / n, 8, 160, |ctx, bytes| {
        let case = gen_case(bytes);
        check_strict(ctx, "strict", &case)
    });
    ctx.more_samples(2);
    drive(ctx, "malformed", ctx.tier.pick(120_000, 1_200_000) / n, 4, 40, |ctx, bytes| {
        let text = gen_malformed(bytes);
        guard("malformed", "src", &text);
        ctx.case(hash_str(&text), true);
        ctx.class("malformed");
        match run_text(&text) {
            Outcome::Panic(p) => vec![Violation::new("malformed", p.signature(), format!("`{}` crashed: {}", text, p.describe()), json!({"src": text, "malformed": true}))],
            _ => vec![],
        }
    });
    // the print family goes through the real binary; few shards (process creation does not scale here)
    set_shrink_iters(60);
    let e2e_shards = 4.min(ctx.nshards);
    if ctx.shard < e2e_shards {
        drive(ctx, "print", ctx.tier.pick(400, 12_000) / e2e_shards as u32, 8, 160, |ctx, bytes| print_case(ctx, bytes));
    }
}

pub fn replay(section: &str, case: &Value, ctx: &mut Ctx) {
    let text = case["src"].as_str().unwrap_or("");
    if case.get("print").is_some() {
        let path = super::super::e2e::script_file("c12-print.p2", text);
        let r = super::super::e2e::run(super::super::e2e::Opts::new(vec![path]));
        for v in judge_print(&r, text, case["want"].as_str().unwrap_or(""), case["to_stderr"].as_bool().unwrap_or(false), case["ln"].as_bool().unwrap_or(false), case) {
            ctx.report(v);
        }
        return;
    }
    if case.get("malformed").is_some() {
        if let Outcome::Panic(p) = run_text(text) {
            ctx.report(Violation::new(section, p.signature(), format!("`{}` crashed: {}", text, p.describe()), case.clone()));
        }
        return;
    }
    let expect: Result<String, ()> = match case["expect"].get("ok").and_then(|v| v.as_str()) {
        Some(s) => Ok(s.to_string()),
        None => Err(()),
    };
    for v in check_text(ctx, section, text, &expect, case.clone(), "") {
        ctx.report(v);
    }
}
