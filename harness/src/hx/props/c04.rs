//! C04 — names resolve to the innermost visible binding and closures capture it.

use serde_json::{json, Value};

use super::super::ast::*;
use super::super::choices::{hash_str, Choices};
use super::super::engine::*;
use super::super::gen::{gen_program, prologue, Cfg};
use super::super::progcheck::*;
use super::Meta;

pub const META: Meta = Meta {
    rule: "(scopes) proptest byte-vectors decoded into scope scenarios: nested and sibling blocks to depth 4 re-declaring the names a,b,c at several depths, \
reads/writes placed before, inside and after every block, function statements and closures written inside blocks that read and assign block-local, \
function-local, parameter and global names, closures and functions called later (after the defining block ended, after captured variables and globals were \
reassigned), parameters shadowing outer names; ~12% of name uses deliberately pick a name that may not be visible. (programs) the C02 generator in scope mode. \
Oracle: an independent lexical resolver decides 'compile error: undefined name' vs accepted; accepted programs must produce the reference interpreter's \
observations (innermost visible binding; globals by reference; locals captured by value at closure creation, each closure keeping its own copy). \
Non-trivial: some name has >=2 live declarations at different depths AND (a use follows the end of an inner block that re-declared it, OR a closure/function \
is called after a captured/global variable changed, OR the reference verdict is 'undefined'). Distinct by source-text hash.",
    assumptions: &[
        "top-level block-locals reassigned between creation and call of a function that reads them are a declared don't-care zone (DESIGN.md C04): the scenario generator never reassigns them from outside the reading function",
        "the reference resolver/interpreter (interp.rs) is the oracle",
    ],
    required_classes: &[("compared", 8_000), ("verdict:undefined", 500), ("shape:shadow-then-use-after", 1_000), ("shape:call-after-mutation", 1_000), ("shape:block-local-captured", 500)],
    exhaustive_when_sections: &[],
};

const NAMES: &[&str] = &["a", "b", "c"];

struct Sg<'a, 'b> {
    c: &'a mut Choices<'b>,
    /// stack of frames; each frame lists (name, is_fn, declared_in_top_level_block)
    frames: Vec<Vec<(String, bool)>>,
    fn_depth: usize,
    block_depth: usize,
    fresh: usize,
    budget: usize,
    probe: i64,
    // shape statistics
    pub shadow_use_after: bool,
    pub call_after_mutation: bool,
    pub block_local_captured: bool,
    pub sloppy_use: bool,
    /// functions/closures defined so far that are visible: (name, reads/writes names)
    mutated_since_def: Vec<(String, bool)>,
    /// names re-declared by a block that has ended while an outer binding is still visible
    pending_shadow: Vec<String>,
    /// arity of the functions defined so far
    arity: Vec<(String, usize)>,
    /// the name whose initialiser is being generated (never mentioned in it: don't-care zone)
    declaring: Option<String>,
    /// functions whose body is being generated (not called from inside: no unbounded recursion)
    defining: Vec<String>,
}

impl<'a, 'b> Sg<'a, 'b> {
    fn visible(&self, n: &str) -> bool {
        self.frames.iter().any(|f| f.iter().any(|(x, _)| x == n))
    }
    fn visible_vars(&self) -> Vec<String> {
        let mut out: Vec<String> = Vec::new();
        for f in &self.frames {
            for (n, is_fn) in f {
                if !is_fn && !out.contains(n) {
                    out.push(n.clone());
                }
            }
        }
        // a name whose innermost binding is a function is not a variable here;
        // the name being declared right now must not appear in its own initialiser
        out.into_iter().filter(|n| !self.innermost_is_fn(n) && Some(n) != self.declaring.as_ref()).collect()
    }
    fn visible_fns(&self) -> Vec<String> {
        let mut out: Vec<String> = Vec::new();
        for f in self.frames.iter().rev() {
            for (n, is_fn) in f.iter().rev() {
                if out.contains(n) {
                    continue;
                }
                // innermost binding of the name decides whether it is callable
                if *is_fn {
                    out.push(n.clone());
                }
            }
        }
        // a variable binding declared later than a function of the same name hides it
        out.into_iter().filter(|n| self.innermost_is_fn(n) && !self.defining.contains(n)).collect()
    }
    fn innermost_is_fn(&self, n: &str) -> bool {
        for f in self.frames.iter().rev() {
            for (x, is_fn) in f.iter().rev() {
                if x == n {
                    return *is_fn;
                }
            }
        }
        false
    }
    fn declared_depths(&self, n: &str) -> usize {
        self.frames.iter().filter(|f| f.iter().any(|(x, is_fn)| x == n && !is_fn)).count()
    }
    fn pick_name(&mut self, want_visible: bool) -> String {
        let vis = self.visible_vars();
        if want_visible && !vis.is_empty() && self.c.below(100) >= 12 {
            vis[self.c.below(vis.len())].clone()
        } else {
            self.sloppy_use = true;
            let mut n = self.c.pick(NAMES).to_string();
            if Some(&n) == self.declaring.as_ref() || self.innermost_is_fn(&n) {
                n = NAMES.iter().map(|x| x.to_string()).find(|x| Some(x) != self.declaring.as_ref() && !self.innermost_is_fn(x)).unwrap_or("zz".to_string());
            }
            n
        }
    }
    fn obs(&mut self, e: E) -> S {
        S::Expr(call("push", vec![id("obs"), e]))
    }
    fn int_expr(&mut self) -> E {
        match self.c.below(4) {
            0 => E::Int(self.c.range(0, 9)),
            1 => {
                let n = self.pick_name(true);
                bin("+", id(&n), E::Int(self.c.range(1, 3)))
            }
            2 => {
                let n = self.pick_name(true);
                let m = self.pick_name(true);
                bin("+", bin("*", id(&n), E::Int(10)), id(&m))
            }
            _ => {
                let n = self.pick_name(true);
                id(&n)
            }
        }
    }

    fn block(&mut self, max_items: usize) -> Vec<S> {
        self.frames.push(vec![]);
        self.block_depth += 1;
        let n = 1 + self.c.below(max_items);
        let mut out = Vec::new();
        for _ in 0..n {
            if self.budget == 0 {
                break;
            }
            self.budget -= 1;
            self.item(&mut out);
        }
        let ended = self.frames.pop().unwrap();
        self.block_depth -= 1;
        // a use after this point of a name this block re-declared is the interesting shape
        for (n, is_fn) in ended {
            if !is_fn && self.visible(&n) {
                self.pending_shadow.push(n);
            }
        }
        out
    }

    fn fn_body(&mut self, params: &[String]) -> Vec<S> {
        self.frames.push(params.iter().map(|p| (p.clone(), false)).collect());
        self.fn_depth += 1;
        let saved_pending = std::mem::take(&mut self.pending_shadow);
        let mut body = self.block(4);
        // value of the function: a visible name or a constant
        let e = self.int_expr();
        body.push(S::Expr(e));
        self.pending_shadow = saved_pending;
        self.fn_depth -= 1;
        self.frames.pop();
        body
    }

    fn item(&mut self, out: &mut Vec<S>) {
        let nested_ok = self.block_depth < 4;
        match self.c.below(16) {
            0..=2 => {
                // declaration (possibly shadowing)
                let n = self.c.pick(NAMES).to_string();
                self.declaring = Some(n.clone());
                let e = if self.c.bool() { E::Int(self.c.range(0, 9)) } else { self.int_expr() };
                self.declaring = None;
                out.push(S::Let(n.clone(), e));
                self.frames.last_mut().unwrap().push((n, false));
            }
            3..=5 => {
                // read
                let n = self.pick_name(true);
                if self.pending_shadow.contains(&n) && self.declared_depths(&n) >= 1 {
                    self.shadow_use_after = true;
                }
                let e = id(&n);
                out.push(self.obs(e));
            }
            6 | 7 => {
                // write
                let n = self.pick_name(true);
                if self.visible(&n) {
                    for m in self.mutated_since_def.iter_mut() {
                        m.1 = true;
                    }
                }
                let e = self.int_expr();
                out.push(S::Expr(assign(id(&n), e)));
            }
            8 | 9 if nested_ok => {
                let b = self.block(4);
                out.push(S::Block(b));
            }
            10 if nested_ok => {
                // conditional block (a block belonging to an if expression)
                let b = self.block(3);
                let cond = if self.c.bool() { E::Bool(true) } else { bin(">", self.int_expr(), E::Int(self.c.range(0, 20))) };
                let el = if self.c.bool() { Some(Box::new(Else::Block(self.block(2)))) } else { None };
                out.push(S::Expr(E::If(Box::new(cond), b, el)));
            }
            11 | 12 if self.fn_depth < 3 => {
                // function statement or closure value, written here, used later
                self.fresh += 1;
                let fname = if self.c.below(4) == 0 { self.c.pick(NAMES).to_string() } else { format!("f{}", self.fresh) };
                let nparams = self.c.below(3);
                let params: Vec<String> = (0..nparams).map(|i| if self.c.below(3) == 0 { NAMES[i % 3].to_string() } else { format!("p{}", i) }).collect();
                if self.block_depth >= 1 && self.fn_depth >= 1 {
                    self.block_local_captured = true;
                }
                // the function's own name is bound before its body
                self.frames.last_mut().unwrap().push((fname.clone(), true));
                self.defining.push(fname.clone());
                let body = self.fn_body(&params);
                self.defining.pop();
                if self.c.bool() {
                    out.push(S::FnDef(fname.clone(), params.clone(), body));
                } else {
                    out.push(S::Let(fname.clone(), E::Fn(params.clone(), body)));
                }
                self.arity.push((fname.clone(), nparams));
                self.mutated_since_def.push((fname, false));
            }
            13 | 14 => {
                // call something visible
                let fns = self.visible_fns();
                if fns.is_empty() {
                    let n = self.pick_name(true);
                    let e = id(&n);
                    out.push(self.obs(e));
                } else {
                    let f = fns[self.c.below(fns.len())].clone();
                    let ar = self.arity.iter().rev().find(|(n, _)| *n == f).map(|x| x.1).unwrap_or(0);
                    if self.mutated_since_def.iter().any(|(n, m)| *n == f && *m) {
                        self.call_after_mutation = true;
                    }
                    let args: Vec<E> = (0..ar).map(|_| self.int_expr()).collect();
                    let e = E::Call(Box::new(id(&f)), args);
                    out.push(self.obs(e));
                }
            }
            _ => {
                // closure factory: returns a closure over a parameter and a block-local
                self.fresh += 1;
                let mk = format!("mk{}", self.fresh);
                let cl = format!("cl{}", self.fresh);
                let local = self.c.pick(NAMES).to_string();
                let body = vec![
                    S::Let(local.clone(), bin("+", id("s"), E::Int(1))),
                    S::Let(
                        "inner".into(),
                        E::Fn(vec![], vec![S::Expr(assign(id(&local), bin("+", id(&local), id("s")))), S::Expr(id(&local))]),
                    ),
                    S::Expr(assign(id(&local), E::Int(100))),
                    S::Expr(id("inner")),
                ];
                out.push(S::FnDef(mk.clone(), vec!["s".into()], body));
                out.push(S::Let(cl.clone(), E::Call(Box::new(id(&mk)), vec![E::Int(self.c.range(1, 4))])));
                let e1 = E::Call(Box::new(id(&cl)), vec![]);
                out.push(self.obs(e1));
                let e2 = E::Call(Box::new(id(&cl)), vec![]);
                out.push(self.obs(e2));
                self.call_after_mutation = true;
                self.frames.last_mut().unwrap().push((mk, true));
                self.frames.last_mut().unwrap().push((cl, true));
            }
        }
        let _ = self.probe;
    }
}

// extra state kept outside the struct literal above for readability
impl<'a, 'b> Sg<'a, 'b> {
    fn new(c: &'a mut Choices<'b>) -> Self {
        Self {
            c,
            frames: vec![vec![]],
            fn_depth: 0,
            block_depth: 0,
            fresh: 0,
            budget: 28,
            probe: 0,
            shadow_use_after: false,
            call_after_mutation: false,
            block_local_captured: false,
            sloppy_use: false,
            mutated_since_def: vec![],
            pending_shadow: vec![],
            arity: vec![],
            declaring: None,
            defining: vec![],
        }
    }
}

pub struct Shapes {
    pub shadow_use_after: bool,
    pub call_after_mutation: bool,
    pub block_local_captured: bool,
}

pub fn gen_scopes(bytes: &[u8]) -> (Vec<S>, Shapes) {
    let mut c = Choices::new(bytes);
    let mut g = Sg::new(&mut c);
    let mut prog = prologue();
    // a few globals first so that most uses are resolvable
    for n in NAMES {
        if g.c.below(4) != 0 {
            prog.push(S::Let(n.to_string(), E::Int(g.c.range(0, 9))));
            g.frames[0].push((n.to_string(), false));
        }
    }
    let mut body = Vec::new();
    while g.budget > 0 && !g.c.exhausted() {
        g.budget -= 1;
        g.item(&mut body);
    }
    prog.extend(body);
    prog.push(S::Expr(E::Int(0)));
    let shapes = Shapes { shadow_use_after: g.shadow_use_after, call_after_mutation: g.call_after_mutation, block_local_captured: g.block_local_captured };
    (prog, shapes)
}

fn check(ctx: &mut Ctx, section: &str, prog: &[S], shapes: Option<&Shapes>) -> Vec<Violation> {
    let rr = reference(prog, 200_000);
    let v = compare(section, prog, &rr);
    let undefined = rr.rejects.iter().any(|r| matches!(r, super::super::interp::Reject::Undefined(_)));
    let shaped = shapes.map(|s| s.shadow_use_after || s.call_after_mutation || s.block_local_captured).unwrap_or(false);
    let nontrivial = v.compared && (undefined || shaped);
    ctx.case(hash_str(&v.src), nontrivial);
    if v.compared {
        ctx.class("compared");
    }
    if undefined && v.compared {
        ctx.class("verdict:undefined");
    }
    if rr.rejects.is_empty() && v.compared {
        ctx.class("verdict:accepted");
    }
    if let Some(s) = shapes {
        if s.shadow_use_after {
            ctx.class("shape:shadow-then-use-after");
        }
        if s.call_after_mutation {
            ctx.class("shape:call-after-mutation");
        }
        if s.block_local_captured {
            ctx.class("shape:block-local-captured");
        }
    }
    if rr.unspecified.is_some() {
        ctx.class("ref:unspecified");
    }
    if ctx.want_sample() && nontrivial && ctx.res.evals % 97 == 5 {
        ctx.sample(json!({"section": section, "src": v.src, "reference_verdict": format!("{:?}", rr.rejects), "reference_obs": rr.obs.show(), "p2sh": v.p2_tag}));
    }
    v.violations
}

pub fn run(ctx: &mut Ctx) {
    let n = ctx.nshards as u32;
    drive(ctx, "scopes", ctx.tier.pick(120_000, 3_000_000) / n, 12, 260, |ctx, bytes| {
        let (prog, shapes) = gen_scopes(bytes);
        check(ctx, "scopes", &prog, Some(&shapes))
    });
    ctx.more_samples(2);
    drive(ctx, "programs", ctx.tier.pick(30_000, 1_000_000) / n, 16, 500, |ctx, bytes| {
        let mut cfg = Cfg::default();
        cfg.scope_mode = true;
        cfg.max_block_nesting = 4;
        cfg.max_stmts = 6 + (bytes.first().copied().unwrap_or(0) as usize % 20);
        cfg.p_fail = 5;
        let (prog, _) = gen_program(&bytes[1.min(bytes.len())..], cfg);
        check(ctx, "programs", &prog, None)
    });
}

pub fn replay(section: &str, case: &Value, ctx: &mut Ctx) {
    match parse_prog(case) {
        Some(prog) => {
            for v in check(ctx, section, &prog, None) {
                ctx.report(v);
            }
        }
        None => ctx.infra("C04 replay: case has no program"),
    }
}
