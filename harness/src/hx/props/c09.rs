//! C09 — operators implement a consistent numeric and typing model.

use serde_json::{json, Value};

use super::super::choices::{hash_str, Choices};
use super::super::engine::*;
use super::super::ops::{self, Expect};
use super::super::p2::{run_text, Outcome, Val};
use super::super::render::lit;
use super::Meta;

pub const META: Meta = Meta {
    rule: "(table) every binary operator x every ordered pair, and every unary operator x every value, from a boundary pool \
(ints 0,+-1,2,3,7,62..65,127,128,255,256,+-2^31,MIN,MIN+1,MAX,MAX-1; floats +-0.0,+-1.5,+-inf,NaN,2^53,2^63,1e308; bytes 0,1,127,128,255; bools; \
strings \"\",a,b,ab,e-acute; chars; arrays [],[1],[1,2]; maps; null; a closure; a builtin), each run as a one-expression program through the real pipeline \
and compared with the reference table of DESIGN.md Appendix A; (laws) a<=b <=> a<b or a==b, a>=b <=> a>b or a==b, a<b <=> b>a, at most one of <,==,> on every numeric pair; \
(random) proptest-generated same-kind and mixed numeric operands (uniform 64-bit ints, random-bit floats, small shifts and huge shifts, random strings). \
Non-trivial: at least one operand is a boundary value (not a small positive int) or the operand kinds differ. Distinct by rendered expression text.",
    assumptions: &[
        "operands are built from literals and from float()/byte()/char() for values without a literal form",
        "semantics under test = dev profile (overflow checks on): a Rust arithmetic-overflow panic is a violation, not a wrap",
    ],
    required_classes: &[("table:binary", 40_000), ("table:unary", 100), ("laws", 500), ("random", 10_000)],
    exhaustive_when_sections: &["table"],
};

pub fn pool() -> Vec<Val> {
    let mut v = Vec::new();
    for i in [
        0i64, 1, -1, 2, 3, 7, -2, 62, 63, 64, 65, 127, 128, 255, 256, 1 << 31, -(1 << 31), i64::MIN, i64::MIN + 1, i64::MAX, i64::MAX - 1,
        // integers that no double holds exactly, next to the doubles they round to
        (1 << 53) + 1, (1 << 53) - 1, -((1 << 53) + 1), (1 << 62) + 1,
    ] {
        v.push(Val::Int(i));
    }
    for f in [0.0f64, -0.0, 1.0, 1.5, -1.5, f64::INFINITY, f64::NEG_INFINITY, f64::NAN, 9007199254740992.0, 9223372036854775808.0, 1e308, -9007199254740992.0, 4611686018427387904.0, 9007199254740994.0] {
        v.push(Val::Float(f));
    }
    for b in [0u8, 1, 127, 128, 255] {
        v.push(Val::Byte(b));
    }
    v.push(Val::Bool(true));
    v.push(Val::Bool(false));
    for s in ["", "a", "b", "ab", "é"] {
        v.push(Val::Str(s.to_string()));
    }
    for c in ['a', 'b', 'é', '\0'] {
        v.push(Val::Char(c));
    }
    v.push(Val::Arr(vec![]));
    v.push(Val::Arr(vec![Val::Int(1)]));
    v.push(Val::Arr(vec![Val::Int(1), Val::Int(2)]));
    v.push(Val::Map(vec![]));
    v.push(Val::Map(vec![(Val::Int(1), Val::Int(2))]));
    v.push(Val::Null);
    v.push(Val::Fn);
    v.push(Val::Builtin("len".into()));
    v
}

fn is_boundary(v: &Val) -> bool {
    match v {
        Val::Int(i) => !(2..=9).contains(i),
        _ => true,
    }
}

fn outcome_of(text: &str) -> Result<Result<Val, String>, String> {
    match run_text(text) {
        Outcome::Ran(r) => Ok(match r.err {
            Some((m, _)) => Err(m),
            None => Ok(r.last),
        }),
        Outcome::Panic(p) => Err(format!("PANIC {}|{}", p.signature(), p.describe())),
        o => Err(format!("HARNESS {}", o.tag())),
    }
}

fn show_got(g: &Result<Val, String>) -> String {
    match g {
        Ok(v) => v.show(),
        Err(m) => format!("runtime error ({})", m),
    }
}

fn class_of(e: &Expect, got: &Result<Val, String>) -> &'static str {
    match (e, got) {
        (Expect::Error, Ok(_)) => "missing-error",
        (_, Err(_)) => "unexpected-error",
        _ => "wrong-value",
    }
}

fn check_bin(ctx: &mut Ctx, section: &str, op: &str, a: &Val, b: &Val) -> Vec<Violation> {
    // memory exclusion of the property: no huge repetitions
    if op == "*" {
        if let (Val::Str(s), Val::Int(n)) | (Val::Int(n), Val::Str(s)) = (a, b) {
            if *n > 0 && (*n as u128) * (s.len().max(1) as u128) > 1 << 22 {
                ctx.excluded(1);
                return vec![];
            }
        }
    }
    let text = format!("({}) {} ({})", lit(a), op, lit(b));
    guard(section, "src", &text);
    let expect = ops::binop(op, a, b);
    let nontrivial = is_boundary(a) || is_boundary(b) || a.kind() != b.kind();
    ctx.case(hash_str(&text), nontrivial);
    let case = json!({"op": op, "a": a, "b": b});
    let mut out = Vec::new();
    match outcome_of(&text) {
        Ok(got) => {
            if !ops::satisfies(&expect, &got) {
                out.push(Violation::new(
                    section,
                    format!("op:{}:{},{}:{}", op, a.kind(), b.kind(), class_of(&expect, &got)),
                    format!("`{}`: expected {}, got {}", text, ops::show_expect(&expect), show_got(&got)),
                    case,
                ));
            }
        }
        Err(e) if e.starts_with("PANIC ") => {
            let sig = e[6..].split('|').take(3).collect::<Vec<_>>().join("|");
            out.push(Violation::new(section, sig, format!("`{}`: expected {}, got a crash: {}", text, ops::show_expect(&expect), e), case));
        }
        Err(e) => ctx.infra(format!("C09 harness: `{}` did not run: {}", text, e)),
    }
    if ctx.want_sample() && nontrivial && ctx.res.evals % 1013 == 7 {
        ctx.sample(json!({"expr": text, "expected": ops::show_expect(&expect)}));
    }
    out
}

fn check_un(ctx: &mut Ctx, section: &str, op: &str, a: &Val) -> Vec<Violation> {
    let text = format!("{}({})", op, lit(a));
    guard(section, "src", &text);
    let expect = ops::unop(op, a);
    ctx.case(hash_str(&text), true);
    let case = json!({"op": op, "a": a});
    let mut out = Vec::new();
    match outcome_of(&text) {
        Ok(got) => {
            if !ops::satisfies(&expect, &got) {
                out.push(Violation::new(
                    section,
                    format!("unop:{}:{}:{}", op, a.kind(), class_of(&expect, &got)),
                    format!("`{}`: expected {}, got {}", text, ops::show_expect(&expect), show_got(&got)),
                    case,
                ));
            }
        }
        Err(e) if e.starts_with("PANIC ") => {
            let sig = e[6..].split('|').take(3).collect::<Vec<_>>().join("|");
            out.push(Violation::new(section, sig, format!("`{}`: expected {}, got a crash: {}", text, ops::show_expect(&expect), e), case));
        }
        Err(e) => ctx.infra(format!("C09 harness: `{}` did not run: {}", text, e)),
    }
    out
}

fn is_numeric(v: &Val) -> bool {
    matches!(v, Val::Int(_) | Val::Float(_))
}

/// consistency laws between the relational operators and `==`
fn check_laws(ctx: &mut Ctx, section: &str, a: &Val, b: &Val) -> Vec<Violation> {
    let mut out = Vec::new();
    let mut get = |op: &str, x: &Val, y: &Val| -> Option<bool> {
        let text = format!("({}) {} ({})", lit(x), op, lit(y));
        match outcome_of(&text) {
            Ok(Ok(Val::Bool(b))) => Some(b),
            _ => None,
        }
    };
    let (lt, gt, le, ge, eq) = (get("<", a, b), get(">", a, b), get("<=", a, b), get(">=", a, b), get("==", a, b));
    let gt_rev = get(">", b, a);
    ctx.case(hash_str(&format!("law {} {}", lit(a), lit(b))), true);
    ctx.class("laws");
    if let (Some(lt), Some(gt), Some(le), Some(ge), Some(eq), Some(gt_rev)) = (lt, gt, le, ge, eq, gt_rev) {
        let case = json!({"law": true, "a": a, "b": b});
        let kinds = format!("{},{}", a.kind(), b.kind());
        let mut bad = |name: &str, detail: String| {
            out.push(Violation::new(section, format!("law:{}:{}", name, kinds), detail, case.clone()));
        };
        if le != (lt || eq) {
            bad("le", format!("a={} b={}: a<=b is {} but a<b is {} and a==b is {}", lit(a), lit(b), le, lt, eq));
        }
        if ge != (gt || eq) {
            bad("ge", format!("a={} b={}: a>=b is {} but a>b is {} and a==b is {}", lit(a), lit(b), ge, gt, eq));
        }
        if lt != gt_rev {
            bad("flip", format!("a={} b={}: a<b is {} but b>a is {}", lit(a), lit(b), lt, gt_rev));
        }
        if (lt as u8 + gt as u8 + eq as u8) > 1 {
            bad("trichotomy", format!("a={} b={}: more than one of a<b ({}), a==b ({}), a>b ({}) holds", lit(a), lit(b), lt, eq, gt));
        }
        let nan = matches!(a, Val::Float(f) if f.is_nan()) || matches!(b, Val::Float(f) if f.is_nan());
        if !nan && (lt as u8 + gt as u8 + eq as u8) == 0 {
            bad("total", format!("a={} b={}: none of a<b, a==b, a>b holds for non-NaN numbers", lit(a), lit(b)));
        }
    }
    out
}

fn rand_int(c: &mut Choices) -> i64 {
    match c.below(6) {
        0 => c.range(-10, 10),
        1 => *c.pickv(&[i64::MIN, i64::MAX, i64::MIN + 1, i64::MAX - 1, 1 << 62, -(1 << 62), 1 << 32, 3037000500, -3037000500]),
        2 => c.range(0, 130),
        3 => (c.u32() as i64) - (1 << 31),
        _ => c.u64() as i64,
    }
}

fn rand_float(c: &mut Choices) -> f64 {
    match c.below(5) {
        0 => c.range(-20, 20) as f64 / 4.0,
        1 => *c.pickv(&[0.0, -0.0, f64::INFINITY, f64::NEG_INFINITY, f64::NAN, f64::MAX, f64::MIN_POSITIVE, 5e-324, 9007199254740993.0]),
        2 => c.u64() as i64 as f64,
        _ => {
            let f = f64::from_bits(c.u64());
            f
        }
    }
}

fn rand_str(c: &mut Choices) -> String {
    let n = c.below(5);
    (0..n).map(|_| *c.pickv(&['a', 'b', 'z', 'A', ' ', 'é', '0', '💖', '~'])).collect()
}

fn rand_pair(c: &mut Choices) -> (Val, Val) {
    match c.below(10) {
        0 | 1 | 2 => (Val::Int(rand_int(c)), Val::Int(rand_int(c))),
        3 => (Val::Float(rand_float(c)), Val::Float(rand_float(c))),
        4 => (Val::Int(rand_int(c)), Val::Float(rand_float(c))),
        5 => (Val::Float(rand_float(c)), Val::Int(rand_int(c))),
        6 => (Val::Byte(c.byte()), Val::Byte(c.byte())),
        7 => {
            if c.bool() {
                (Val::Int(rand_int(c)), Val::Byte(c.byte()))
            } else {
                (Val::Byte(c.byte()), Val::Int(rand_int(c)))
            }
        }
        8 => (Val::Str(rand_str(c)), Val::Str(rand_str(c))),
        _ => match c.below(3) {
            0 => (Val::Str(rand_str(c)), Val::Int(c.range(-3, 40))),
            1 => (Val::Char(*c.pickv(&['a', 'b', 'é', 'Z'])), Val::Char(*c.pickv(&['a', 'b', 'é', 'Z']))),
            _ => {
                let n = c.below(4);
                let m = c.below(4);
                (
                    Val::Arr((0..n).map(|_| Val::Int(c.range(0, 5))).collect()),
                    Val::Arr((0..m).map(|_| Val::Int(c.range(0, 5))).collect()),
                )
            }
        },
    }
}

/// both operands are one and the same object (`let x = v; x op x`): the result must be that of `v op v`
fn check_same(ctx: &mut Ctx, section: &str, op: &str, a: &Val) -> Vec<Violation> {
    if op == "*" {
        if let Val::Str(_) | Val::Arr(_) = a {
            // kinds only; no repetition can arise from x * x
        }
    }
    let text = format!("let x = {}; x {} x", lit(a), op);
    guard(section, "src", &text);
    let expect = ops::binop(op, a, a);
    ctx.case(hash_str(&text), true);
    let case = json!({"op": op, "a": a, "same": true});
    let mut out = Vec::new();
    match outcome_of(&text) {
        Ok(got) => {
            if !ops::satisfies(&expect, &got) {
                out.push(Violation::new(section, format!("same-object:{}:{}:{}", op, a.kind(), class_of(&expect, &got)), format!("`{}`: expected {}, got {}", text, ops::show_expect(&expect), show_got(&got)), case));
            }
        }
        Err(e) if e.starts_with("PANIC ") => {
            let sig = e[6..].split('|').take(3).collect::<Vec<_>>().join("|");
            out.push(Violation::new(section, sig, format!("`{}`: got a crash: {}", text, e), case));
        }
        Err(e) => ctx.infra(format!("C09 harness: `{}` did not run: {}", text, e)),
    }
    out
}

/// two prefix operators in a row: the inner result (or its error) feeds the outer one
fn check_un2(ctx: &mut Ctx, section: &str, outer: &str, inner: &str, a: &Val, spaced: bool) -> Vec<Violation> {
    let text = if spaced { format!("{} {}({})", outer, inner, lit(a)) } else { format!("{}({}({}))", outer, inner, lit(a)) };
    guard(section, "src", &text);
    let expect = match ops::unop(inner, a) {
        ops::Expect::Is(v) => ops::unop(outer, &v),
        ops::Expect::Error => ops::Expect::Error,
        _ => return vec![],
    };
    ctx.case(hash_str(&text), true);
    let case = json!({"op": outer, "inner": inner, "a": a, "spaced": spaced});
    let mut out = Vec::new();
    match outcome_of(&text) {
        Ok(got) => {
            if !ops::satisfies(&expect, &got) {
                out.push(Violation::new(section, format!("unop2:{}{}:{}:{}", outer, inner, a.kind(), class_of(&expect, &got)), format!("`{}`: expected {}, got {}", text, ops::show_expect(&expect), show_got(&got)), case));
            }
        }
        Err(e) if e.starts_with("PANIC ") => {
            let sig = e[6..].split('|').take(3).collect::<Vec<_>>().join("|");
            out.push(Violation::new(section, sig, format!("`{}`: got a crash: {}", text, e), case));
        }
        Err(e) => ctx.infra(format!("C09 harness: `{}` did not run: {}", text, e)),
    }
    out
}

/// `+` on two arrays builds a new array: changing the result afterwards must not change an operand
/// (an operand that is empty, or the same variable on both sides, included)
fn check_fresh(ctx: &mut Ctx, a: &Val, b: &Val, same_var: bool) -> Vec<Violation> {
    let (la, lb) = match (a, b) {
        (Val::Arr(x), Val::Arr(y)) => (x.len(), y.len()),
        _ => return vec![],
    };
    let (text, expect) = if same_var {
        (format!("let a = {}; let c = a + a; push(c, 99); c[0] = 77; [a, len(c)]", lit(a)), Val::Arr(vec![a.clone(), Val::Int(2 * la as i64 + 1)]))
    } else {
        (format!("let a = {}; let b = {}; let c = a + b; push(c, 99); c[0] = 77; [a, b, len(c)]", lit(a), lit(b)), Val::Arr(vec![a.clone(), b.clone(), Val::Int((la + lb) as i64 + 1)]))
    };
    ctx.case(hash_str(&text), la == 0 || lb == 0 || same_var);
    ctx.class("fresh-result");
    guard("fresh", "text", &text);
    let mut out = Vec::new();
    match outcome_of(&text) {
        Ok(Ok(v)) if v.same(&expect) => {}
        Ok(got) => out.push(Violation::new("fresh", "concatenation-aliases-an-operand", format!("`{}`: expected {}, got {}", text, expect.show(), show_got(&got)), json!({"fresh": true, "a": a, "b": b, "same_var": same_var}))),
        Err(e) => out.push(Violation::new("fresh", if e.starts_with("PANIC") { e.split('|').next().unwrap_or("PANIC")[6..].to_string() } else { "harness".to_string() }, e, json!({"fresh": true, "a": a, "b": b, "same_var": same_var}))),
    }
    out
}

pub fn run(ctx: &mut Ctx) {
    {
        let pool = pool();
        let mut k = 1u64 << 40;
        for outer in ops::UNOPS {
            for inner in ops::UNOPS {
                for a in &pool {
                    for spaced in [false, true] {
                        k += 1;
                        if !ctx.mine(k) {
                            continue;
                        }
                        ctx.class("table:double-unary");
                        for v in check_un2(ctx, "table", outer, inner, a, spaced) {
                            ctx.report(v);
                        }
                    }
                }
            }
        }
    }
    {
        let pool = pool();
        let mut k = 0u64;
        for op in ops::BINOPS {
            for a in &pool {
                k += 1;
                if !ctx.mine(k) {
                    continue;
                }
                ctx.class("table:same-object");
                for v in check_same(ctx, "same-object", op, a) {
                    ctx.report(v);
                }
                // and through a container that is compared with a copy sharing the element
                if matches!(*op, "==" | "!=") {
                    let text = format!("let x = {}; let a = [x]; let b = [x]; a {} b", lit(a), op);
                    let expect = ops::binop(op, &Val::Arr(vec![a.clone()]), &Val::Arr(vec![a.clone()]));
                    ctx.case(hash_str(&text), true);
                    if let Ok(got) = outcome_of(&text) {
                        if !ops::satisfies(&expect, &got) {
                            ctx.report(Violation::new("same-object", format!("shared-element:{}:{}", op, a.kind()), format!("`{}`: expected {}, got {}", text, ops::show_expect(&expect), show_got(&got)), json!({"op": op, "a": a, "same": true})));
                        }
                    }
                }
            }
        }
    }
    {
        let arrays = vec![
            Val::Arr(vec![]),
            Val::Arr(vec![Val::Int(1)]),
            Val::Arr(vec![Val::Int(1), Val::Int(2)]),
            Val::Arr(vec![Val::Str("s".into())]),
            Val::Arr(vec![Val::Arr(vec![Val::Int(1)])]),
            Val::Arr(vec![Val::Float(0.5), Val::Int(1), Val::Null]),
        ];
        let mut k = 0u64;
        for a in &arrays {
            for b in &arrays {
                k += 1;
                if !ctx.mine(k) {
                    continue;
                }
                for v in check_fresh(ctx, a, b, false) {
                    ctx.report(v);
                }
            }
            k += 1;
            if ctx.mine(k) {
                for v in check_fresh(ctx, a, a, true) {
                    ctx.report(v);
                }
            }
        }
    }
    let pool = pool();
    let mut idx = 0u64;
    for op in ops::BINOPS {
        for a in &pool {
            for b in &pool {
                idx += 1;
                if !ctx.mine(idx) {
                    continue;
                }
                ctx.class("table:binary");
                for v in check_bin(ctx, "table", op, a, b) {
                    ctx.report(v);
                }
            }
        }
    }
    for op in ops::UNOPS {
        for a in &pool {
            idx += 1;
            if !ctx.mine(idx) {
                continue;
            }
            ctx.class("table:unary");
            for v in check_un(ctx, "table", op, a) {
                ctx.report(v);
            }
        }
    }
    ctx.exhaustive("table");
    // laws over every numeric pair of the pool (bytes included)
    let nums: Vec<&Val> = pool.iter().filter(|v| is_numeric(v) || matches!(v, Val::Byte(_))).collect();
    for a in &nums {
        for b in &nums {
            idx += 1;
            if !ctx.mine(idx) {
                continue;
            }
            if matches!(a, Val::Byte(_)) != matches!(b, Val::Byte(_)) {
                continue; // byte vs int/float ordering is a don't-care zone
            }
            for v in check_laws(ctx, "laws", a, b) {
                ctx.report(v);
            }
        }
    }
    let n = ctx.nshards as u32;
    drive(ctx, "random", ctx.tier.pick(240_000, 5_000_000) / n, 8, 40, |ctx, bytes| {
        let mut c = Choices::new(bytes);
        let (a, b) = rand_pair(&mut c);
        let op = c.pick(ops::BINOPS);
        ctx.class("random");
        let mut vs = check_bin(ctx, "random", op, &a, &b);
        if is_numeric(&a) && is_numeric(&b) && c.below(4) == 0 {
            vs.extend(check_laws(ctx, "laws", &a, &b));
        }
        if c.below(8) == 0 {
            let uop = c.pick(ops::UNOPS);
            vs.extend(check_un(ctx, "random", uop, &a));
        }
        vs
    });
}

pub fn replay(section: &str, case: &Value, ctx: &mut Ctx) {
    let a: Val = match serde_json::from_value(case["a"].clone()) {
        Ok(v) => v,
        Err(_) => return ctx.infra("C09 replay: bad case"),
    };
    let vs = if case.get("fresh").is_some() {
        let b: Val = serde_json::from_value(case["b"].clone()).unwrap_or(Val::Null);
        check_fresh(ctx, &a, &b, case["same_var"].as_bool().unwrap_or(false))
    } else if case.get("inner").is_some() {
        check_un2(ctx, section, case["op"].as_str().unwrap_or("-"), case["inner"].as_str().unwrap_or("-"), &a, case["spaced"].as_bool().unwrap_or(false))
    } else if case.get("same").is_some() {
        check_same(ctx, section, case["op"].as_str().unwrap_or("=="), &a)
    } else if case.get("law").is_some() {
        let b: Val = serde_json::from_value(case["b"].clone()).unwrap_or(Val::Null);
        check_laws(ctx, section, &a, &b)
    } else if case.get("b").is_some() {
        let b: Val = serde_json::from_value(case["b"].clone()).unwrap_or(Val::Null);
        check_bin(ctx, section, case["op"].as_str().unwrap_or("+"), &a, &b)
    } else {
        check_un(ctx, section, case["op"].as_str().unwrap_or("-"), &a)
    };
    for v in vs {
        ctx.report(v);
    }
}
