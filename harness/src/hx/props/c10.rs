//! C10 — map lookups are consistent with value equality.

use serde_json::{json, Value};

use super::super::ast::*;
use super::super::choices::{hash_str, Choices};
use super::super::engine::*;
use super::super::gen::prologue;
use super::super::progcheck::*;
use super::Meta;

pub const META: Meta = Meta {
    rule: "(pairs, exhaustive) every ordered pair (k1,k2) of a 62-key pool (ints incl. 0,+-1,2^53,2^53+1,MIN,MAX; integral floats 0.0,-0.0,1.0,-1.0,2.0,2^53; non-integral floats 0.5,1.5,NaN,inf; bytes; chars; \
strings incl. \"1\" and \"1.0\"; booleans; null; builtins; nested arrays built from pool elements such as [1] vs [1.0], [0.0] vs [-0.0], [[1]] vs [[1.0]], [NaN]): insert under k1 (by index assignment / insert / \
map literal), then look k2 up through contains, get, insert (returned old value), len, map-literal construction with both keys, and m[k2] (value or key error); (histories, proptest) 1..40 random \
insert / index-assign / m[k] / get / contains / len operations over 2..8 keys of the pool on one map. Oracle: an association list keyed by the reference equality (1 == 1.0, 0.0 == -0.0, NaN != NaN, arrays element-wise). \
Non-trivial: the two keys are equal but not identical in kind/representation, or (histories) an overwrite is followed by a lookup. Distinct by source-text hash.",
    assumptions: &[
        "pairs whose equality the reference leaves open (byte vs integer/float) are executed for crashes only",
        "integers beyond 2^53 are not mixed with floats inside one history (equality through f64 is not transitive there)",
        "arrays are never mutated after being used as keys",
    ],
    required_classes: &[("pair", 3_000), ("pair:equal-not-identical", 30), ("history", 5_000), ("history:overwrite-then-lookup", 2_000)],
    exhaustive_when_sections: &["pairs"],
};

pub fn pool() -> Vec<E> {
    let mut v: Vec<E> = Vec::new();
    for i in [0i64, 1, -1, 2, 3, 9007199254740992, 9007199254740993, i64::MAX, i64::MIN] {
        v.push(E::Int(i));
    }
    for f in [0.0f64, -0.0, 1.0, -1.0, 2.0, 9007199254740992.0, 0.5, 1.5, f64::NAN, f64::INFINITY, 3.0] {
        v.push(E::Float(f));
    }
    for b in [0u8, 1, 65] {
        v.push(E::Byte(b));
    }
    for c in ['a', 'A', '1', '\0'] {
        v.push(E::Char(c));
    }
    for s in ["", "a", "1", "1.0", "true", "A"] {
        v.push(E::Str(s.to_string()));
    }
    v.push(E::Bool(true));
    v.push(E::Bool(false));
    v.push(E::Null);
    v.push(id("len"));
    v.push(id("first"));
    let arr = |xs: Vec<E>| E::Arr(xs);
    v.push(arr(vec![]));
    v.push(arr(vec![E::Int(1)]));
    v.push(arr(vec![E::Float(1.0)]));
    v.push(arr(vec![E::Float(0.0)]));
    v.push(arr(vec![E::Float(-0.0)]));
    v.push(arr(vec![E::Int(0)]));
    v.push(arr(vec![arr(vec![E::Int(1)])]));
    v.push(arr(vec![arr(vec![E::Float(1.0)])]));
    v.push(arr(vec![E::Str("a".into())]));
    v.push(arr(vec![E::Char('a')]));
    v.push(arr(vec![E::Int(1), E::Int(2)]));
    v.push(arr(vec![E::Float(1.0), E::Int(2)]));
    v.push(arr(vec![E::Int(1), E::Float(2.0)]));
    v.push(arr(vec![E::Null]));
    v.push(arr(vec![E::Bool(true)]));
    v.push(arr(vec![E::Float(f64::NAN)]));
    v.push(arr(vec![E::Int(2), E::Int(1)]));
    v.push(arr(vec![arr(vec![])]));
    // deeply nested arrays (two separately built equal ones, one with 1.0 for 1, one differing at the bottom)
    let deep = |n: usize, leaf: E| -> E {
        let mut e = E::Arr(vec![leaf]);
        for _ in 0..n {
            e = E::Arr(vec![e]);
        }
        e
    };
    v.push(deep(17, E::Int(1)));
    v.push(deep(17, E::Float(1.0)));
    v.push(deep(17, E::Int(2)));
    v.push(deep(40, E::Int(1)));
    v.push(deep(40, E::Float(1.0)));
    // wide ones
    v.push(arr((0..40).map(E::Int).collect()));
    v.push(arr((0..40).map(|i| if i == 39 { E::Float(39.0) } else { E::Int(i) }).collect()));
    v.push(arr(vec![E::Float(1.5)]));
    v.push(arr(vec![E::Byte(1)]));
    v.push(arr(vec![E::Int(1), E::Int(1)]));
    v
}

fn obs(e: E) -> S {
    S::Expr(call("push", vec![id("obs"), e]))
}

fn check(ctx: &mut Ctx, section: &str, class: &str, prog: &[S], nontrivial: bool, extra_class: Option<&str>) -> Vec<Violation> {
    let rr = reference(prog, 100_000);
    let v = compare(section, prog, &rr);
    ctx.case(hash_str(&v.src), nontrivial && v.compared);
    ctx.class(class);
    if let Some(c) = extra_class {
        if v.compared {
            ctx.class(c);
        }
    }
    if rr.unspecified.is_some() {
        ctx.class("ref:unspecified");
    }
    if ctx.want_sample() && nontrivial && v.compared && ctx.res.evals % 101 == 3 {
        ctx.sample(json!({"section": section, "src": v.src, "reference_obs": rr.obs.show()}));
    }
    v.violations
}

fn equal_not_identical(a: &E, b: &E) -> bool {
    use super::super::interp::{to_val, Interp};
    let mut it = Interp::new(1000);
    let va = it.eval(a, &None).ok().map(|v| to_val(&v));
    let vb = it.eval(b, &None).ok().map(|v| to_val(&v));
    match (va, vb) {
        (Some(x), Some(y)) => super::super::ops::lang_eq(&x, &y) == Some(true) && !x.same(&y),
        _ => false,
    }
}

fn pairs(ctx: &mut Ctx) {
    let p = pool();
    let mut idx = 0u64;
    for k1 in &p {
        for k2 in &p {
            idx += 1;
            if !ctx.mine(idx) {
                continue;
            }
            let eni = equal_not_identical(k1, k2);
            // program 1: the non-failing lookups
            let mut prog = prologue();
            prog.push(S::Let("m".into(), E::Map(vec![])));
            prog.push(S::Expr(assign(idx_(id("m"), k1.clone()), E::Int(1))));
            prog.push(obs(call("contains", vec![id("m"), k2.clone()])));
            prog.push(obs(call("get", vec![id("m"), k2.clone()])));
            prog.push(obs(call("insert", vec![id("m"), k2.clone(), E::Int(2)])));
            prog.push(obs(call("len", vec![id("m")])));
            prog.push(obs(call("get", vec![id("m"), k1.clone()])));
            prog.push(obs(call("len", vec![E::Map(vec![(k1.clone(), E::Int(1)), (k2.clone(), E::Int(2))])])));
            prog.push(obs(call("get", vec![E::Map(vec![(k1.clone(), E::Int(1)), (k2.clone(), E::Int(2))]), k1.clone()])));
            // a second map filled through insert()
            prog.push(S::Let("n".into(), E::Map(vec![(k1.clone(), E::Null)])));
            prog.push(obs(call("contains", vec![id("n"), k2.clone()])));
            prog.push(obs(call("insert", vec![id("n"), k2.clone(), E::Int(5)])));
            prog.push(obs(call("len", vec![id("n")])));
            prog.push(S::Expr(E::Int(0)));
            for v in check(ctx, "pairs", "pair", &prog, true, if eni { Some("pair:equal-not-identical") } else { None }) {
                ctx.report(v);
            }
            // metamorphic form of the statement ("the same entry exactly when k1 == k2"): the
            // implementation's own == decides, so kind mixes the reference leaves open are covered too
            for v in check_against_own_eq(ctx, k1, k2) {
                ctx.report(v);
            }
            // program 2: m[k2] yields the value or a key error
            let mut prog = prologue();
            prog.push(S::Let("m".into(), E::Map(vec![(k1.clone(), E::Int(7))])));
            prog.push(obs(idx_(id("m"), k2.clone())));
            prog.push(S::Expr(E::Int(0)));
            for v in check(ctx, "pairs", "pair", &prog, true, None) {
                ctx.report(v);
            }
        }
    }
    ctx.exhaustive("pairs");
}

fn idx_(a: E, i: E) -> E {
    E::Idx(Box::new(a), Box::new(i))
}

fn check_against_own_eq(ctx: &mut Ctx, k1: &E, k2: &E) -> Vec<Violation> {
    use super::super::p2::{run_text, Outcome, Val};
    let mut prog = prologue();
    prog.push(S::Let("e".into(), bin("==", k1.clone(), k2.clone())));
    prog.push(S::Let("m".into(), E::Map(vec![])));
    prog.push(S::Expr(assign(idx_(id("m"), k1.clone()), E::Int(1))));
    prog.push(obs(id("e")));
    prog.push(obs(call("contains", vec![id("m"), k2.clone()])));
    prog.push(obs(call("get", vec![id("m"), k2.clone()])));
    prog.push(obs(call("insert", vec![id("m"), k2.clone(), E::Int(2)])));
    prog.push(obs(call("len", vec![id("m")])));
    prog.push(obs(call("len", vec![E::Map(vec![(k1.clone(), E::Int(1)), (k2.clone(), E::Int(2))])])));
    prog.push(S::Expr(E::Int(0)));
    let src = render(&prog);
    guard("pairs", "src", &src);
    ctx.case(hash_str(&src), true);
    ctx.class("pair:own-eq");
    let case = json!({"own_eq": true, "k1": k1, "k2": k2, "src": src});
    match run_text(&src) {
        Outcome::Ran(r) if r.err.is_none() => {
            if let Val::Arr(o) = &r.g0 {
                if o.len() == 6 {
                    if let Val::Bool(e) = o[0] {
                        let exp_val = if e { Val::Int(1) } else { Val::Null };
                        let exp_len = if e { 1 } else { 2 };
                        let ok = o[1].same(&Val::Bool(e)) && o[2].same(&exp_val) && o[3].same(&exp_val) && o[4].same(&Val::Int(exp_len)) && o[5].same(&Val::Int(exp_len));
                        if !ok {
                            return vec![Violation::new(
                                "pairs",
                                format!("map-disagrees-with-own-eq:{}", if e { "equal-keys-separate-entries" } else { "unequal-keys-same-entry" }),
                                format!("k1 == k2 is {} but [contains, get, insert-returned, len, literal-len] = {}\n{}", e, Val::Arr(o[1..].to_vec()).show(), src),
                                case,
                            )];
                        }
                    }
                }
            }
            vec![]
        }
        Outcome::Panic(p) => vec![Violation::new("pairs", p.signature(), format!("crash: {}\n{}", p.describe(), src), case)],
        _ => vec![],
    }
}

fn is_big_int(e: &E) -> bool {
    matches!(e, E::Int(i) if i.unsigned_abs() > (1u64 << 53))
}
fn has_float(e: &E) -> bool {
    match e {
        E::Float(_) => true,
        E::Arr(xs) => xs.iter().any(has_float),
        _ => false,
    }
}

fn history(bytes: &[u8]) -> (Vec<S>, bool) {
    let mut c = Choices::new(bytes);
    let p = pool();
    let nkeys = 2 + c.below(7);
    let mut keys: Vec<E> = Vec::new();
    for _ in 0..nkeys {
        let k = p[c.below(p.len())].clone();
        keys.push(k);
    }
    // equality through f64 is not transitive beyond 2^53: keep such ints away from floats
    if keys.iter().any(is_big_int) && keys.iter().any(has_float) {
        keys.retain(|k| !is_big_int(k));
    }
    if keys.is_empty() {
        keys.push(E::Int(1));
    }
    let mut prog = prologue();
    // initial literal with up to 3 of the keys
    let ninit = c.below(4).min(keys.len());
    prog.push(S::Let("m".into(), E::Map((0..ninit).map(|i| (keys[i].clone(), E::Int(100 + i as i64))).collect())));
    let nops = 1 + c.below(40);
    let mut written: Vec<usize> = (0..ninit).collect();
    let mut overwrite_then_lookup = false;
    let mut overwritten = false;
    for step in 0..nops {
        let ki = c.below(keys.len());
        let k = keys[ki].clone();
        let val = E::Int(step as i64);
        match c.below(7) {
            0 | 1 => {
                if written.contains(&ki) {
                    overwritten = true;
                }
                written.push(ki);
                prog.push(obs(call("insert", vec![id("m"), k, val])));
            }
            2 => {
                if written.contains(&ki) {
                    overwritten = true;
                }
                written.push(ki);
                prog.push(S::Expr(assign(idx_(id("m"), k), val)));
            }
            3 => {
                if overwritten {
                    overwrite_then_lookup = true;
                }
                prog.push(obs(call("get", vec![id("m"), k])));
            }
            4 => {
                if overwritten {
                    overwrite_then_lookup = true;
                }
                prog.push(obs(call("contains", vec![id("m"), k])));
            }
            5 => prog.push(obs(call("len", vec![id("m")]))),
            _ => {
                // m[k] only for keys that were written (a missing key ends the program with a key error);
                // one time in eight any key
                if written.contains(&ki) || c.below(8) == 0 {
                    if overwritten {
                        overwrite_then_lookup = true;
                    }
                    prog.push(obs(idx_(id("m"), k)));
                } else {
                    prog.push(obs(call("len", vec![id("m")])));
                }
            }
        }
    }
    prog.push(obs(call("len", vec![id("m")])));
    prog.push(S::Expr(E::Int(0)));
    (prog, overwrite_then_lookup)
}

pub fn run(ctx: &mut Ctx) {
    pairs(ctx);
    ctx.more_samples(3);
    let n = ctx.nshards as u32;
    drive(ctx, "histories", ctx.tier.pick(120_000, 2_000_000) / n, 8, 140, |ctx, bytes| {
        let (prog, otl) = history(bytes);
        check(ctx, "histories", "history", &prog, otl, if otl { Some("history:overwrite-then-lookup") } else { None })
    });
}

pub fn replay(section: &str, case: &Value, ctx: &mut Ctx) {
    if case.get("own_eq").is_some() {
        let k1: Option<E> = serde_json::from_value(case["k1"].clone()).ok();
        let k2: Option<E> = serde_json::from_value(case["k2"].clone()).ok();
        if let (Some(k1), Some(k2)) = (k1, k2) {
            for v in check_against_own_eq(ctx, &k1, &k2) {
                ctx.report(v);
            }
        }
        return;
    }
    match parse_prog(case) {
        Some(prog) => {
            for v in check(ctx, section, "replay", &prog, true, None) {
                ctx.report(v);
            }
        }
        None => ctx.infra("C10 replay: case has no program"),
    }
}
