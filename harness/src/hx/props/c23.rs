//! C23 — REPL lines accumulate state like one program; rejected lines have no effect.

use serde_json::{json, Value};

use super::super::ast::*;
use super::super::choices::{hash_str, Choices};
use super::super::e2e::{self, Opts, Stdin};
use super::super::engine::*;
use super::super::interp::{to_val, Env, Interp, Resolver, Stop};
use super::super::p2::Val;
use super::Meta;

pub const META: Meta = Meta {
    rule: "proptest: histories of 1..12 REPL entries over the names a b c d (variables) and f g (functions): definitions, redefinitions, assignments, function (re)definitions reading and updating globals, uses through puts, \
integer expression entries (echoed), multi-statement entries, entries split with '\\' continuations, entries with a parse error or a compile error (undefined name at top level, in a let value, inside a function body or a nested block; \
break outside a loop) that mention or would redefine existing names or define new ones before the error, entries failing at run time (division by zero, bad index) between side effects, and after every rejected entry a probe entry printing \
every binding and calling every function. The real run_prompt loop of the hooked binary is fed the entries on stdin (one process per history); its transcript is split at the record separators. \
Oracle: the reference interpreter run entry by entry over one global environment (each entry up to its first runtime error, rejected entries skipped; a static resolver decides rejection) predicts stdout of every entry; \
rejected entries must print nothing on stdout and something on stderr. For histories without a runtime error the same accepted entries joined into one `p2sh -c` program must print the same text (differential clause of the statement). \
Non-trivial: >= 1 rejected entry mentioning a bound name followed by a use of that name, or >= 3 accepted entries sharing state. Distinct by the joined entry text.",
    assumptions: &[
        "the echo of an entry whose last statement is not an expression statement is don't-care (one extra line tolerated)",
        "needs hook: scripted line source for Prompt::show (P2SH_VERIF_REPL); the hook replaces only the terminal input, the loop in run_prompt is the real one",
    ],
    required_classes: &[("history", 300), ("entry:parse-error", 150), ("entry:compile-error", 150), ("entry:runtime-error", 100), ("probe-after-reject", 200), ("entry:continuation", 50), ("differential:-c", 30)],
    exhaustive_when_sections: &[],
};

#[derive(Clone, Debug, PartialEq)]
enum Kind {
    Accepted,
    ParseError,
    CompileError,
}

#[derive(Clone, Debug)]
struct Entry {
    text: String,
    /// statements, for entries the reference can run
    stmts: Option<Vec<S>>,
    intended: Kind,
    continuation: bool,
}

struct G<'a, 'b> {
    c: &'a mut Choices<'b>,
    vars: Vec<&'static str>,
    fns: Vec<&'static str>,
}

// `last` and `first` are also names of builtins: a user binding must keep hiding them on later entries
const VARS: &[&str] = &["a", "b", "c", "d", "last"];
const FNS: &[&str] = &["f", "g", "first"];

impl<'a, 'b> G<'a, 'b> {
    fn expr(&mut self, depth: usize) -> E {
        let n = if depth == 0 { 3 } else { 8 };
        match self.c.below(n) {
            0 => E::Int(self.c.below(10) as i64),
            1 if !self.vars.is_empty() => id(self.vars[self.c.below(self.vars.len())]),
            2 if !self.fns.is_empty() && depth > 0 => call(self.fns[self.c.below(self.fns.len())], vec![self.expr(depth - 1)]),
            3 | 4 => {
                let op = ["+", "-", "*"][self.c.below(3)];
                let l = self.expr(depth - 1);
                let r = self.expr(depth - 1);
                bin(op, l, r)
            }
            5 => {
                let l = self.expr(depth - 1);
                let r = self.expr(depth - 1);
                let t = self.expr(depth - 1);
                let e = self.expr(depth - 1);
                E::If(Box::new(bin("<", l, r)), vec![S::Expr(t)], Some(Box::new(Else::Block(vec![S::Expr(e)]))))
            }
            _ => E::Int(self.c.below(100) as i64 - 20),
        }
    }
    fn new_or_old_var(&mut self) -> &'static str {
        VARS[self.c.below(VARS.len())]
    }
    fn fn_body(&mut self, p: &str) -> Vec<S> {
        let mut b = Vec::new();
        if !self.vars.is_empty() && self.c.chance(1, 3) {
            let v = self.vars[self.c.below(self.vars.len())];
            b.push(S::Expr(assign(id(v), bin("+", id(v), id(p)))));
        }
        let e = self.expr(1);
        b.push(S::Expr(bin("+", id(p), e)));
        b
    }
    fn accepted_stmt(&mut self) -> S {
        match self.c.below(8) {
            0 | 1 => {
                let v = self.new_or_old_var();
                // `let x = <expr mentioning x>` is a don't-care zone of the reference
                let mut e = self.expr(2);
                for _ in 0..6 {
                    if !mentions_e(&e, v) {
                        break;
                    }
                    e = self.expr(1);
                }
                if mentions_e(&e, v) {
                    e = E::Int(7);
                }
                if !self.vars.contains(&v) {
                    self.vars.push(v);
                }
                S::Let(v.to_string(), e)
            }
            2 if !self.vars.is_empty() => {
                let v = self.vars[self.c.below(self.vars.len())];
                let e = self.expr(2);
                S::Expr(assign(id(v), e))
            }
            4 if !self.fns.is_empty() => {
                // a definition-free statement that stores a new function literal in an existing function name
                let f = self.fns[self.c.below(self.fns.len())];
                let saved = self.fns.clone();
                self.fns = if f == "g" { saved.iter().copied().filter(|x| *x == "f").collect() } else { vec![] };
                let body = self.fn_body("p");
                self.fns = saved;
                S::Expr(assign(id(f), E::Fn(vec!["p".into()], body)))
            }
            3 => {
                let f = FNS[self.c.below(FNS.len())];
                // no recursion: f calls nothing, g may call f
                let saved = self.fns.clone();
                self.fns = if f == "g" { saved.iter().copied().filter(|x| *x == "f").collect() } else { vec![] };
                let body = self.fn_body("p");
                self.fns = saved;
                if !self.fns.contains(&f) {
                    self.fns.push(f);
                }
                S::FnDef(f.to_string(), vec!["p".into()], body)
            }
            _ => {
                let e = self.expr(2);
                S::Expr(call("puts", vec![e]))
            }
        }
    }
    fn probe(&mut self) -> Vec<S> {
        let mut v: Vec<S> = self.vars.iter().map(|n| S::Expr(call("puts", vec![id(n)]))).collect();
        for f in &self.fns {
            v.push(S::Expr(call("puts", vec![call(f, vec![E::Int(1)])])));
        }
        if v.is_empty() {
            v.push(S::Expr(call("puts", vec![E::Int(0)])));
        }
        v
    }
    fn one_line(stmts: &[S]) -> String {
        render(stmts).trim_end().replace('\n', " ")
    }
    fn entry(&mut self) -> Entry {
        let kind = self.c.below(16);
        match kind {
            // ---- parse errors mentioning existing names
            0 | 1 => {
                let v = if self.vars.is_empty() { "a" } else { self.vars[self.c.below(self.vars.len())] };
                let pre = if self.c.bool() { format!("let {} = 77; ", self.new_or_old_var()) } else { String::new() };
                let t = match self.c.below(7) {
                    0 => format!("{}let {} = ;", pre, v),
                    1 => format!("{}puts({}", pre, v),
                    2 => format!("{}{} = {} +* 2;", pre, v, v),
                    3 => format!("{}fn f( {{ {} }}", pre, v),
                    4 => format!("{}let 5 = {};", pre, v),
                    5 => format!("{}puts({} +);", pre, v),
                    _ => format!("{}let {} = [1, 2;", pre, v),
                };
                Entry { text: t, stmts: None, intended: Kind::ParseError, continuation: false }
            }
            // ---- compile errors
            2 | 3 | 4 => {
                let v = self.new_or_old_var();
                let f = FNS[self.c.below(FNS.len())];
                let t = match self.c.below(12) {
                    // the error sits two or three function levels down, or in a filter inside a function
                    8 => format!("fn {}(p) {{ fn(q) {{ p + q + zz9 }} }}", f),
                    9 => format!("let {} = fn(a) {{ fn(b) {{ fn(c) {{ a + zz9 }} }} }};", v),
                    10 => format!("fn {}(p) {{ let k = p; @ zz9 > k }}", f),
                    11 => format!("fn {}(p) {{ {{ let k = 1; fn(q) {{ {{ zz9 }} }} }} }}", f),
                    0 => "puts(zz9);".to_string(),
                    1 => format!("let {} = zz9 + 1;", v),
                    2 => format!("let {} = 55; puts(zz9);", v),
                    3 => format!("fn {}(p) {{ p + zz9 }}", f),
                    4 => format!("let {} = 66; fn {}(p) {{ p * 1000 }} puts(zz9);", v, f),
                    5 => format!("{{ let {} = 3; puts(zz9); }}", v),
                    6 => format!("let {} = 44; break;", v),
                    _ => format!("if (1 < 2) {{ {} = zz9; }}", if self.vars.is_empty() { "zz8" } else { self.vars[0] }),
                };
                Entry { text: t, stmts: None, intended: Kind::CompileError, continuation: false }
            }
            // ---- runtime error between side effects (no new names after the failing statement)
            5 | 6 if !self.vars.is_empty() => {
                let v = self.vars[self.c.below(self.vars.len())];
                let mut st = Vec::new();
                // sometimes the failing entry first (re)defines a function or a variable with literals of its own:
                // what was defined before the failure must survive it intact
                match self.c.below(4) {
                    0 => {
                        let f = FNS[self.c.below(FNS.len())];
                        let k = 1000 + self.c.below(9000) as i64;
                        if !self.fns.contains(&f) {
                            self.fns.push(f);
                        }
                        st.push(S::FnDef(f.to_string(), vec!["p".into()], vec![S::Expr(bin("+", id("p"), E::Int(k)))]));
                    }
                    1 => {
                        let w = self.new_or_old_var();
                        if w != v {
                            if !self.vars.contains(&w) {
                                self.vars.push(w);
                            }
                            st.push(S::Let(w.to_string(), E::Int(20_000 + self.c.below(9000) as i64)));
                        }
                    }
                    _ => {}
                }
                st.push(S::Expr(assign(id(v), bin("+", id(v), E::Int(1)))));
                st.push(S::Expr(call("puts", vec![id(v)])));
                let bad = match self.c.below(5) {
                    0 => bin("/", E::Int(1), E::Int(0)),
                    1 => bin("%", id(v), E::Int(0)),
                    2 => idx(E::Arr(vec![E::Int(1)]), E::Int(5)),
                    // the failure happens inside a called function (one or two calls deep)
                    3 => {
                        st.push(S::FnDef("boom".into(), vec!["n".into()], vec![S::Let("loc".into(), E::Int(3)), S::Expr(bin("/", E::Int(10), id("n")))]));
                        call("boom", vec![E::Int(0)])
                    }
                    _ => {
                        st.push(S::FnDef("boom".into(), vec!["n".into()], vec![S::Expr(idx(E::Arr(vec![E::Int(1), E::Int(2)]), id("n")))]));
                        st.push(S::FnDef("outer".into(), vec!["n".into()], vec![S::Let("keep".into(), id("n")), S::Expr(bin("+", call("boom", vec![bin("+", id("n"), E::Int(7))]), id("keep")))]));
                        call("outer", vec![E::Int(1)])
                    }
                };
                st.push(S::Expr(call("puts", vec![bad])));
                st.push(S::Expr(assign(id(v), bin("+", id(v), E::Int(100)))));
                st.push(S::Expr(call("puts", vec![id(v)])));
                Entry { text: Self::one_line(&st), stmts: Some(st), intended: Kind::Accepted, continuation: false }
            }
            // ---- integer expression (echoed)
            7 => {
                let e = self.expr(2);
                let st = vec![S::Expr(e)];
                Entry { text: Self::one_line(&st), stmts: Some(st), intended: Kind::Accepted, continuation: false }
            }
            // ---- probe
            8 => {
                let st = self.probe();
                Entry { text: Self::one_line(&st), stmts: Some(st), intended: Kind::Accepted, continuation: false }
            }
            // ---- one to three accepted statements, maybe over continuation lines
            _ => {
                let n = 1 + self.c.below(3);
                let mut st = Vec::new();
                for _ in 0..n {
                    st.push(self.accepted_stmt());
                }
                let cont = self.c.chance(1, 5);
                let text = if cont { render(&st).trim_end().replace('\n', "\\\n") } else { Self::one_line(&st) };
                let cont = cont && text.contains('\n');
                Entry { text, stmts: Some(st), intended: Kind::Accepted, continuation: cont }
            }
        }
    }
}

fn gen_history(bytes: &[u8]) -> Vec<Entry> {
    let mut c = Choices::new(bytes);
    let n = 1 + c.below(12);
    let mut g = G { c: &mut c, vars: vec![], fns: vec![] };
    let mut h = Vec::new();
    while h.len() < n {
        let e = g.entry();
        let rejected = e.intended != Kind::Accepted;
        h.push(e);
        if rejected {
            let st = g.probe();
            h.push(Entry { text: G::one_line(&st), stmts: Some(st), intended: Kind::Accepted, continuation: false });
        }
    }
    h
}

struct Expect {
    /// None: rejected entry
    stdout: Option<String>,
    /// the echoed value of the entry (part of stdout), when there is one
    echo: Option<String>,
    runtime_error: bool,
    /// the last statement is not an expression statement: one extra echo line is tolerated
    loose_echo: bool,
    unspecified: bool,
}

/// the model: entries run one by one over one global environment
fn model(h: &[Entry]) -> Vec<Expect> {
    let mut it = Interp::new(200_000);
    let mut env: Env = None;
    let mut globals: Vec<String> = Vec::new();
    let mut out = Vec::new();
    let mut dead = false;
    for e in h {
        let st = match (&e.stmts, &e.intended) {
            (Some(s), Kind::Accepted) => s,
            _ => {
                out.push(Expect { stdout: None, echo: None, runtime_error: false, loose_echo: false, unspecified: dead });
                continue;
            }
        };
        // static verdict with the names defined so far
        let mut r = Resolver::with_globals(&globals);
        r.program(st);
        if !r.found.is_empty() {
            out.push(Expect { stdout: None, echo: None, runtime_error: false, loose_echo: false, unspecified: dead });
            continue;
        }
        let new_globals = r.global_names();
        drop(r);
        globals = new_globals;
        let before = it.out.len();
        let res = it.run_more(st, &mut env);
        let mut text = it.out[before..].to_string();
        let last_is_expr = matches!(st.last(), Some(S::Expr(_)));
        match res {
            Ok(v) => {
                let mut echo = None;
                if last_is_expr {
                    match to_val(&v) {
                        Val::Null => {}
                        Val::Int(i) => echo = Some(format!("{}\n", i)),
                        Val::Bool(b) => echo = Some(format!("{}\n", b)),
                        _ => dead = true,
                    }
                }
                if let Some(e) = &echo {
                    text.push_str(e);
                }
                out.push(Expect { stdout: Some(text), echo, runtime_error: false, loose_echo: !last_is_expr, unspecified: dead });
            }
            Err(Stop::Error(_, _)) => out.push(Expect { stdout: Some(text), echo: None, runtime_error: true, loose_echo: false, unspecified: dead }),
            Err(_) => {
                dead = true;
                out.push(Expect { stdout: Some(text), echo: None, runtime_error: false, loose_echo: false, unspecified: true });
            }
        }
    }
    out
}

fn check(ctx: &mut Ctx, h: &[Entry], differential: bool) -> Vec<Violation> {
    let exp = model(h);
    let mut input = String::new();
    for e in h {
        input.push_str(&e.text);
        input.push('\n');
    }
    let case = json!({"entries": h.iter().map(|e| json!({"text": e.text, "stmts": e.stmts, "kind": format!("{:?}", e.intended)})).collect::<Vec<_>>()});
    guard("histories", "entries", &input);
    let fail = |sig: String, detail: String| Violation::new("histories", sig, detail, case.clone());
    let r = e2e::run(Opts::new(vec![]).env("P2SH_VERIF_REPL", "1").stdin(Stdin::Bytes(input.clone().into_bytes())));
    let mut out = Vec::new();
    if r.spawn_error.is_some() || r.timed_out {
        ctx.infra(format!("C23: spawn failed or timed out: {:?}", r.spawn_error));
        return out;
    }
    if let Some(c) = r.crashed() {
        out.push(fail(e2e::crash_signature(&c), format!("the REPL crashed: {}\nentries:\n{}", c, input)));
        return out;
    }
    let so = r.out_text();
    let se = r.err_text();
    let outs: Vec<&str> = so.split('\u{1e}').collect();
    let errs: Vec<&str> = se.split('\u{1e}').collect();
    if outs.len() != h.len() + 2 || errs.len() != h.len() + 2 {
        out.push(fail("transcript:entry-count".into(), format!("{} entries were sent, the transcript has {} stdout / {} stderr sections\nstdout: {:?}", h.len(), outs.len() as i64 - 2, errs.len() as i64 - 2, so)));
        return out;
    }
    let show = |upto: usize| -> String { h[..=upto].iter().enumerate().map(|(i, e)| format!("  [{}] {}", i + 1, e.text)).collect::<Vec<_>>().join("\n") };
    for (i, (e, x)) in h.iter().zip(exp.iter()).enumerate() {
        if x.unspecified {
            break;
        }
        let got = outs[i + 1];
        let got_err = errs[i + 1];
        match &x.stdout {
            None => {
                if got_err.trim().is_empty() {
                    out.push(fail(
                        format!("rejected-entry-accepted:{:?}", e.intended),
                        format!("entry {} should be rejected ({:?}) but no error was reported; stdout {:?}\n{}", i + 1, e.intended, got, show(i)),
                    ));
                    return out;
                }
                if !got.is_empty() {
                    out.push(fail("rejected-entry-printed".into(), format!("entry {} was rejected ({}) but printed {:?}\n{}", i + 1, got_err.trim(), got, show(i))));
                    return out;
                }
            }
            Some(want) => {
                let ok = got == want || (x.loose_echo && got.starts_with(want.as_str()) && got[want.len()..].trim_end_matches('\n').lines().count() <= 1 && got.ends_with('\n'));
                if !ok {
                    let after_reject = h[..i].iter().any(|p| p.intended != Kind::Accepted);
                    let sig = if !got_err.trim().is_empty() && !x.runtime_error {
                        if after_reject {
                            "accepted-entry-rejected:after-rejected-entry"
                        } else {
                            "accepted-entry-rejected"
                        }
                    } else if after_reject {
                        "output-differs:after-rejected-entry"
                    } else {
                        "output-differs"
                    };
                    out.push(fail(sig.into(), format!("entry {} printed {:?} (stderr {:?}); as the end of a script of the accepted entries it prints {:?}\n{}", i + 1, got, got_err.trim(), want, show(i))));
                    return out;
                }
                if x.runtime_error && got_err.trim().is_empty() {
                    out.push(fail("runtime-error-not-reported".into(), format!("entry {} fails at run time but nothing was reported\n{}", i + 1, show(i))));
                    return out;
                }
                if !x.runtime_error && !got_err.trim().is_empty() {
                    out.push(fail("accepted-entry-rejected".into(), format!("entry {} reported {:?} although it is a valid continuation of the accepted entries\n{}", i + 1, got_err.trim(), show(i))));
                    return out;
                }
            }
        }
    }
    // differential clause: the accepted entries as one -c program
    let clean = exp.iter().all(|x| !x.runtime_error && !x.unspecified);
    if differential && clean {
        let mut prog = String::new();
        let mut want = String::new();
        let n_acc = exp.iter().filter(|x| x.stdout.is_some()).count();
        let mut k = 0;
        for (i, (e, x)) in h.iter().zip(exp.iter()).enumerate() {
            if x.stdout.is_none() {
                continue;
            }
            k += 1;
            prog.push_str(&e.text.replace("\\\n", "\n"));
            prog.push('\n');
            let got = outs[i + 1];
            if k < n_acc {
                // the echo of an entry that is not the last one does not appear in a script
                let model_out = x.stdout.as_deref().unwrap_or("");
                let n_echo = x.echo.as_ref().map(|e| e.len()).unwrap_or(0);
                want.push_str(&model_out[..model_out.len() - n_echo]);
            } else {
                want.push_str(got);
            }
        }
        if n_acc > 0 {
            ctx.class("differential:-c");
            let rc = e2e::run(Opts::new(vec!["-c".into(), prog.clone()]));
            if let Some(c) = rc.crashed() {
                out.push(fail(e2e::crash_signature(&c), format!("-c crashed: {}", c)));
            } else {
                let last_loose = exp.iter().rev().find(|x| x.stdout.is_some()).map(|x| x.loose_echo).unwrap_or(false);
                let gc = rc.out_text();
                if gc != want && !(last_loose && (gc.starts_with(&want) || want.starts_with(&gc))) {
                    out.push(fail("differential:-c-differs".into(), format!("the accepted entries as one program print {:?} with -c; entry by entry at the REPL they printed {:?}\nprogram:\n{}", gc, want, prog)));
                }
            }
        }
    }
    out
}

fn one(ctx: &mut Ctx, bytes: &[u8]) -> Vec<Violation> {
    let h = gen_history(bytes);
    let joined: String = h.iter().map(|e| e.text.as_str()).collect::<Vec<_>>().join("\n");
    let exp = model(&h);
    let accepted = exp.iter().filter(|x| x.stdout.is_some()).count();
    let rejected_then_used = h.iter().enumerate().any(|(i, e)| e.intended != Kind::Accepted && i + 1 < h.len());
    ctx.case(hash_str(&joined), rejected_then_used || accepted >= 3);
    ctx.class("history");
    for (e, x) in h.iter().zip(exp.iter()) {
        match e.intended {
            Kind::ParseError => ctx.class("entry:parse-error"),
            Kind::CompileError => ctx.class("entry:compile-error"),
            Kind::Accepted => {
                if x.runtime_error {
                    ctx.class("entry:runtime-error");
                }
                if x.stdout.is_none() {
                    ctx.class("entry:rejected-by-model-only");
                }
            }
        }
        if e.continuation {
            ctx.class("entry:continuation");
        }
    }
    for w in h.windows(2) {
        if w[0].intended != Kind::Accepted && w[1].intended == Kind::Accepted {
            ctx.class("probe-after-reject");
        }
    }
    if exp.iter().any(|x| x.unspecified) {
        ctx.class("model:unspecified");
    }
    if ctx.want_sample() && h.len() >= 5 && ctx.res.evals % 5 == 1 {
        ctx.sample(json!({"entries": h.iter().map(|e| e.text.clone()).collect::<Vec<_>>()}));
    }
    let differential = bytes.first().map(|b| b % 4 == 0).unwrap_or(false);
    check(ctx, &h, differential)
}

pub fn run(ctx: &mut Ctx) {
    let n = ctx.nshards as u32;
    set_shrink_iters(150);
    ctx.more_samples(2);
    drive(ctx, "histories", ctx.tier.pick(2_000, 50_000) / n, 24, 400, |ctx, b| one(ctx, b));
}

pub fn replay(_section: &str, case: &Value, ctx: &mut Ctx) {
    let mut h = Vec::new();
    for e in case["entries"].as_array().cloned().unwrap_or_default() {
        let stmts: Option<Vec<S>> = serde_json::from_value(e["stmts"].clone()).ok().flatten();
        let intended = match e["kind"].as_str() {
            Some("ParseError") => Kind::ParseError,
            Some("CompileError") => Kind::CompileError,
            _ => Kind::Accepted,
        };
        h.push(Entry { text: e["text"].as_str().unwrap_or("").to_string(), stmts, intended, continuation: false });
    }
    for v in check(ctx, &h, true) {
        ctx.report(v);
    }
}
