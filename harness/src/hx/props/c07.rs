//! C07 — statements leave the operand stack balanced so loops run in constant stack.

use serde_json::{json, Value};

use super::super::ast::*;
use super::super::choices::{hash_str, Choices};
use super::super::engine::*;
use super::super::gen::{flatten, prologue, Cfg, Gen};
use super::super::p2::{compile_text, make_packet, run_filter_rounds, Compiled, Session, Step};
use super::super::progcheck::*;
use super::Meta;

pub const META: Meta = Meta {
    rule: "(statements, proptest) statement sequences from the program generator with the expression grammar turned loose inside statements: if/match used as operands \
(array/map elements, call arguments, binary operands, index expressions, let initialisers), branches ending in a nested block / a let / nothing, and (mode B) break/continue \
reachable inside such operand positions; every top-level statement is compiled and run the way the REPL does (shared symbol table, constants, globals) and the VM's operand-stack \
height (hook VM::verif_sp) must be 0 after it, also when the statement left a loop through break; (filter-frames, proptest) programs of one to three filter statements whose actions are generated statement sequences declaring locals, local functions and closures, run in-process the way run_filters of src/main.rs runs them (push_filter_frame / run / pop_filter_frame per packet, then the end filter) over 2-5 packets: the stack height after every single filter execution must equal the height before it; (long loops) a 10^4-iteration counter loop around generated statements, at top level \
and inside a function, run as a whole program: it must not report 'Stack overflow!' and must agree with the reference interpreter. \
Non-trivial: (statements) the sequence contains a jump inside an operand position, or a branch whose last statement is not an expression statement, or a loop left through break; \
(long loops) >= 4097 iterations actually executed per the reference. Distinct by source-text hash.",
    assumptions: &[
        "statement stepping replicates run_prompt of src/main.rs through the public Compiler::new_with_state / VM::new_with_global_store API",
        "stack height read through the verif_hooks accessor VM::verif_sp",
    ],
    required_classes: &[("statements", 5_000), ("shape:odd-branch", 500), ("shape:jump-in-operand", 300), ("long-loop", 300), ("long-loop:4097+", 100), ("filter-frames:locals-ran-twice", 2_000)],
    exhaustive_when_sections: &[],
};

/// Does a break/continue sit where operands of an enclosing expression are
/// already on the stack?  (the named detector of finding C07-jump-in-operand)
pub fn jump_with_pending(prog: &[S]) -> bool {
    prog.iter().any(|s| ws(s, false))
}

fn wb(b: &[S], p: bool) -> bool {
    b.iter().any(|s| ws(s, p))
}

fn ws(s: &S, p: bool) -> bool {
    match s {
        S::Break(_) | S::Continue(_) => p,
        S::Let(_, e) | S::Expr(e) => we(e, p),
        S::Ret(e) => e.as_ref().map(|e| we(e, p)).unwrap_or(false),
        S::Block(b) | S::Loop(_, b) => wb(b, p),
        S::While(_, c, b) => we(c, p) || wb(b, p),
        S::FnDef(_, _, b) => wb(b, false),
        _ => false,
    }
}

fn we(e: &E, p: bool) -> bool {
    match e {
        E::Un(_, x) | E::Mark(x) => we(x, p),
        E::Bin(op, a, b) => match op.as_str() {
            "&&" | "||" => we(a, p) || we(b, p),
            "<" | "<=" => we(b, p) || we(a, true),
            _ => we(a, p) || we(b, true),
        },
        E::Idx(a, i) => we(a, p) || we(i, true),
        E::Call(f, args) => we(f, p) || args.iter().any(|x| we(x, true)),
        E::Arr(xs) => xs.iter().enumerate().any(|(i, x)| we(x, p || i > 0)),
        E::Map(ps) => ps.iter().enumerate().any(|(i, (k, v))| we(k, p || i > 0) || we(v, true)),
        E::Assign(t, v) => {
            we(v, p)
                || match &**t {
                    E::Idx(a, i) => we(a, true) || we(i, true),
                    _ => false,
                }
        }
        E::If(c, t, el) => {
            we(c, p)
                || wb(t, p)
                || match el.as_deref() {
                    None => false,
                    Some(Else::Block(b)) => wb(b, p),
                    Some(Else::If(x)) => we(x, p),
                }
        }
        E::Match(s, arms) => we(s, p) || arms.iter().any(|a| a.block.as_ref().map(|b| wb(b, p)).unwrap_or(false) || a.expr.as_ref().map(|x| we(x, p)).unwrap_or(false)),
        E::Fn(_, b) => wb(b, false),
        _ => false,
    }
}

/// a branch / arm whose last statement is not an expression statement
fn has_odd_branch(prog: &[S]) -> bool {
    fn odd(b: &[S]) -> bool {
        !matches!(b.last(), Some(S::Expr(_)))
    }
    fn s(x: &S) -> bool {
        match x {
            S::Let(_, e) | S::Expr(e) => e_(e),
            S::Ret(e) => e.as_ref().map(e_).unwrap_or(false),
            S::Block(b) | S::Loop(_, b) | S::FnDef(_, _, b) => b.iter().any(s),
            S::While(_, c, b) => e_(c) || b.iter().any(s),
            _ => false,
        }
    }
    fn e_(e: &E) -> bool {
        match e {
            E::If(c, t, el) => {
                e_(c)
                    || odd(t)
                    || t.iter().any(s)
                    || match el.as_deref() {
                        None => false,
                        Some(Else::Block(b)) => odd(b) || b.iter().any(s),
                        Some(Else::If(x)) => e_(x),
                    }
            }
            E::Match(x, arms) => e_(x) || arms.iter().any(|a| a.block.as_ref().map(|b| odd(b) || b.iter().any(s)).unwrap_or(false) || a.expr.as_ref().map(e_).unwrap_or(false)),
            E::Un(_, x) | E::Mark(x) => e_(x),
            E::Bin(_, a, b) | E::Idx(a, b) | E::Assign(a, b) => e_(a) || e_(b),
            E::Call(f, a) => e_(f) || a.iter().any(e_),
            E::Arr(xs) => xs.iter().any(e_),
            E::Map(ps) => ps.iter().any(|(k, v)| e_(k) || e_(v)),
            E::Fn(_, b) => b.iter().any(s),
            _ => false,
        }
    }
    prog.iter().any(s)
}

fn gen_cfg(bytes: &[u8], jumps: bool) -> Cfg {
    let mut cfg = Cfg::default();
    let b = bytes.first().copied().unwrap_or(0);
    cfg.max_stmts = 4 + (b as usize % 16);
    cfg.max_depth = 3;
    cfg.odd_branches = true;
    cfg.jumps_in_operands = jumps;
    cfg.recursion = false;
    cfg.floats = false;
    cfg.p_fail = 8;
    cfg.int_boundaries = false;
    cfg
}

/// step through the top-level statements REPL-style and check the stack height
fn check_statements(ctx: &mut Ctx, section: &str, prog: &[S]) -> Vec<Violation> {
    let src_all = render(prog);
    // memory requests (huge repetition counts) are outside every property: consult the reference first
    if !prog.iter().any(|s| matches!(s, S::Raw(_))) {
        let rr = reference(prog, 300_000);
        // (the stepping below goes on after a failed statement, the whole-program reference does not)
        if memory_risk(&rr, &src_all) || (matches!(rr.result, Some(Err(_))) && stepwise_memory_risk(prog, 300_000)) {
            ctx.excluded(1);
            return vec![];
        }
    }
    guard(section, "src", &src_all);
    let pending = jump_with_pending(prog);
    let odd = has_odd_branch(prog);
    let mut out = Vec::new();
    let mut sess = Session::new();
    let mut broke = false;
    for (i, s) in prog.iter().enumerate() {
        let text = render(std::slice::from_ref(s));
        match sess.step(&text) {
            Step::Ran(r) => {
                if r.err.is_some() {
                    // the REPL discards the VM after a runtime error
                    continue;
                }
                if r.sp != 0 {
                    let sig = if pending { "sp-leak:jump-with-pending-operands" } else { "sp-leak" };
                    out.push(Violation::new(
                        section,
                        sig,
                        format!("operand stack height is {} (expected 0) after top-level statement #{}:\n{}\n--- whole sequence:\n{}", r.sp, i, text, src_all),
                        json!({"prog": prog, "src": src_all}),
                    ));
                    broke = true;
                    break;
                }
            }
            Step::Panic(p) => {
                out.push(Violation::new(section, p.signature(), format!("crash while stepping statement #{}: {}\n{}", i, p.describe(), src_all), json!({"prog": prog, "src": src_all})));
                broke = true;
                break;
            }
            Step::ParseErrors(e) => {
                out.push(Violation::new(section, "parse-error-on-generated-statement", format!("{:?}\n{}", e, text), json!({"prog": prog, "src": src_all})));
                broke = true;
                break;
            }
            Step::CompileError { .. } => {
                // a later statement may legitimately depend on one that failed; stop stepping
                break;
            }
        }
    }
    let _ = broke;
    ctx.case(hash_str(&src_all), pending || odd);
    ctx.class("statements");
    if pending {
        ctx.class("shape:jump-in-operand");
    }
    if odd {
        ctx.class("shape:odd-branch");
    }
    if ctx.want_sample() && (pending || odd) && ctx.res.evals % 131 == 9 {
        ctx.sample(json!({"section": section, "src": src_all, "jump_in_operand": pending, "odd_branch": odd}));
    }
    out
}

fn gen_statements(bytes: &[u8], jumps: bool) -> Vec<S> {
    let cfg = gen_cfg(bytes, jumps);
    let mut c = Choices::new(&bytes[1.min(bytes.len())..]);
    let mut g = Gen::new(&mut c, cfg);
    let p = g.program();
    flatten(p)
}

fn gen_long(bytes: &[u8], jumps: bool) -> Vec<S> {
    let mut cfg = gen_cfg(bytes, jumps);
    cfg.probes = false;
    cfg.max_depth = 2;
    cfg.loops = false;
    let mut c = Choices::new(&bytes[1.min(bytes.len())..]);
    let in_fn = c.below(3) == 0;
    let iters = *c.pickv(&[10_000i64, 10_000, 5_000, 4_200]);
    let mut g = Gen::new(&mut c, cfg);
    g.declare_prologue();
    g.set_budget(6);
    let mut prog = prologue();
    // a few globals for the body to use
    prog.push(S::Let("ga".into(), E::Int(3)));
    prog.push(S::Let("gb".into(), E::Arr(vec![E::Int(1), E::Int(2)])));
    let lp = g.long_loop(iters);
    let tmpl = g.c.below(4);
    let mut lp = flatten(lp);
    if jumps && tmpl < 3 {
        // directed shapes: a jump taken while an operand of the enclosing expression is pending
        let counter = match &lp[0] {
            S::Let(n, _) => n.clone(),
            _ => "k1".to_string(),
        };
        let even = bin("==", bin("%", id(&counter), E::Int(2)), E::Int(0));
        let stmt = match tmpl {
            0 => S::Expr(assign(id("ga"), bin("+", E::Int(1), E::If(Box::new(even), vec![S::Continue(None)], Some(Box::new(Else::Block(vec![S::Expr(E::Int(1))]))))))),
            1 => S::Expr(call("len", vec![E::Arr(vec![id(&counter), E::If(Box::new(even), vec![S::Continue(None)], None)])])),
            _ => S::Let(
                "w".into(),
                bin(
                    "*",
                    E::Int(2),
                    E::Match(
                        Box::new(bin("%", id(&counter), E::Int(3))),
                        vec![Arm { pats: vec![Pat::Int(0)], block: Some(vec![S::Continue(None)]), expr: None }, Arm { pats: vec![Pat::Default], block: None, expr: Some(E::Int(1)) }],
                    ),
                ),
            ),
        };
        if let Some(S::While(_, _, body)) = lp.get_mut(1) {
            body.push(stmt);
        }
    }
    if in_fn {
        let mut body = lp;
        body.push(S::Expr(E::Int(1)));
        prog.push(S::FnDef("work".into(), vec![], body));
        prog.push(S::Expr(call("push", vec![id("obs"), call("work", vec![])])));
    } else {
        prog.extend(lp);
    }
    prog.push(S::Expr(call("len", vec![id("obs")])));
    prog
}

fn check_long(ctx: &mut Ctx, section: &str, prog: &[S]) -> Vec<Violation> {
    let rr = reference_with(prog, 3_000_000, 200_000);
    let pending = jump_with_pending(prog);
    let v = compare(section, prog, &rr);
    let long = rr.loop_iters >= 4097;
    ctx.case(hash_str(&v.src), long && v.compared);
    ctx.class("long-loop");
    if long && v.compared {
        ctx.class("long-loop:4097+");
    }
    let mut out = Vec::new();
    for mut x in v.violations {
        if x.sig.contains("Stack overflow") {
            x.sig = if pending { "stack-overflow-in-loop:jump-with-pending-operands".into() } else { "stack-overflow-in-loop".into() };
        }
        out.push(x);
    }
    out
}

/// functions whose body does not end in an expression (empty, let, while, loop, nested fn, block, if without
/// value, bare return) leave through the plain `Return` instruction; every way of calling them must balance
fn fn_endings(ctx: &mut Ctx) {
    let bodies = [
        "", "let a = n;", "let i = 0; while i < n { i = i + 1; }", "loop { break; }", "fn g() { 1 }", "{ let b = 1; }", "if n > 0 { let c = 1; }", "n; let z = 1;", "while false { }", "return;",
        "if n > 1 { return; } let k = 2;", "match n { 1 => { let q = 1; }, _ => { } }", "let h = fn() { 1 };", "if n > 0 { n; } else { let e = 0; }",
    ];
    let contexts = ["f(2);", "let x = f(2);", "[f(1), f(2), f(3)];", "f(f(1));", "if f(1) { 1; } else { 2; }", "map {1: f(1)};", "let y = [f(1)][0];", "str(f(1));", "f(1) == f(2);", "let w = 0; while w < 3 { f(w); w = w + 1; }"];
    let mut idx = 0u64;
    for (bi, body) in bodies.iter().enumerate() {
        for style in 0..2 {
            let def = if style == 0 { format!("fn f(n) {{ {} }}", body) } else { format!("let f = fn(n) {{ {} }};", body) };
            for (ci, c) in contexts.iter().enumerate() {
                idx += 1;
                if !ctx.mine(idx) {
                    continue;
                }
                let prog = vec![S::Raw(def.clone()), S::Raw(c.to_string()), S::Raw("f(3);".to_string())];
                ctx.class("fn-ending");
                for v in check_statements(ctx, "fn-endings", &prog) {
                    ctx.report(v);
                }
                // the same call 6000 times must not exhaust the operand stack
                if ci == 0 {
                    let looped = format!("{}\nlet i = 0;\nwhile i < 6000 {{ f(1); i = i + 1; }}\ni", def);
                    let mut sess = Session::new();
                    if let Step::Ran(r) = sess.step(&looped) {
                        let ok = r.err.is_none() && r.last.same(&super::super::p2::Val::Int(6000));
                        ctx.case(hash_str(&looped), true);
                        if !ok {
                            let sig = if r.err.as_ref().map(|e| e.0.contains("Stack overflow")).unwrap_or(false) { "stack-overflow-in-loop" } else { "long-loop-result" };
                            ctx.report(Violation::new("fn-endings", sig, format!("6000 calls of a function whose body is `{}` (#{}) ended with {:?} / value {}\n{}", body, bi, r.err, r.last.show(), looped), json!({"prog": [S::Raw(looped.clone())], "src": looped})));
                        }
                    }
                }
            }
        }
    }
}

/// constructs at the boundary widths of the one-byte operands (captured variables, arguments, locals) and wide
/// literals: a count that the encoder wraps or truncates leaves the surplus values on the stack
fn wide_constructs(ctx: &mut Ctx) {
    let mut progs: Vec<(String, Vec<String>)> = Vec::new();
    for n in [1usize, 2, 100, 128, 200, 254, 255, 256, 257, 300] {
        let lets: String = (0..n).map(|i| format!("let v{} = {}; ", i, i % 5)).collect();
        let sum: String = (0..n).map(|i| format!("v{}", i)).collect::<Vec<_>>().join(" + ");
        progs.push((format!("captured-{}", n), vec![format!("fn outer() {{ {} fn() {{ {} }} }}", lets, sum), "let c = outer();".into(), "c();".into(), "[c(), outer()()];".into(), "let k = 0; while k < 3 { outer(); k = k + 1; }".into()]));
        let params: Vec<String> = (0..n).map(|i| format!("p{}", i)).collect();
        let args: Vec<String> = (0..n).map(|i| (i % 7).to_string()).collect();
        progs.push((format!("arguments-{}", n), vec![format!("fn f({}) {{ p0 }}", params.join(", ")), format!("f({});", args.join(", ")), format!("[f({})];", args.join(", "))]));
        progs.push((format!("locals-{}", n), vec![format!("fn g() {{ {} v0 }}", lets), "g();".into(), "[g(), g()];".into()]));
        progs.push((format!("array-{}", n), vec![format!("[{}];", args.join(", ")), format!("let a = [{}];", args.join(", ")), format!("len([{}]);", args.join(", "))]));
        let pairs: Vec<String> = (0..n).map(|i| format!("{}: {}", i, i % 3)).collect();
        progs.push((format!("map-{}", n), vec![format!("map {{{}}};", pairs.join(", ")), format!("let m = map {{{}}};", pairs.join(", "))]));
    }
    for (i, (name, stmts)) in progs.iter().enumerate() {
        if !ctx.mine(i as u64) {
            continue;
        }
        ctx.class("wide");
        let prog: Vec<S> = stmts.iter().map(|t| S::Raw(t.clone())).collect();
        let _ = name;
        for v in check_statements(ctx, "wide", &prog) {
            ctx.report(v);
        }
    }
}

/// assignments whose target is not a variable, an element or a property: rejected, or at least balanced
fn odd_assignment_targets(ctx: &mut Ctx) {
    let targets = [
        "stdout", "stderr", "stdin", "null", "[1, 2]", "f()", "$1", "map {}", "fn() { 1 }", "if true { 1 } else { 2 }", "\"s\"", "1", "true", "len", "argv", "NP", "1.5", "'c'", "b'x'", "[1][0]", "map {1: 2}[1]",
        "f", "f(1)[0]", "-x", "!x", "(x)", "x + 1", "match x { _ => x }",
    ];
    for (k, t) in targets.iter().enumerate() {
        if !ctx.mine(k as u64) {
            continue;
        }
        for ctxt in 0..3 {
            let stmt = match ctxt {
                0 => format!("{} = 5;", t),
                1 => format!("let y = ({} = 5);", t),
                _ => format!("let i = 0; while i < 3 {{ {} = i; i = i + 1; }}", t),
            };
            let prog = vec![S::Raw("let x = 1;".into()), S::Raw("fn f(n) { [n] }".into()), S::Raw(stmt.clone()), S::Raw("x;".into())];
            ctx.class("odd-assignment-target");
            for v in check_statements(ctx, "odd-targets", &prog) {
                // being rejected by the parser is one of the two good outcomes here
                if v.sig.starts_with("parse-error-on-generated") {
                    continue;
                }
                ctx.report(v);
            }
            // in a long loop a leak of one slot per iteration shows as a stack overflow
            let looped = format!("let x = 1;\nfn f(n) {{ [n] }}\nlet k = 0;\nwhile k < 6000 {{ {} = 5; k = k + 1; }}\nk", t);
            if ctxt == 0 {
                let mut sess = Session::new();
                if let Step::Ran(r) = sess.step(&looped) {
                    ctx.case(hash_str(&looped), true);
                    if r.err.as_ref().map(|e| e.0.contains("Stack overflow")).unwrap_or(false) {
                        ctx.report(Violation::new("odd-targets", "stack-overflow-in-loop:odd-assignment-target", format!("6000 executions of `{} = 5;` end in a stack overflow: the statement leaves an operand behind\n{}", t, looped), json!({"prog": [S::Raw(looped.clone())], "src": looped})));
                    }
                }
            }
        }
    }
}

/// Filter statements run once per packet in a frame of their own (`push_filter_frame` / `pop_filter_frame`):
/// each execution must leave the operand stack exactly where it found it, whatever the action declares.
fn check_filter_src(ctx: &mut Ctx, section: &str, src: &str, npk: usize) -> Vec<Violation> {
    guard(section, "src", src);
    let case = json!({"src": src, "packets": npk});
    let bytecode = match compile_text(src) {
        Ok(Compiled::Ok(b)) => (*b).0,
        Ok(_) => {
            ctx.excluded(1);
            ctx.class("filter-frames:not-compiled");
            return vec![];
        }
        Err(p) => return vec![Violation::new(section, p.signature(), format!("compiling crashed: {}\n{}", p.describe(), src), case)],
    };
    let pkts: Vec<_> = (0..npk).map(|i| make_packet(100 + i as u32, 7, 60, 60, &[(i as u8).wrapping_mul(37); 60])).collect();
    let fr = match run_filter_rounds(bytecode, &pkts) {
        Ok(fr) => fr,
        Err(p) => return vec![Violation::new(section, p.signature(), format!("running the filters crashed: {}\n{}", p.describe(), src), case)],
    };
    let mut out = Vec::new();
    let with_locals_ran = fr.steps.iter().filter(|(_, k, _, _, e)| e.is_none() && *k != usize::MAX && fr.locals.get(*k).copied().unwrap_or(0) > 0).count();
    ctx.case(hash_str(src) ^ npk as u64, with_locals_ran >= 2);
    ctx.class("filter-frames");
    if with_locals_ran >= 2 {
        ctx.class("filter-frames:locals-ran-twice");
    }
    if fr.main_err.is_some() {
        ctx.class("filter-frames:main-failed");
    }
    for (pk, k, before, after, err) in &fr.steps {
        if err.is_some() {
            ctx.class("filter-frames:filter-failed");
            continue; // a failed filter ends the run; the stack is not used again
        }
        if before != after {
            let which = if *k == usize::MAX { "the end filter".to_string() } else { format!("filter #{} ({} locals)", k, fr.locals.get(*k).copied().unwrap_or(0)) };
            out.push(Violation::new(
                section,
                if *k == usize::MAX { "filter-frame-leak:end" } else { "filter-frame-leak" },
                format!("operand stack height went from {} to {} over one execution of {} on packet {}:\n{}", before, after, which, pk, src),
                case,
            ));
            break;
        }
    }
    if ctx.want_sample() && with_locals_ran >= 2 && ctx.res.evals % 61 == 3 {
        ctx.sample(json!({"section": section, "src": src, "packets": npk, "filter_executions": fr.steps.len(), "locals_per_filter": fr.locals}));
    }
    out
}

fn gen_filter_src(bytes: &[u8]) -> Option<(String, usize)> {
    let mut c = Choices::new(bytes);
    let nf = 1 + c.below(3);
    let npk = 2 + c.below(4);
    let mut src = String::from("let seen = 0;\nlet acc = [];\n");
    for _ in 0..nf {
        let pat = ["true", "NP % 2 == 1", "PL > 20", "false", "seen < 100", "1", "NP", "len(acc) < 50"][c.below(8)];
        let take = 6 + c.below(40);
        let sub = c.bytes(take);
        let mut cfg = gen_cfg(&sub, false);
        cfg.max_stmts = 1 + c.below(7);
        cfg.probes = false;
        let mut cc = Choices::new(&sub[1.min(sub.len())..]);
        let body = {
            let mut g = Gen::new(&mut cc, cfg);
            flatten(g.program())
        };
        // programs that ask for huge amounts of memory are outside every property
        let rr = reference(&body, 100_000);
        let text = render(&body);
        if memory_risk(&rr, &text) {
            return None;
        }
        let extra = match c.below(4) {
            0 => "let grown = push(acc, NP);\n",
            1 => "let t1 = PL; let t2 = [t1, WL]; let t3 = fn(q) { q + t1 };\nseen = t3(seen) - t1;\n",
            _ => "",
        };
        if c.below(5) == 0 {
            src.push_str(&format!("@ {}\n", pat));
        } else {
            src.push_str(&format!("@ {} {{\n{}\n{}seen = seen + 1;\n}}\n", pat, text, extra));
        }
    }
    if c.bool() {
        src.push_str("@ end {\nlet total = seen;\nlet pair = [total, len(acc)];\nacc = pair;\n}\n");
    }
    Some((src, npk))
}

pub fn run(ctx: &mut Ctx) {
    fn_endings(ctx);
    odd_assignment_targets(ctx);
    wide_constructs(ctx);
    let n = ctx.nshards as u32;
    // mode A: no jumps in operand positions (every imbalance is novel)
    drive(ctx, "statements", ctx.tier.pick(40_000, 1_000_000) / n, 16, 400, |ctx, bytes| {
        let prog = gen_statements(bytes, false);
        check_statements(ctx, "statements", &prog)
    });
    ctx.more_samples(2);
    // mode B: jumps allowed inside operand positions
    drive(ctx, "statements-jumps", ctx.tier.pick(30_000, 800_000) / n, 16, 400, |ctx, bytes| {
        let prog = gen_statements(bytes, true);
        check_statements(ctx, "statements-jumps", &prog)
    });
    ctx.more_samples(2);
    drive(ctx, "filter-frames", ctx.tier.pick(24_000, 600_000) / n, 16, 300, |ctx, bytes| match gen_filter_src(bytes) {
        Some((src, npk)) => check_filter_src(ctx, "filter-frames", &src, npk),
        None => {
            ctx.excluded(1);
            vec![]
        }
    });
    ctx.more_samples(2);
    drive(ctx, "long-loops", ctx.tier.pick(2_400, 60_000) / n, 12, 200, |ctx, bytes| {
        let jumps = bytes.first().copied().unwrap_or(0) & 1 == 1;
        let prog = gen_long(bytes, jumps);
        check_long(ctx, "long-loops", &prog)
    });
}

pub fn replay(section: &str, case: &Value, ctx: &mut Ctx) {
    if section == "filter-frames" {
        let src = case["src"].as_str().unwrap_or("");
        let npk = case["packets"].as_u64().unwrap_or(3) as usize;
        for v in check_filter_src(ctx, section, src, npk) {
            ctx.report(v);
        }
        return;
    }
    match parse_prog(case) {
        Some(prog) => {
            let vs = if section == "long-loops" { check_long(ctx, section, &prog) } else { check_statements(ctx, section, &prog) };
            for v in vs {
                ctx.report(v);
            }
        }
        None => ctx.infra("C07 replay: case has no program"),
    }
}
