//! C24 — script and command modes run a program the same way with the same argv.

use serde_json::{json, Value};

use super::super::ast::*;
use super::super::choices::{hash_str, Choices};
use super::super::e2e::{self, Opts, Stdin};
use super::super::engine::*;
use super::super::gen::{Cfg, Gen};
use super::Meta;

pub const META: Meta = Meta {
    rule: "proptest: a filter-free generated program (the C02 generator: lets, functions, closures, loops, conditionals, failing operations; the probe t(id,v) prints id) that first prints len(argv) and every element of argv, \
ending in a final statement of known display (int / string / bool / null literal, an arithmetic expression, or a let), some with an injected parse or compile error; x an argument vector (0..4 elements from a pool with empty, \
unicode, spaces, quotes, backslashes, and dash-prefixed elements placed after `--`) x the modes: script file, -c, the same file with a '#!' first line run as `p2sh file` and executed directly. \
Oracle: stdout(-c) = stdout(file) with the argv part adapted + the display of the final expression statement's value when non-null (asserted only when the last statement is an expression statement and nothing failed); \
stderr equal; argv = [path, args..] / [args..]; shebang run = plain run with reported line numbers + 1; exit status equal; REPL argv is empty. \
Non-trivial: argv non-empty, or the final value is non-null, or an error line is reported. Distinct by program text + argv.",
    assumptions: &[
        "what -c prints after a runtime error, or when the last statement is not an expression statement, is don't-care",
        "arguments that clap itself rejects (a dash-prefixed element not preceded by --) are not generated",
    ],
    required_classes: &[("triple", 500), ("argv:nonempty", 300), ("final:nonnull", 150), ("error:runtime", 30), ("error:static", 30), ("shebang:direct", 100)],
    exhaustive_when_sections: &[],
};

const ARGV_PRINT: &str = "puts(len(argv));\nlet ai__ = 0;\nwhile ai__ < len(argv) { puts(argv[ai__]); ai__ = ai__ + 1; }\n";

fn argv_part(v: &[String]) -> String {
    let mut s = format!("{}\n", v.len());
    for a in v {
        s.push_str(a);
        s.push('\n');
    }
    s
}

const POOL: &[&str] = &["a", "", "ünï", "日本語", "x y", "'q'", "\"dq\"", "back\\slash", "a=b", "0", "-1", "-s", "--opt", "-c", "tab\there", "$HOME", "*", "#", "line1\nline2", "--"];

struct Case {
    body: String,
    /// Some(text): last statement is an expression statement whose display is `text` ("" = null)
    final_display: Option<String>,
    args: Vec<String>,
    dashdash_first: bool,
    static_error: bool,
    /// the reference ran out of budget (huge repetition / allocation): not run
    skip: bool,
    /// an option in front of the script path / -c: 0 none, 1 `-s`, 2 `--skip-pcap` (no effect on a program without filters)
    lead: u8,
    /// the text of the shebang line: 0 = the real interpreter path (also executed directly), others see SHEBANGS
    sb_line: u8,
}

/// first lines that start with `#!`: the line is a comment to p2sh whatever it holds
const SHEBANGS: &[&str] = &[
    "", // the real path
    "/home/zoë/bin/p2sh",
    "/usr/bin/env -S p2sh # größere Pakete → ok",
    "/home/ренат/.cargo/bin/p2sh -s",
    "",
    " /usr/bin/p2sh",
    "日本語日本語日本語日本語日本語日本語",
    "/usr/bin/env p2sh\r",
    "x\ty \"quoted\" 'single' {brace} ; let z = 1;",
];

fn gen_case(bytes: &[u8]) -> Case {
    let mut c = Choices::new(bytes);
    let nargs = c.below(5);
    let mut args = Vec::new();
    for _ in 0..nargs {
        args.push(POOL[c.below(POOL.len())].to_string());
    }
    let dashdash_first = c.bool();
    let lead = [0u8, 0, 0, 1, 1, 2][c.below(6)];
    let sb_line = if c.bool() { 0 } else { 1 + c.below(SHEBANGS.len() - 1) as u8 };
    let fin = c.below(9);
    let inject = c.below(12);
    let mut cfg = Cfg::default();
    cfg.max_stmts = 2 + c.below(14);
    cfg.max_depth = 2;
    cfg.p_fail = if c.chance(1, 4) { 60 } else { 0 };
    let mut g = Gen::new(&mut c, cfg);
    let mut p = g.program();
    p.pop(); // the generator's own final expression
    let mut p = super::super::gen::flatten(p);
    let rr = super::super::progcheck::reference(&p, 200_000);
    let skip = super::super::progcheck::memory_risk(&rr, &render(&p));
    // the probe prints its id
    p[1] = S::FnDef("t".into(), vec!["id".into(), "v".into()], vec![S::Expr(call("push", vec![id("obs"), id("id")])), S::Expr(call("puts", vec![id("id")])), S::Expr(id("v"))]);
    let mut body = String::from(ARGV_PRINT);
    body.push_str(&render(&p));
    if !body.ends_with('\n') {
        body.push('\n');
    }
    body.push_str("puts(len(obs));\n");
    let mut static_error = false;
    match inject {
        0 => {
            body.push_str("let broken = ;\n");
            static_error = true;
        }
        1 => {
            body.push_str("puts(undefined_name__);\n");
            static_error = true;
        }
        2 => {
            body.push_str("puts(1 / 0);\n");
        }
        _ => {}
    }
    let (last, disp): (&str, Option<&str>) = match fin {
        0 => ("42", Some("42")),
        1 => ("\"final text\"", Some("final text")),
        2 => ("true", Some("true")),
        3 => ("null", Some("")),
        4 => ("6 * 7 - 1", Some("41")),
        5 => ("puts(\"p\")", Some("")),
        6 => ("let zz__ = 5;", None),
        7 => ("-9223372036854775807 - 1", Some("-9223372036854775808")),
        _ => ("len(obs) - len(obs)", Some("0")),
    };
    body.push_str(last);
    if c.bool() {
        body.push('\n');
    }
    Case { body, final_display: disp.map(|s| s.to_string()), args, dashdash_first, static_error, skip, lead, sb_line }
}

fn cli(path_or_cmd: &[String], args: &[String], dashdash_first: bool, lead: u8) -> Vec<String> {
    // dash-prefixed arguments must come after `--`
    let needs = args.iter().any(|a| a.starts_with('-'));
    let mut v = Vec::new();
    match lead {
        1 => v.push("-s".to_string()),
        2 => v.push("--skip-pcap".to_string()),
        _ => {}
    }
    if needs && dashdash_first && path_or_cmd.len() == 1 {
        v.push("--".to_string());
        v.extend_from_slice(path_or_cmd);
        v.extend_from_slice(args);
    } else if needs && !dashdash_first && args.len() % 2 == 0 {
        // `--` only where it becomes necessary: right before the first dash-prefixed argument
        v.extend_from_slice(path_or_cmd);
        let at = args.iter().position(|a| a.starts_with('-')).unwrap_or(0);
        v.extend_from_slice(&args[..at]);
        v.push("--".to_string());
        v.extend_from_slice(&args[at..]);
    } else {
        v.extend_from_slice(path_or_cmd);
        if needs {
            v.push("--".to_string());
        }
        v.extend_from_slice(args);
    }
    v
}

fn shift_lines(s: &str) -> String {
    // "[line N]" -> "[line N+1]"
    let mut out = String::new();
    let mut rest = s;
    while let Some(i) = rest.find("[line ") {
        out.push_str(&rest[..i + 6]);
        rest = &rest[i + 6..];
        let digits: String = rest.chars().take_while(|c| c.is_ascii_digit()).collect();
        if let Ok(n) = digits.parse::<u64>() {
            out.push_str(&(n + 1).to_string());
        } else {
            out.push_str(&digits);
        }
        rest = &rest[digits.len()..];
    }
    out.push_str(rest);
    out
}

fn check(ctx: &mut Ctx, k: &Case, strict_repl: bool) -> Vec<Violation> {
    let mut out = Vec::new();
    let path = e2e::script_file("c24.p2", &k.body);
    let sb_text = if k.sb_line == 0 { e2e::bin_path() } else { SHEBANGS[(k.sb_line as usize).min(SHEBANGS.len() - 1)].to_string() };
    let shebang_path = e2e::script_file("c24-shebang.p2", &format!("#!{}\n{}", sb_text, k.body));
    let case = json!({"body": k.body, "args": k.args, "dashdash_first": k.dashdash_first, "final_display": k.final_display, "static_error": k.static_error, "lead": k.lead, "sb_line": k.sb_line});
    guard("modes", "program", &k.body);
    let fail = |sig: &str, detail: String| Violation::new("modes", sig.to_string(), detail, case.clone());
    let rf = e2e::run(Opts::new(cli(&[path.clone()], &k.args, k.dashdash_first, k.lead)));
    let rc = e2e::run(Opts::new(cli(&["-c".to_string(), k.body.clone()], &k.args, false, k.lead)));
    let rs = e2e::run(Opts::new(cli(&[shebang_path.clone()], &k.args, k.dashdash_first, k.lead)));
    for (name, r) in [("file", &rf), ("-c", &rc), ("shebang", &rs)] {
        if let Some(e) = &r.spawn_error {
            ctx.infra(format!("spawn failed: {}", e));
            return out;
        }
        if r.timed_out {
            ctx.infra(format!("C24: {} run timed out", name));
            return out;
        }
        if let Some(c) = r.crashed() {
            // a request for more memory than can exist is outside every property (C08's exclusion)
            if c.contains("capacity overflow") || r.err_text().contains("memory allocation of") {
                ctx.excluded(1);
                return out;
            }
            out.push(fail(&e2e::crash_signature(&c), format!("{} mode crashed: {}\nargs {:?}\n{}", name, c, k.args, k.body)));
            return out;
        }
    }
    let (of, oc, os) = (rf.out_text(), rc.out_text(), rs.out_text());
    let (ef, ec, es) = (rf.err_text(), rc.err_text(), rs.err_text());
    let failed = !ef.is_empty();
    if k.static_error {
        ctx.class("error:static");
    } else if failed {
        ctx.class("error:runtime");
    }
    // ---- argv
    let mut file_argv = vec![path.clone()];
    file_argv.extend(k.args.iter().cloned());
    let want_f = argv_part(&file_argv);
    let want_c = argv_part(&k.args);
    if !k.static_error {
        if !of.starts_with(&want_f) {
            out.push(fail("argv:script-mode", format!("script mode: argv printed as\n{}\nexpected [path, args..] =\n{}", of.chars().take(300).collect::<String>(), want_f)));
            return out;
        }
        if !oc.starts_with(&want_c) {
            out.push(fail("argv:command-mode", format!("-c mode: argv printed as\n{}\nexpected the positional arguments\n{}", oc.chars().take(300).collect::<String>(), want_c)));
            return out;
        }
        let body_f = &of[want_f.len()..];
        let body_c = &oc[want_c.len()..];
        // ---- same output, plus the final value in -c
        if !body_c.starts_with(body_f) {
            out.push(fail("output:modes-differ", format!("the program's output differs between modes\nscript: {:?}\n-c:     {:?}", body_f, body_c)));
            return out;
        }
        let extra = &body_c[body_f.len()..];
        if !failed {
            if let Some(d) = &k.final_display {
                let want_extra = if d.is_empty() { String::new() } else { format!("{}\n", d) };
                // how a string value is displayed (raw or quoted) is not specified
                let quoted = format!("\"{}\"\n", d);
                if extra != want_extra && !(d == "final text" && extra == quoted) {
                    out.push(fail(if want_extra.is_empty() { "final-value:printed-null" } else { "final-value:wrong-or-missing" }, format!("-c printed {:?} after the program's own output; the final expression statement displays as {:?}", extra, want_extra)));
                    return out;
                }
                if !d.is_empty() {
                    ctx.class("final:nonnull");
                }
            }
        }
    } else if !of.is_empty() || !oc.is_empty() {
        out.push(fail("static-error:program-ran", format!("a program with a parse/compile error produced output: script {:?} / -c {:?}", of, oc)));
        return out;
    }
    if ef != ec {
        out.push(fail("stderr:modes-differ", format!("stderr differs between modes\nscript: {:?}\n-c:     {:?}", ef, ec)));
        return out;
    }
    if rf.code != rc.code {
        out.push(fail("status:modes-differ", format!("exit status script {:?} / -c {:?}", rf.code, rc.code)));
        return out;
    }
    // ---- shebang line: same run, line numbers + 1
    let mut sb_argv = vec![shebang_path.clone()];
    sb_argv.extend(k.args.iter().cloned());
    let want_sb_out = if k.static_error { String::new() } else { format!("{}{}", argv_part(&sb_argv), &of[want_f.len()..]) };
    if os != want_sb_out {
        out.push(fail("shebang:output", format!("a '#!' first line changed the output\nplain:   {:?}\nshebang: {:?}", of, os)));
        return out;
    }
    if es != shift_lines(&ef) {
        out.push(fail("shebang:stderr", format!("a '#!' first line changed stderr beyond the line shift\nplain:   {:?}\nshebang: {:?}", ef, es)));
        return out;
    }
    // executed directly through the kernel's #! handling
    {
        use std::os::unix::fs::PermissionsExt;
        let _ = std::fs::set_permissions(&shebang_path, std::fs::Permissions::from_mode(0o755));
        let needs = k.args.iter().any(|a| a.starts_with('-'));
        if !needs && k.sb_line == 0 {
            let mut cmd = std::process::Command::new(&shebang_path);
            cmd.args(&k.args).env("RUST_BACKTRACE", "0").stdin(std::process::Stdio::null());
            match cmd.output() {
                Ok(o) => {
                    ctx.class("shebang:direct");
                    let so = String::from_utf8_lossy(&o.stdout).into_owned();
                    if so != want_sb_out {
                        out.push(fail("shebang:direct-exec", format!("executing the script directly gave {:?}, `p2sh file` gave {:?}", so, want_sb_out)));
                        return out;
                    }
                }
                Err(_) => ctx.class("shebang:direct-unavailable"),
            }
        }
    }
    // ---- REPL: argv is empty
    if strict_repl {
        let r = e2e::run(Opts::new(cli(&[], &[], false, 0)).env("P2SH_VERIF_REPL", "1").stdin(Stdin::Bytes(b"puts(len(argv))\nquit\n".to_vec())));
        let t = r.out_text();
        ctx.class("repl-argv");
        if !t.contains("\u{1e}0\n") && !t.contains("\n0\n") {
            out.push(fail("argv:repl-not-empty", format!("REPL: puts(len(argv)) printed {:?}", t)));
        }
    }
    out
}

fn one(ctx: &mut Ctx, bytes: &[u8]) -> Vec<Violation> {
    let k = gen_case(bytes);
    if k.skip {
        ctx.excluded(1);
        return vec![];
    }
    let nontrivial = !k.args.is_empty() || k.final_display.as_deref().map(|d| !d.is_empty()).unwrap_or(false) || k.static_error;
    ctx.case(hash_str(&k.body) ^ hash_str(&k.args.join("\u{1}")), nontrivial);
    ctx.class("triple");
    if k.lead > 0 {
        ctx.class("option:skip-pcap");
    }
    if k.sb_line > 0 {
        ctx.class("shebang:other-text");
    }
    if !k.args.is_empty() {
        ctx.class("argv:nonempty");
    }
    if k.args.iter().any(|a| a.starts_with('-')) {
        ctx.class("argv:dash-after--");
    }
    if ctx.want_sample() && k.args.len() >= 2 && ctx.res.evals % 7 == 1 {
        ctx.sample(json!({"args": k.args, "program_tail": k.body.lines().rev().take(4).collect::<Vec<_>>(), "final_display": k.final_display}));
    }
    let strict_repl = bytes.first().map(|b| b % 8 == 0).unwrap_or(false);
    check(ctx, &k, strict_repl)
}

pub fn run(ctx: &mut Ctx) {
    let n = ctx.nshards as u32;
    set_shrink_iters(100);
    ctx.more_samples(2);
    drive(ctx, "modes", ctx.tier.pick(720, 24_000) / n, 24, 500, |ctx, b| one(ctx, b));
}

pub fn replay(_section: &str, case: &Value, ctx: &mut Ctx) {
    let k = Case {
        body: case["body"].as_str().unwrap_or("").to_string(),
        final_display: case["final_display"].as_str().map(|s| s.to_string()),
        args: case["args"].as_array().map(|a| a.iter().filter_map(|x| x.as_str().map(|s| s.to_string())).collect()).unwrap_or_default(),
        dashdash_first: case["dashdash_first"].as_bool().unwrap_or(false),
        static_error: case["static_error"].as_bool().unwrap_or(false),
        skip: false,
        lead: case["lead"].as_u64().unwrap_or(0) as u8,
        sb_line: case["sb_line"].as_u64().unwrap_or(0) as u8,
    };
    for v in check(ctx, &k, true) {
        ctx.report(v);
    }
}
