//! C06 — truthiness and short-circuit logic follow the documented table.

use serde_json::{json, Value};

use super::super::ast::*;
use super::super::choices::{hash_str, Choices};
use super::super::engine::*;
use super::super::gen::prologue;
use super::super::progcheck::*;
use super::Meta;

pub const META: Meta = Meta {
    rule: "(positions, exhaustive) 30 representative values (false true 0 1 -1 0.0 -0.0 1.5 NaN inf null char(0) 'a' byte(0) byte(7) \"\" \"x\" \"0\" [] [0] [[]] map{} map{0:0} \
a builtin, a closure, an error object, [null]) each in every truthiness position: !v, !!v, `if v` as value and statement, `while v` (body breaks after one probe), v && probe, v || probe; \
(pairs, exhaustive) all 30x30 ordered pairs for a && b and a || b with a side-effect probe around b (evaluated iff stated; result must be the operand value, not a boolean); \
(nested, proptest) random trees of && || ! over the representatives with probes on every leaf. Oracle: the documented table (docs/language/operators.md) as implemented by the \
reference interpreter. Non-trivial: the value kind is not bool, or the pair mixes a falsey and a truthy operand. Distinct by source-text hash. \
(the filter-pattern position is exercised end to end by C20)",
    assumptions: &["the closure, builtin and error-object representatives compare opaquely (any closure equals any closure)"],
    required_classes: &[("position", 27), ("pair", 700), ("nested", 5_000)],
    exhaustive_when_sections: &["positions", "pairs"],
};

pub fn reps() -> Vec<E> {
    vec![
        E::Bool(false),
        E::Bool(true),
        E::Int(0),
        E::Int(1),
        E::Int(-1),
        E::Float(0.0),
        E::Float(-0.0),
        E::Float(1.5),
        E::Float(f64::NAN),
        E::Float(f64::INFINITY),
        // non-zero however small: truthy
        E::Float(1e-17),
        E::Float(-1e-17),
        E::Float(5e-324),
        E::Null,
        E::Char('\0'),
        E::Char('a'),
        // code points whose low byte is zero: only U+0000 itself is falsey
        E::Char('\u{100}'),
        E::Char('\u{2200}'),
        E::Char('\u{10000}'),
        E::Byte(0),
        E::Byte(7),
        E::Str("".into()),
        E::Str("x".into()),
        E::Str("0".into()),
        E::Arr(vec![]),
        E::Arr(vec![E::Int(0)]),
        E::Arr(vec![E::Arr(vec![])]),
        E::Map(vec![]),
        E::Map(vec![(E::Int(0), E::Int(0))]),
        id("len"),
        E::Fn(vec![], vec![S::Expr(E::Int(1))]),
        call("decode_utf8", vec![E::Arr(vec![E::Byte(255)])]),
        E::Arr(vec![E::Null]),
    ]
}

fn obs(e: E) -> S {
    S::Expr(call("push", vec![id("obs"), e]))
}

fn is_bool(e: &E) -> bool {
    matches!(e, E::Bool(_))
}

fn check(ctx: &mut Ctx, section: &str, class: &str, prog: &[S], nontrivial: bool) -> Vec<Violation> {
    let rr = reference(prog, 100_000);
    let v = compare(section, prog, &rr);
    if rr.unspecified.is_some() {
        ctx.class("ref:unspecified");
        ctx.note(format!("unspecified: {:?}", rr.unspecified));
    }
    ctx.case(hash_str(&v.src), nontrivial && v.compared);
    ctx.class(class);
    if ctx.want_sample() && nontrivial && ctx.res.evals % 53 == 7 {
        ctx.sample(json!({"section": section, "src": v.src, "reference_obs": rr.obs.show()}));
    }
    v.violations
}

fn positions(ctx: &mut Ctx) {
    for (i, v) in reps().into_iter().enumerate() {
        if !ctx.mine(i as u64) {
            continue;
        }
        let mut p = prologue();
        p.push(obs(un("!", v.clone())));
        p.push(obs(un("!", un("!", v.clone()))));
        p.push(obs(E::If(Box::new(v.clone()), vec![S::Expr(E::Int(1))], Some(Box::new(Else::Block(vec![S::Expr(E::Int(2))]))))));
        p.push(S::Expr(E::If(Box::new(v.clone()), vec![obs(E::Int(11))], Some(Box::new(Else::Block(vec![obs(E::Int(12))]))))));
        p.push(S::Expr(E::If(Box::new(v.clone()), vec![obs(E::Int(13))], None)));
        p.push(S::Let("n".into(), E::Int(0)));
        p.push(S::While(None, v.clone(), vec![S::Expr(assign(id("n"), bin("+", id("n"), E::Int(1)))), obs(E::Int(7)), S::Break(None)]));
        p.push(obs(id("n")));
        p.push(obs(bin("&&", v.clone(), call("t", vec![E::Int(21), E::Int(5)]))));
        p.push(obs(bin("||", v.clone(), call("t", vec![E::Int(22), E::Int(6)]))));
        // else-if position and a match arm guarded by the value's negation
        p.push(obs(E::If(
            Box::new(E::Bool(false)),
            vec![S::Expr(E::Int(0))],
            Some(Box::new(Else::If(E::If(Box::new(v.clone()), vec![S::Expr(E::Int(31))], Some(Box::new(Else::Block(vec![S::Expr(E::Int(32))]))))))),
        )));
        p.push(S::Expr(E::Int(0)));
        for x in check(ctx, "positions", "position", &p, !is_bool(&v)) {
            ctx.report(x);
        }
    }
    ctx.exhaustive("positions");
}

fn pairs(ctx: &mut Ctx) {
    let r = reps();
    let falsey_idx = [0usize, 2, 5, 6, 10, 11, 13, 15, 18, 21];
    let mut idx = 0u64;
    for (i, a) in r.iter().enumerate() {
        for (j, b) in r.iter().enumerate() {
            idx += 1;
            if !ctx.mine(idx) {
                continue;
            }
            let mut p = prologue();
            p.push(obs(bin("&&", a.clone(), call("t", vec![E::Int(1), b.clone()]))));
            p.push(obs(bin("||", a.clone(), call("t", vec![E::Int(2), b.clone()]))));
            // as a condition as well
            p.push(obs(E::If(Box::new(bin("&&", a.clone(), b.clone())), vec![S::Expr(E::Int(1))], Some(Box::new(Else::Block(vec![S::Expr(E::Int(0))]))))));
            p.push(obs(E::If(Box::new(bin("||", a.clone(), b.clone())), vec![S::Expr(E::Int(1))], Some(Box::new(Else::Block(vec![S::Expr(E::Int(0))]))))));
            p.push(S::Expr(E::Int(0)));
            let mixed = falsey_idx.contains(&i) != falsey_idx.contains(&j);
            let nontrivial = mixed || !is_bool(a) || !is_bool(b);
            for x in check(ctx, "pairs", "pair", &p, nontrivial) {
                ctx.report(x);
            }
        }
    }
    ctx.exhaustive("pairs");
}

fn tree(c: &mut Choices, r: &[E], depth: usize, probe: &mut i64) -> E {
    if depth == 0 || c.below(4) == 0 {
        *probe += 1;
        return call("t", vec![E::Int(*probe), r[c.below(r.len())].clone()]);
    }
    match c.below(5) {
        0 | 1 => bin("&&", tree(c, r, depth - 1, probe), tree(c, r, depth - 1, probe)),
        2 | 3 => bin("||", tree(c, r, depth - 1, probe), tree(c, r, depth - 1, probe)),
        _ => un("!", tree(c, r, depth - 1, probe)),
    }
}

/// the filter-pattern position, through the real binary: `@ v { action }` runs the action and `@ v` selects the
/// packet exactly when v is truthy (reference: the documented table, via the reference interpreter)
fn filter_patterns(ctx: &mut Ctx) {
    use super::super::e2e::{self, Opts, Stdin};
    use super::super::pcapfile::{fill, GHdr, PcapFile, Rec, MAGIC_US};
    let e2e_shards = 4.min(ctx.nshards);
    if ctx.shard >= e2e_shards {
        return;
    }
    let mut frame = fill(9, 60);
    frame[12] = 0x08;
    frame[13] = 0x00;
    let file = PcapFile { hdr: GHdr { magic: MAGIC_US, major: 2, minor: 4, thiszone: 0, sigfigs: 0, snaplen: 65535, linktype: 1 }, recs: (0..2).map(|i| Rec { sec: i, usec: 0, wirelen: 60, data: frame.clone() }).collect() };
    let input = file.bytes();
    let r = reps();
    let mut exprs: Vec<E> = r.clone();
    for (i, a) in r.iter().enumerate() {
        exprs.push(un("!", a.clone()));
        let b = r[(i * 7 + 3) % r.len()].clone();
        exprs.push(bin("&&", a.clone(), b.clone()));
        exprs.push(bin("||", a.clone(), b));
    }
    for (k, e) in exprs.iter().enumerate() {
        if (k % e2e_shards) != ctx.shard {
            continue;
        }
        // quick tier: every value itself, a third of the derived expressions
        if k >= r.len() && ctx.tier == Tier::Quick && (k as u64 + ctx.seed) % 3 != 0 {
            continue;
        }
        let mut it = super::super::interp::Interp::new(10_000);
        let truthy = match it.eval(e, &None) {
            Ok(v) => !super::super::interp::falsey(&v),
            Err(_) => continue,
        };
        let text = render_expr(e);
        // (form 2: the action declares a local, and an earlier filter has left a truthy value in that stack slot:
        //  a falsey pattern must still select nothing, a truthy one runs its action and selects nothing either)
        {
            let src = format!("@ true {{ let stale = 7; }}\n@ {} {{ let q = 1; eprintln(\"T\"); }}\n", text);
            ctx.case(hash_str(&src), true);
            ctx.class("filter-pattern");
            let run = e2e::run(Opts::new(vec![e2e::script_file("c06-filter.p2", &src)]).stdin(Stdin::Bytes(input.clone())));
            if run.spawn_error.is_none() && !run.timed_out {
                let want_err = if truthy { "T\nT\n" } else { "" };
                if run.crashed().is_some() || run.err_text() != want_err || run.stdout.len() != 24 {
                    ctx.report(Violation::new(
                        "filter-patterns",
                        format!("filter-pattern:action-with-local:{}", if truthy { "truthy" } else { "falsey" }),
                        format!("pattern `{}` ({}), action with a local after a filter that left a truthy local behind: stderr {:?} (expected {:?}), stdout {} bytes (expected the 24-byte header only)\n{}", text, if truthy { "truthy" } else { "falsey" }, run.err_text(), want_err, run.stdout.len(), src),
                        json!({"filter_pattern": true, "src": src, "truthy": truthy, "with_action": true}),
                    ));
                }
            }
        }
        for with_action in [true, false] {
            let src = if with_action { format!("@ {} {{ eprintln(\"T\"); }}\n", text) } else { format!("@ {}\n", text) };
            ctx.case(hash_str(&src), true);
            ctx.class("filter-pattern");
            let path = e2e::script_file("c06-filter.p2", &src);
            let run = e2e::run(Opts::new(vec![path]).stdin(Stdin::Bytes(input.clone())));
            let case = json!({"filter_pattern": true, "src": src, "truthy": truthy, "with_action": with_action});
            if run.spawn_error.is_some() || run.timed_out {
                ctx.infra("C06: filter run failed to spawn or timed out".to_string());
                continue;
            }
            if let Some(c) = run.crashed() {
                ctx.report(Violation::new("filter-patterns", e2e::crash_signature(&c), format!("{}\n{}", c, src), case));
                continue;
            }
            let (want_err, want_out_len) = if with_action { (if truthy { "T\nT\n" } else { "" }, 24) } else { ("", if truthy { input.len() } else { 24 }) };
            if run.err_text() != want_err || run.stdout.len() != want_out_len {
                let sig = format!("filter-pattern:{}:{}", if with_action { "action" } else { "select" }, if truthy { "truthy-treated-as-false" } else { "falsey-treated-as-true-or-error" });
                ctx.report(Violation::new(
                    "filter-patterns",
                    sig,
                    format!("pattern `{}` is {} by the documented table; stderr {:?} (expected {:?}), stdout {} bytes (expected {})\n{}", text, if truthy { "truthy" } else { "falsey" }, run.err_text(), want_err, run.stdout.len(), want_out_len, src),
                    case,
                ));
            }
        }
    }
}

pub fn run(ctx: &mut Ctx) {
    filter_patterns(ctx);
    positions(ctx);
    pairs(ctx);
    ctx.more_samples(2);
    let n = ctx.nshards as u32;
    let r = reps();
    drive(ctx, "nested", ctx.tier.pick(160_000, 2_000_000) / n, 6, 60, |ctx, bytes| {
        let mut c = Choices::new(bytes);
        let mut probe = 100;
        let e = tree(&mut c, &r, 4, &mut probe);
        let mut p = prologue();
        match c.below(3) {
            0 => p.push(obs(e)),
            1 => p.push(obs(E::If(Box::new(e), vec![S::Expr(E::Int(1))], Some(Box::new(Else::Block(vec![S::Expr(E::Int(0))])))))),
            _ => {
                p.push(S::Let("k".into(), E::Int(0)));
                p.push(S::While(None, e, vec![S::Expr(assign(id("k"), bin("+", id("k"), E::Int(1)))), S::Break(None)]));
                p.push(obs(id("k")));
            }
        }
        p.push(S::Expr(E::Int(0)));
        check(ctx, "nested", "nested", &p, probe > 102)
    });
}

pub fn replay(section: &str, case: &Value, ctx: &mut Ctx) {
    if case.get("filter_pattern").is_some() {
        use super::super::e2e::{self, Opts, Stdin};
        use super::super::pcapfile::{fill, GHdr, PcapFile, Rec, MAGIC_US};
        let mut frame = fill(9, 60);
        frame[12] = 0x08;
        frame[13] = 0x00;
        let file = PcapFile { hdr: GHdr { magic: MAGIC_US, major: 2, minor: 4, thiszone: 0, sigfigs: 0, snaplen: 65535, linktype: 1 }, recs: (0..2).map(|i| Rec { sec: i, usec: 0, wirelen: 60, data: frame.clone() }).collect() };
        let input = file.bytes();
        let src = case["src"].as_str().unwrap_or("");
        let truthy = case["truthy"].as_bool().unwrap_or(false);
        let with_action = case["with_action"].as_bool().unwrap_or(false);
        let run = e2e::run(Opts::new(vec![e2e::script_file("c06-filter.p2", src)]).stdin(Stdin::Bytes(input.clone())));
        let (want_err, want_out_len) = if with_action { (if truthy { "T\nT\n" } else { "" }, 24) } else { ("", if truthy { input.len() } else { 24 }) };
        if run.crashed().is_some() || run.err_text() != want_err || run.stdout.len() != want_out_len {
            let sig = format!("filter-pattern:{}:{}", if with_action { "action" } else { "select" }, if truthy { "truthy-treated-as-false" } else { "falsey-treated-as-true-or-error" });
            ctx.report(Violation::new(section, sig, format!("stderr {:?} stdout {} bytes", run.err_text(), run.stdout.len()), case.clone()));
        }
        return;
    }
    match parse_prog(case) {
        Some(prog) => {
            for v in check(ctx, section, "replay", &prog, true) {
                ctx.report(v);
            }
        }
        None => ctx.infra("C06 replay: case has no program"),
    }
}
