//! Entry points for the coverage-guided (libFuzzer) targets under `harness/fuzz/`.
//!
//! Each target feeds raw bytes into the same oracle a property's proptest sections use, so a
//! crash found by the fuzzer is a violation of that property (not just a memory error) and can
//! be replayed through `p2v replay` (section "fuzz", case = the bytes in hex).

use serde_json::json;

use super::engine::{Ctx, Tier, Violation};
use super::p2::{compile_text, run_text, Outcome};
use super::pkt::hex;
use super::props;

pub const TARGETS: &[(&str, &str)] = &[("c01", "C01"), ("c08", "C08"), ("c12", "C12"), ("c16", "C16"), ("c18", "C18"), ("c19", "C19")];

fn ctx_for(prop: &str) -> Ctx {
    Ctx::new(prop, Tier::Quick, 1, 0, 1)
}

/// One fuzz input for `target`; the violations it shows (empty = the property held on it).
pub fn fuzz_one(target: &str, data: &[u8]) -> Vec<Violation> {
    let case = json!({"bytes": hex(data)});
    match target {
        // C01: scanning, parsing and compiling are total on every source text
        "c01" => {
            if data.len() > 4096 {
                return vec![];
            }
            let text = String::from_utf8_lossy(data).into_owned();
            if !props::c01::nesting_ok(&text) {
                return vec![];
            }
            match compile_text(&text) {
                Err(p) => vec![Violation::new("fuzz", p.signature(), format!("scan/parse/compile panicked on {:?}: {}", text, p.describe()), case)],
                Ok(_) => vec![],
            }
        }
        // C08: whatever compiles runs to a value or a reported error (no filters, no I/O builtins: the text is
        // built from a choice sequence by the program generator with failing operations switched on)
        "c08" => {
            let mut cfg = super::gen::Cfg::default();
            cfg.max_stmts = 4 + (data.first().copied().unwrap_or(0) as usize % 24);
            cfg.p_fail = 150;
            let (prog, _) = super::gen::gen_program(&data[1.min(data.len())..], cfg);
            let rr = super::progcheck::reference(&prog, 200_000);
            let src = super::ast::render(&prog);
            if super::progcheck::memory_risk(&rr, &src) {
                return vec![];
            }
            match run_text(&src) {
                // a request for more memory than can exist (excluded by C08's statement)
                Outcome::Panic(p) if p.msg.contains("capacity overflow") => vec![],
                Outcome::Panic(p) => vec![Violation::new("fuzz", p.signature(), format!("{}\n--- program\n{}", p.describe(), src), case)],
                _ => vec![],
            }
        }
        // C12: a raw format string with a fixed argument list must render or fail cleanly; a string of the
        // specifier grammar (decoded from the bytes) must render as the reference renderer says
        "c12" => {
            let mut out = Vec::new();
            let text = String::from_utf8_lossy(data).into_owned();
            if !text.contains('"') && !text.contains('\0') && text.len() <= 200 && !has_huge_number(&text) {
                let src = format!("format(\"{}\", 7, \"s\", 1.5, true, null, [1])", text);
                if let Outcome::Panic(p) = run_text(&src) {
                    out.push(Violation::new("fuzz", p.signature(), format!("`{}` crashed: {}", src, p.describe()), case.clone()));
                }
            }
            let mut ctx = ctx_for("C12");
            let c = props::c12::gen_case(data);
            out.extend(props::c12::check_case(&mut ctx, "fuzz", &c).into_iter().map(|mut v| {
                v.case = case.clone();
                v
            }));
            out
        }
        // C16: every property of every layer of an arbitrary frame reads as the reference codec says
        "c16" => {
            if data.len() > 1600 {
                return vec![];
            }
            let mut ctx = ctx_for("C16");
            props::c16::check_frame(&mut ctx, "fuzz", data, "fuzz").into_iter().map(|mut v| {
                v.case = case.clone();
                v
            }).collect()
        }
        // C18: an arbitrary text over the notation's alphabet, classified by the strict / lenient reference parsers
        "c18" => {
            if data.len() < 2 || data.len() > 80 {
                return vec![];
            }
            let kind = [props::c18::AK::Mac, props::c18::AK::Ip4, props::c18::AK::Ip6][(data[0] % 3) as usize];
            let text: String = data[1..].iter().map(|b| (*b as char)).filter(|c| c.is_ascii_graphic() && *c != '"' && *c != '\\').collect();
            let (want, class) = match props::c18::strict(kind, &text) {
                Some(b) => (props::c18::Want::Accept(b), "fuzz:must-accept"),
                None => {
                    if props::c18::lenient(kind, &text) {
                        return vec![];
                    }
                    (props::c18::Want::Reject, "fuzz:must-reject")
                }
            };
            props::c18::check_text("fuzz", kind, &text, &want, class, data.len() as u64).into_iter().map(|mut v| {
                v.case = case.clone();
                v
            }).collect()
        }
        // C19: arbitrary bytes as a pcap file, read with a call pattern chosen by the first byte
        "c19" => {
            if data.is_empty() || data.len() > 1 << 16 {
                return vec![];
            }
            let file = &data[1..];
            // a snaplen / caplen in the gigabytes is a memory request, not a reading question
            if file.len() >= 24 && u32::from_le_bytes([file[16], file[17], file[18], file[19]]) > 1 << 24 {
                return vec![];
            }
            let (_, recs, _) = super::pcapfile::parse(file);
            let k = recs.len();
            use props::c19::Op;
            let ops: Vec<Op> = match data[0] % 4 {
                0 => (0..k + 2).map(|_| Op::Next).collect(),
                1 => vec![Op::All, Op::Next, Op::All],
                2 => vec![Op::AllN(1), Op::All, Op::Next],
                _ => vec![Op::Next, Op::AllN(2), Op::Next, Op::All, Op::Next],
            };
            // (several fuzzing processes share the scratch directory: a file name of our own)
            props::c19::run_read("fuzz", file, &ops, &format!("z{}", std::process::id())).into_iter().map(|mut v| {
                v.case = json!({"bytes": hex(data)});
                v
            }).collect()
        }
        _ => vec![],
    }
}

/// widths / indices with more than 6 digits ask for memory (excluded by C08's statement) or are C08's business
fn has_huge_number(t: &str) -> bool {
    // digits of one specifier are accumulated by the implementation even across stray characters
    // (`{0:*>90101{7101}` pads to 901017101 columns): count all digits between an opening brace and its close
    let mut run = 0;
    for c in t.chars() {
        if c.is_ascii_digit() {
            run += 1;
            if run > 6 {
                return true;
            }
        } else if c == '}' {
            run = 0;
        }
    }
    false
}

/// for the fuzz target binaries: abort on a violation that is not a listed open finding
pub fn fuzz_entry(target: &str, data: &[u8]) {
    let vs = fuzz_one(target, data);
    if vs.is_empty() {
        return;
    }
    let prop = TARGETS.iter().find(|(t, _)| *t == target).map(|(_, p)| *p).unwrap_or("");
    let known = super::engine::open_signatures(prop);
    for v in vs {
        if known.iter().any(|k| k == &v.sig) {
            continue;
        }
        eprintln!("FUZZ-VIOLATION target={} signature={}\n{}", target, v.sig, v.detail);
        std::process::abort();
    }
}
