//! Reference semantics: direct evaluation of the harness AST.  Written from the
//! property statements and the docs (DESIGN.md §3.1), not from the compiler.
//!
//! * lexical scoping with persistent environments (a `let` extends the
//!   environment; a block restores it on exit; a closure sees exactly the
//!   bindings that existed where it was written);
//! * bindings outside any function are globals, shared by reference;
//!   a closure copies, when it is created, the current values of the locals and
//!   parameters of the functions enclosing it, and keeps its own copy;
//! * operands, arguments and literal elements left to right; assignment
//!   evaluates its right-hand side first; `<` and `<=` evaluate right to left.

use std::cell::RefCell;
use std::rc::Rc;

use super::ast::*;
use super::builtins_ref;
use super::ops::{self, Expect};
use super::p2::Val;

#[derive(Clone)]
pub enum RV {
    Null,
    Bool(bool),
    Int(i64),
    Float(f64),
    Str(Rc<String>),
    Char(char),
    Byte(u8),
    Arr(Rc<RefCell<Vec<RV>>>),
    Map(Rc<RefCell<Vec<(RV, RV)>>>),
    Clos(Rc<Closure>),
    Builtin(&'static str),
    Err(String),
}

pub struct Closure {
    pub params: Vec<String>,
    pub body: Rc<Vec<S>>,
    /// environment captured at creation (locals copied, globals shared)
    pub env: RefCell<Env>,
}

#[derive(Clone, Copy, PartialEq)]
pub enum Kind {
    Global,
    Local,
}

pub struct Node {
    name: String,
    cell: Rc<RefCell<RV>>,
    kind: Kind,
    next: Env,
}
pub type Env = Option<Rc<Node>>;

pub fn n_name(n: &Rc<Node>) -> &str {
    &n.name
}
pub fn n_cell(n: &Rc<Node>) -> RV {
    n.cell.borrow().clone()
}
pub fn n_next(n: &Rc<Node>) -> &Env {
    &n.next
}

pub fn lookup(env: &Env, name: &str) -> Option<Rc<RefCell<RV>>> {
    let mut cur = env;
    while let Some(n) = cur {
        if n.name == name {
            return Some(n.cell.clone());
        }
        cur = &n.next;
    }
    None
}

fn extend(env: &Env, name: &str, v: RV, kind: Kind) -> Env {
    Some(Rc::new(Node { name: name.to_string(), cell: Rc::new(RefCell::new(v)), kind, next: env.clone() }))
}

/// Environment for a new closure: local bindings get fresh cells holding the
/// current values; the global tail is shared.
fn capture(env: &Env) -> Env {
    let mut locals: Vec<(String, RV)> = Vec::new();
    let mut cur = env.clone();
    while let Some(n) = cur.clone() {
        if n.kind == Kind::Global {
            break;
        }
        locals.push((n.name.clone(), n.cell.borrow().clone()));
        cur = n.next.clone();
    }
    let mut out = cur; // global tail (shared)
    for (name, v) in locals.into_iter().rev() {
        out = extend(&out, &name, v, Kind::Local);
    }
    out
}

#[derive(Clone, Debug, PartialEq)]
pub enum ErrClass {
    DivZero,
    Index,
    Key,
    Other,
}

impl std::fmt::Debug for RV {
    fn fmt(&self, f: &mut std::fmt::Formatter) -> std::fmt::Result {
        write!(f, "{}", to_val(self).show())
    }
}

#[derive(Debug)]
pub enum Stop {
    /// runtime error
    Error(ErrClass, String),
    Break(Option<String>),
    Continue(Option<String>),
    Return(RV),
    /// the reference ran out of its step budget (generator bug, never a verdict)
    Budget,
    /// the program entered a declared don't-care zone: no expectation from here on
    Unspecified(String),
}

pub struct Interp {
    pub steps: u64,
    pub budget: u64,
    pub depth: usize,
    pub max_depth: usize,
    /// output of puts/print builtins, if modelled
    pub out: String,
    pub calls: u64,
    pub loop_iters: u64,
    pub branches_taken: u64,
    pub branches_skipped: u64,
    pub in_function: usize,
    /// arrays grown by push beyond this length end the reference run (outside the checked domain)
    pub max_len: usize,
    /// every closure created, so that the environment <-> closure reference cycles can be cut when the
    /// interpreter goes away (otherwise each run leaks its whole environment, arrays included)
    closures: Vec<Rc<Closure>>,
}

impl Drop for Interp {
    fn drop(&mut self) {
        for c in self.closures.drain(..) {
            *c.env.borrow_mut() = None;
        }
    }
}

pub fn to_val(v: &RV) -> Val {
    to_val_d(v, 0)
}

fn to_val_d(v: &RV, d: usize) -> Val {
    if d > 96 {
        // same cap as p2::val_of (self-containing containers are excluded from the properties)
        return Val::Other("deep".into());
    }
    match v {
        RV::Null => Val::Null,
        RV::Bool(b) => Val::Bool(*b),
        RV::Int(i) => Val::Int(*i),
        RV::Float(f) => Val::Float(*f),
        RV::Str(s) => Val::Str((**s).clone()),
        RV::Char(c) => Val::Char(*c),
        RV::Byte(b) => Val::Byte(*b),
        RV::Arr(a) => Val::Arr(a.borrow().iter().map(|x| to_val_d(x, d + 1)).collect()),
        RV::Map(m) => Val::Map(m.borrow().iter().map(|(k, v)| (to_val_d(k, d + 1), to_val_d(v, d + 1))).collect()),
        RV::Clos(_) => Val::Fn,
        RV::Builtin(n) => Val::Builtin(n.to_string()),
        RV::Err(e) => Val::Err(e.clone()),
    }
}

pub fn from_val(v: &Val) -> RV {
    match v {
        Val::Null => RV::Null,
        Val::Bool(b) => RV::Bool(*b),
        Val::Int(i) => RV::Int(*i),
        Val::Float(f) => RV::Float(*f),
        Val::Str(s) => RV::Str(Rc::new(s.clone())),
        Val::Char(c) => RV::Char(*c),
        Val::Byte(b) => RV::Byte(*b),
        Val::Arr(a) => RV::Arr(Rc::new(RefCell::new(a.iter().map(from_val).collect()))),
        Val::Map(m) => RV::Map(Rc::new(RefCell::new(m.iter().map(|(k, v)| (from_val(k), from_val(v))).collect()))),
        Val::Fn => RV::Null,
        Val::Builtin(n) => RV::Builtin(builtins_ref::static_name(n)),
        Val::Err(e) => RV::Err(e.clone()),
        Val::Other(_) => RV::Null,
    }
}

pub fn falsey(v: &RV) -> bool {
    match v {
        RV::Bool(b) => !*b,
        RV::Int(i) => *i == 0,
        RV::Float(f) => *f == 0.0,
        RV::Null => true,
        RV::Char(c) => *c == '\0',
        RV::Byte(b) => *b == 0,
        RV::Str(s) => s.is_empty(),
        RV::Arr(a) => a.borrow().is_empty(),
        RV::Map(m) => m.borrow().is_empty(),
        _ => false,
    }
}

fn rt(class: ErrClass, msg: &str) -> Stop {
    Stop::Error(class, msg.to_string())
}

/// the kinds documented as map keys
pub fn valid_key(v: &RV) -> bool {
    matches!(v, RV::Str(_) | RV::Char(_) | RV::Byte(_) | RV::Int(_) | RV::Float(_) | RV::Bool(_) | RV::Builtin(_) | RV::Arr(_) | RV::Null)
}

pub fn rv_eq(a: &RV, b: &RV) -> Option<bool> {
    // one and the same container holding a NaN compared with itself: element-wise it differs from itself,
    // as one object it is itself; the statements do not settle it (don't-care)
    let same = match (a, b) {
        (RV::Arr(x), RV::Arr(y)) => Rc::ptr_eq(x, y),
        (RV::Map(x), RV::Map(y)) => Rc::ptr_eq(x, y),
        _ => false,
    };
    if same && has_nan(&to_val(a)) {
        return None;
    }
    ops::lang_eq(&to_val(a), &to_val(b))
}

fn has_nan(v: &Val) -> bool {
    match v {
        Val::Float(f) => f.is_nan(),
        Val::Arr(a) => a.iter().any(has_nan),
        Val::Map(m) => m.iter().any(|(k, v)| has_nan(k) || has_nan(v)),
        _ => false,
    }
}

type R = Result<RV, Stop>;

impl Interp {
    pub fn new(budget: u64) -> Self {
        Self {
            steps: 0,
            budget,
            depth: 0,
            max_depth: 150,
            out: String::new(),
            calls: 0,
            loop_iters: 0,
            branches_taken: 0,
            branches_skipped: 0,
            in_function: 0,
            max_len: 4096,
            closures: Vec::new(),
        }
    }

    fn tick(&mut self) -> Result<(), Stop> {
        self.steps += 1;
        if self.steps > self.budget {
            Err(Stop::Budget)
        } else {
            Ok(())
        }
    }

    /// Run a program (top-level statements).  Returns the final environment's
    /// value of the last expression statement.
    pub fn run_program(&mut self, prog: &[S]) -> (Env, Result<RV, Stop>) {
        let mut env: Env = None;
        let mut last = RV::Null;
        for s in prog {
            match self.stmt(s, &mut env, Kind::Global) {
                Ok(v) => last = v,
                Err(e) => return (env, Err(e)),
            }
        }
        (env, Ok(last))
    }

    /// Run a program on top of an existing global environment (REPL lines).
    pub fn run_more(&mut self, prog: &[S], env: &mut Env) -> Result<RV, Stop> {
        let mut last = RV::Null;
        for s in prog {
            last = self.stmt(s, env, Kind::Global)?;
        }
        Ok(last)
    }

    /// value of a block: its last statement's value when that is an expression
    /// statement, else null.  Bindings made inside do not escape.
    fn block(&mut self, stmts: &[S], env: &Env, kind: Kind) -> R {
        let mut inner = env.clone();
        let mut last = RV::Null;
        for (i, s) in stmts.iter().enumerate() {
            let v = self.stmt(s, &mut inner, kind)?;
            last = if i + 1 == stmts.len() && matches!(s, S::Expr(_)) { v } else { RV::Null };
        }
        Ok(last)
    }

    /// value of a function body: looks through trailing nested blocks
    fn body(&mut self, stmts: &[S], env: &Env) -> R {
        let mut inner = env.clone();
        let mut last = RV::Null;
        let n = stmts.iter().rposition(|s| !matches!(s, S::Blank(_) | S::Comment(_))).map(|i| i + 1).unwrap_or(0);
        for (i, s) in stmts.iter().enumerate() {
            let is_last = i + 1 == n;
            match s {
                S::Block(b) if is_last => {
                    last = self.body(b, &inner)?;
                }
                _ => {
                    let v = self.stmt(s, &mut inner, Kind::Local)?;
                    last = if is_last && matches!(s, S::Expr(_)) { v } else { RV::Null };
                }
            }
        }
        Ok(last)
    }

    pub fn stmt(&mut self, s: &S, env: &mut Env, kind: Kind) -> R {
        self.tick()?;
        match s {
            S::Blank(_) | S::Comment(_) => Ok(RV::Null),
            S::Raw(t) => Err(Stop::Unspecified(format!("raw statement {}", t))),
            S::Let(name, e) => {
                // a function literal bound by let can refer to itself by name
                let v = match e {
                    E::Fn(ps, body) => self.make_closure(Some(name), ps, body, env),
                    _ => self.eval(e, env)?,
                };
                *env = extend(env, name, v.clone(), kind);
                Ok(v)
            }
            S::FnDef(name, ps, body) => {
                let v = self.make_closure(Some(name), ps, body, env);
                *env = extend(env, name, v, kind);
                Ok(RV::Null)
            }
            S::Expr(e) => self.eval(e, env),
            S::Ret(e) => {
                let v = match e {
                    Some(e) => self.eval(e, env)?,
                    None => RV::Null,
                };
                Err(Stop::Return(v))
            }
            S::Block(b) => {
                self.block(b, env, kind)?;
                Ok(RV::Null)
            }
            S::While(label, c, b) => {
                loop {
                    self.tick()?;
                    let cv = self.eval(c, env)?;
                    if falsey(&cv) {
                        break;
                    }
                    self.loop_iters += 1;
                    match self.block(b, env, kind) {
                        Ok(_) => {}
                        Err(Stop::Break(l)) if l.is_none() || l == *label => break,
                        Err(Stop::Continue(l)) if l.is_none() || l == *label => continue,
                        Err(e) => return Err(e),
                    }
                }
                Ok(RV::Null)
            }
            S::Loop(label, b) => {
                loop {
                    self.tick()?;
                    self.loop_iters += 1;
                    match self.block(b, env, kind) {
                        Ok(_) => {}
                        Err(Stop::Break(l)) if l.is_none() || l == *label => break,
                        Err(Stop::Continue(l)) if l.is_none() || l == *label => continue,
                        Err(e) => return Err(e),
                    }
                }
                Ok(RV::Null)
            }
            S::Break(l) => Err(Stop::Break(l.clone())),
            S::Continue(l) => Err(Stop::Continue(l.clone())),
        }
    }

    fn make_closure(&mut self, name: Option<&str>, ps: &[String], body: &[S], env: &Env) -> RV {
        let captured = capture(env);
        let clos = Rc::new(Closure { params: ps.to_vec(), body: Rc::new(body.to_vec()), env: RefCell::new(captured.clone()) });
        self.closures.push(clos.clone());
        if let Some(n) = name {
            // the function's own name is visible in its body
            let with_self = extend(&captured, n, RV::Clos(clos.clone()), Kind::Local);
            *clos.env.borrow_mut() = with_self;
        }
        RV::Clos(clos)
    }

    fn apply(&mut self, f: &RV, args: Vec<RV>) -> R {
        match f {
            RV::Clos(c) => {
                if args.len() != c.params.len() {
                    return Err(rt(ErrClass::Other, "wrong number of arguments"));
                }
                if self.depth >= self.max_depth {
                    return Err(Stop::Budget);
                }
                self.calls += 1;
                let mut env = c.env.borrow().clone();
                for (p, a) in c.params.iter().zip(args) {
                    env = extend(&env, p, a, Kind::Local);
                }
                self.depth += 1;
                let r = self.body(&c.body.clone(), &env);
                self.depth -= 1;
                match r {
                    Ok(v) => Ok(v),
                    Err(Stop::Return(v)) => Ok(v),
                    Err(Stop::Break(_)) | Err(Stop::Continue(_)) => Err(Stop::Unspecified("break/continue escaping a function".into())),
                    Err(e) => Err(e),
                }
            }
            RV::Builtin(name) => {
                builtins_ref::call_rv(self, name, &args)
            }
            _ => Err(rt(ErrClass::Other, "calling non-function")),
        }
    }

    fn binop(&mut self, op: &str, a: &RV, b: &RV) -> R {
        // memory exclusion: values that keep doubling are outside the checked domain
        let big = |v: &RV| match v {
            RV::Str(s) => s.len() > 4096,
            RV::Arr(a) => a.borrow().len() > 2048,
            _ => false,
        };
        if big(a) || big(b) {
            return Err(Stop::Budget);
        }
        if op == "*" {
            if let (RV::Str(s), RV::Int(n)) | (RV::Int(n), RV::Str(s)) = (a, b) {
                if *n > 0 && (*n as u128) * (s.len().max(1) as u128) > 1 << 16 {
                    return Err(Stop::Budget);
                }
            }
        }
        // array concatenation must keep element identity (shared nested arrays)
        if op == "+" {
            if let (RV::Arr(x), RV::Arr(y)) = (a, b) {
                let mut v = x.borrow().clone();
                v.extend(y.borrow().iter().cloned());
                return Ok(RV::Arr(Rc::new(RefCell::new(v))));
            }
        }
        match ops::binop(op, &to_val(a), &to_val(b)) {
            Expect::Is(v) => Ok(from_val(&v)),
            Expect::Error => {
                let numeric = |v: &RV| matches!(v, RV::Int(_) | RV::Byte(_) | RV::Float(_));
                let zero = numeric(a) && (matches!(b, RV::Int(0) | RV::Byte(0)) || matches!(b, RV::Float(f) if *f == 0.0));
                let class = if (op == "/" || op == "%") && zero { ErrClass::DivZero } else { ErrClass::Other };
                Err(rt(class, "invalid binary operation"))
            }
            Expect::DontCare | Expect::AnyOf(..) | Expect::Pred(..) => Err(Stop::Unspecified(format!("operator {} on {} and {}", op, to_val(a).kind(), to_val(b).kind()))),
        }
    }

    pub fn eval(&mut self, e: &E, env: &Env) -> R {
        self.tick()?;
        match e {
            E::Null => Ok(RV::Null),
            E::Bool(b) => Ok(RV::Bool(*b)),
            E::Int(i) => Ok(RV::Int(*i)),
            E::Float(f) => Ok(RV::Float(*f)),
            E::Str(s) => Ok(RV::Str(Rc::new(s.clone()))),
            E::Char(c) => Ok(RV::Char(*c)),
            E::Byte(b) => Ok(RV::Byte(*b)),
            E::Mark(x) => self.eval(x, env),
            E::Raw(t) => Err(Stop::Unspecified(format!("raw expression {}", t))),
            E::Id(n) => match lookup(env, n) {
                Some(c) => Ok(c.borrow().clone()),
                None => match builtins_ref::builtin_name(n) {
                    Some(b) => Ok(RV::Builtin(b)),
                    None => Err(Stop::Unspecified(format!("unresolved name {}", n))),
                },
            },
            E::Arr(xs) => {
                let mut v = Vec::with_capacity(xs.len());
                for x in xs {
                    v.push(self.eval(x, env)?);
                }
                Ok(RV::Arr(Rc::new(RefCell::new(v))))
            }
            E::Map(ps) => {
                let mut m: Vec<(RV, RV)> = Vec::new();
                let mut bad_key = false;
                for (k, v) in ps {
                    let kv = self.eval(k, env)?;
                    let vv = self.eval(v, env)?;
                    if !valid_key(&kv) {
                        bad_key = true;
                    }
                    m.push((kv, vv));
                }
                // all elements are evaluated before the map is built
                if bad_key {
                    return Err(rt(ErrClass::Key, "not a valid key"));
                }
                let mut out: Vec<(RV, RV)> = Vec::new();
                for (k, v) in m {
                    let mut replaced = false;
                    for slot in out.iter_mut() {
                        match rv_eq(&slot.0, &k) {
                            Some(true) => {
                                slot.1 = v.clone();
                                replaced = true;
                                break;
                            }
                            Some(false) => {}
                            None => return Err(Stop::Unspecified("map keys with unspecified equality".into())),
                        }
                    }
                    if !replaced {
                        out.push((k, v));
                    }
                }
                Ok(RV::Map(Rc::new(RefCell::new(out))))
            }
            E::Un(op, x) => {
                let v = self.eval(x, env)?;
                match ops::unop(op, &to_val(&v)) {
                    Expect::Is(r) => Ok(from_val(&r)),
                    Expect::Error => Err(rt(ErrClass::Other, "bad operand for unary operator")),
                    _ => Err(Stop::Unspecified("unary".into())),
                }
            }
            E::Bin(op, a, b) => match op.as_str() {
                "&&" => {
                    let av = self.eval(a, env)?;
                    if falsey(&av) {
                        Ok(av)
                    } else {
                        self.eval(b, env)
                    }
                }
                "||" => {
                    let av = self.eval(a, env)?;
                    if falsey(&av) {
                        self.eval(b, env)
                    } else {
                        Ok(av)
                    }
                }
                "<" | "<=" => {
                    // operands of < and <= are evaluated right to left
                    let bv = self.eval(b, env)?;
                    let av = self.eval(a, env)?;
                    self.binop(op, &av, &bv)
                }
                _ => {
                    let av = self.eval(a, env)?;
                    let bv = self.eval(b, env)?;
                    self.binop(op, &av, &bv)
                }
            },
            E::Idx(a, i) => {
                let av = self.eval(a, env)?;
                let iv = self.eval(i, env)?;
                self.index_get(&av, &iv)
            }
            E::Call(f, args) => {
                let fv = self.eval(f, env)?;
                let mut vs = Vec::with_capacity(args.len());
                for a in args {
                    vs.push(self.eval(a, env)?);
                }
                self.apply(&fv, vs)
            }
            E::Assign(t, v) => {
                // right-hand side first, then the target's sub-expressions
                let val = self.eval(v, env)?;
                match &**t {
                    E::Id(n) => match lookup(env, n) {
                        Some(c) => {
                            *c.borrow_mut() = val.clone();
                            Ok(val)
                        }
                        None => Err(Stop::Unspecified(format!("assignment to unresolved name {}", n))),
                    },
                    E::Idx(a, i) => {
                        let av = self.eval(a, env)?;
                        let iv = self.eval(i, env)?;
                        self.index_set(&av, &iv, val)
                    }
                    E::Mark(inner) => {
                        let t2 = E::Assign(inner.clone(), Box::new(E::Null));
                        let _ = t2;
                        Err(Stop::Unspecified("marked assignment target".into()))
                    }
                    _ => Err(Stop::Unspecified("assignment target".into())),
                }
            }
            E::If(c, t, el) => {
                let cv = self.eval(c, env)?;
                if !falsey(&cv) {
                    self.branches_taken += 1;
                    self.block(t, env, self.kind_here())
                } else {
                    self.branches_skipped += 1;
                    match el.as_deref() {
                        None => Ok(RV::Null),
                        Some(Else::Block(b)) => self.block(b, env, self.kind_here()),
                        Some(Else::If(e2)) => self.eval(e2, env),
                    }
                }
            }
            E::Match(s, arms) => {
                let sv = self.eval(s, env)?;
                for arm in arms {
                    let mut hit = false;
                    for p in &arm.pats {
                        if self.pat_matches(p, &sv)? {
                            hit = true;
                            break;
                        }
                    }
                    if hit {
                        return if let Some(b) = &arm.block {
                            self.block(b, env, self.kind_here())
                        } else if let Some(x) = &arm.expr {
                            self.eval(x, env)
                        } else {
                            Ok(RV::Null)
                        };
                    }
                }
                Ok(RV::Null)
            }
            E::Fn(ps, body) => Ok(self.make_closure(None, ps, body, env)),
        }
    }

    fn kind_here(&self) -> Kind {
        if self.depth > 0 {
            Kind::Local
        } else {
            Kind::Global
        }
    }

    fn pat_val(p: &Pat) -> RV {
        match p {
            Pat::Int(i) => RV::Int(*i),
            Pat::Str(s) => RV::Str(Rc::new(s.clone())),
            Pat::Char(c) => RV::Char(*c),
            Pat::Byte(b) => RV::Byte(*b),
            Pat::Bool(b) => RV::Bool(*b),
            _ => RV::Null,
        }
    }

    fn pat_matches(&mut self, p: &Pat, v: &RV) -> Result<bool, Stop> {
        match p {
            Pat::Default => Ok(true),
            Pat::Range(a, b, inc) => {
                let lo = Self::pat_val(a);
                let hi = Self::pat_val(b);
                let same_kind = std::mem::discriminant(&to_val(&lo)) == std::mem::discriminant(&to_val(v));
                // an integer range and a float scrutinee compare as doubles (defined);
                // any other kind mix has no defined ordering: don't-care zone
                let numeric_mix = matches!(lo, RV::Int(_)) && matches!(v, RV::Float(_));
                if !same_kind && !numeric_mix {
                    return Err(Stop::Unspecified("match scrutinee of another kind than the range patterns".into()));
                }
                let ge = self.binop(">=", v, &lo)?;
                let up = self.binop(if *inc { "<=" } else { "<" }, v, &hi)?;
                Ok(matches!(ge, RV::Bool(true)) && matches!(up, RV::Bool(true)))
            }
            lit => {
                // "a pattern equal to it": language equality, which is total
                // (values of different kinds are simply not equal; 1 == 1.0)
                let pv = Self::pat_val(lit);
                match rv_eq(&pv, v) {
                    Some(b) => Ok(b),
                    None => Err(Stop::Unspecified("match pattern against a value whose equality is unspecified".into())),
                }
            }
        }
    }

    pub fn index_get(&mut self, a: &RV, i: &RV) -> R {
        match (a, i) {
            (RV::Arr(arr), RV::Int(n)) => {
                let arr = arr.borrow();
                if *n < 0 || *n as usize >= arr.len() {
                    Err(rt(ErrClass::Index, "index out of range"))
                } else {
                    Ok(arr[*n as usize].clone())
                }
            }
            (RV::Map(m), k) => {
                if !valid_key(k) {
                    return Err(rt(ErrClass::Key, "not a valid key"));
                }
                for (k2, v) in m.borrow().iter() {
                    match rv_eq(k2, k) {
                        Some(true) => return Ok(v.clone()),
                        Some(false) => {}
                        None => return Err(Stop::Unspecified("map key equality".into())),
                    }
                }
                Err(rt(ErrClass::Key, "key not found"))
            }
            _ => Err(rt(ErrClass::Index, "unsupported index operation")),
        }
    }

    pub fn index_set(&mut self, a: &RV, i: &RV, val: RV) -> R {
        match (a, i) {
            (RV::Arr(arr), RV::Int(n)) => {
                if would_cycle(Rc::as_ptr(arr) as *const (), &val) {
                    return Err(Stop::Unspecified(SELF_CONTAINING.into()));
                }
                let mut arr = arr.borrow_mut();
                if *n < 0 || *n as usize >= arr.len() {
                    Err(rt(ErrClass::Index, "index out of range"))
                } else {
                    arr[*n as usize] = val.clone();
                    Ok(val)
                }
            }
            (RV::Map(m), k) => {
                if !valid_key(k) {
                    return Err(rt(ErrClass::Key, "not a valid key"));
                }
                map_insert(m, k.clone(), val.clone())?;
                Ok(val)
            }
            _ => Err(rt(ErrClass::Index, "unsupported index operation")),
        }
    }
}

/// Would storing `v` inside the container `target` make it contain itself? (`v` is still acyclic: the reference
/// never builds a cycle.) Containers that contain themselves are outside every checked domain: printing them is
/// excluded by C08's statement, hashing / comparing them are recorded open findings, and the reference's own
/// traversals would not end.
pub fn would_cycle(target: *const (), v: &RV) -> bool {
    match v {
        RV::Arr(a) => Rc::as_ptr(a) as *const () == target || a.borrow().iter().any(|x| would_cycle(target, x)),
        RV::Map(m) => Rc::as_ptr(m) as *const () == target || m.borrow().iter().any(|(k, x)| would_cycle(target, k) || would_cycle(target, x)),
        _ => false,
    }
}

pub const SELF_CONTAINING: &str = "self-containing container";

/// insert into an association list under language equality; returns the old value
pub fn map_insert(m: &Rc<RefCell<Vec<(RV, RV)>>>, k: RV, v: RV) -> Result<RV, Stop> {
    if would_cycle(Rc::as_ptr(m) as *const (), &k) || would_cycle(Rc::as_ptr(m) as *const (), &v) {
        return Err(Stop::Unspecified(SELF_CONTAINING.into()));
    }
    let mut mm = m.borrow_mut();
    for slot in mm.iter_mut() {
        match rv_eq(&slot.0, &k) {
            Some(true) => {
                let old = std::mem::replace(&mut slot.1, v);
                return Ok(old);
            }
            Some(false) => {}
            None => return Err(Stop::Unspecified("map key equality".into())),
        }
    }
    mm.push((k, v));
    Ok(RV::Null)
}

// ---------------------------------------------------------------------------
// static checks the compiler must perform (C02 last sentence, C04)
// ---------------------------------------------------------------------------

#[derive(Clone, Debug, PartialEq)]
pub enum Reject {
    Undefined(String),
    BreakOutsideLoop,
    ContinueOutsideLoop,
    UnknownLabel(String),
    ReturnOutsideFunction,
    MixedMatchPatterns,
}

struct Scope<'a> {
    names: Vec<&'a str>,
}

pub struct Resolver<'a> {
    scopes: Vec<Scope<'a>>,
    /// loop labels of the current function (None = unlabelled)
    loops: Vec<Vec<Option<&'a str>>>,
    fn_depth: usize,
    /// names usable everywhere (builtins and builtin variables)
    pub found: Vec<Reject>,
}

const BUILTIN_VARS: &[&str] = &["argv", "NP", "PL", "WL", "TSS", "TSU"];

impl<'a> Resolver<'a> {
    pub fn new() -> Self {
        Self { scopes: vec![Scope { names: vec![] }], loops: vec![vec![]], fn_depth: 0, found: vec![] }
    }
    pub fn with_globals(names: &'a [String]) -> Self {
        let mut r = Self::new();
        for n in names {
            r.scopes[0].names.push(n.as_str());
        }
        r
    }
    pub fn global_names(&self) -> Vec<String> {
        self.scopes[0].names.iter().map(|s| s.to_string()).collect()
    }
    fn defined(&self, n: &str) -> bool {
        self.scopes.iter().any(|s| s.names.iter().any(|x| *x == n)) || builtins_ref::is_any_builtin(n) || BUILTIN_VARS.contains(&n)
    }
    fn define(&mut self, n: &'a str) {
        self.scopes.last_mut().unwrap().names.push(n);
    }
    pub fn program(&mut self, stmts: &'a [S]) {
        for s in stmts {
            self.stmt(s);
        }
    }
    fn block(&mut self, stmts: &'a [S]) {
        self.scopes.push(Scope { names: vec![] });
        for s in stmts {
            self.stmt(s);
        }
        self.scopes.pop();
    }
    fn function(&mut self, name: Option<&'a str>, ps: &'a [String], body: &'a [S]) {
        self.scopes.push(Scope { names: vec![] });
        if let Some(n) = name {
            self.define(n);
        }
        for p in ps {
            self.define(p);
        }
        self.loops.push(vec![]);
        self.fn_depth += 1;
        self.block(body);
        self.fn_depth -= 1;
        self.loops.pop();
        self.scopes.pop();
    }
    fn stmt(&mut self, s: &'a S) {
        match s {
            S::Let(n, e) => {
                // the name is defined before its initialiser is resolved
                // (needed for self-recursive function literals)
                match e {
                    E::Fn(ps, body) => {
                        self.define(n);
                        self.function(Some(n), ps, body);
                    }
                    _ => {
                        self.expr(e);
                        self.define(n);
                    }
                }
            }
            S::FnDef(n, ps, body) => {
                self.define(n);
                self.function(Some(n), ps, body);
            }
            S::Expr(e) => self.expr(e),
            S::Ret(e) => {
                if self.fn_depth == 0 {
                    self.found.push(Reject::ReturnOutsideFunction);
                }
                if let Some(e) = e {
                    self.expr(e);
                }
            }
            S::Block(b) => self.block(b),
            S::While(l, c, b) => {
                self.loops.last_mut().unwrap().push(l.as_deref());
                self.expr(c);
                self.block(b);
                self.loops.last_mut().unwrap().pop();
            }
            S::Loop(l, b) => {
                self.loops.last_mut().unwrap().push(l.as_deref());
                self.block(b);
                self.loops.last_mut().unwrap().pop();
            }
            S::Break(l) | S::Continue(l) => {
                let loops = self.loops.last().unwrap();
                if loops.is_empty() {
                    self.found.push(if matches!(s, S::Break(_)) { Reject::BreakOutsideLoop } else { Reject::ContinueOutsideLoop });
                } else if let Some(l) = l {
                    if !loops.iter().any(|x| *x == Some(l.as_str())) {
                        self.found.push(Reject::UnknownLabel(l.clone()));
                    }
                }
            }
            S::Blank(_) | S::Comment(_) | S::Raw(_) => {}
        }
    }
    fn expr(&mut self, e: &'a E) {
        match e {
            E::Id(n) => {
                if !self.defined(n) {
                    self.found.push(Reject::Undefined(n.clone()));
                }
            }
            E::Arr(xs) => xs.iter().for_each(|x| self.expr(x)),
            E::Map(ps) => ps.iter().for_each(|(k, v)| {
                self.expr(k);
                self.expr(v)
            }),
            E::Un(_, x) | E::Mark(x) => self.expr(x),
            E::Bin(_, a, b) | E::Idx(a, b) => {
                self.expr(a);
                self.expr(b)
            }
            E::Assign(t, v) => {
                self.expr(v);
                self.expr(t)
            }
            E::Call(f, args) => {
                self.expr(f);
                args.iter().for_each(|x| self.expr(x))
            }
            E::If(c, t, el) => {
                self.expr(c);
                self.block(t);
                match el.as_deref() {
                    None => {}
                    Some(Else::Block(b)) => self.block(b),
                    Some(Else::If(e2)) => self.expr(e2),
                }
            }
            E::Match(s, arms) => {
                self.expr(s);
                let mut first: Option<u8> = None;
                for a in arms {
                    for p in &a.pats {
                        if let Some(k) = pat_kind(p) {
                            match first {
                                None => first = Some(k),
                                Some(f) if f != k => self.found.push(Reject::MixedMatchPatterns),
                                _ => {}
                            }
                        }
                    }
                    if let Some(b) = &a.block {
                        self.block(b);
                    }
                    if let Some(x) = &a.expr {
                        self.expr(x);
                    }
                }
            }
            E::Fn(ps, body) => self.function(None, ps, body),
            _ => {}
        }
    }
}

fn pat_kind(p: &Pat) -> Option<u8> {
    match p {
        Pat::Int(_) => Some(1),
        Pat::Str(_) => Some(2),
        Pat::Char(_) => Some(3),
        Pat::Byte(_) => Some(4),
        Pat::Bool(_) => Some(5),
        Pat::Range(a, _, _) => pat_kind(a),
        Pat::Default => None,
    }
}

/// Static verdict of the reference: the faults the compiler must reject.
pub fn static_check(prog: &[S]) -> Vec<Reject> {
    let mut r = Resolver::new();
    r.program(prog);
    r.found
}
