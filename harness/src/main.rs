use std::collections::{BTreeMap, HashSet};
use std::path::{Path, PathBuf};
use std::process::{Command, Stdio};
use std::time::{Duration, Instant};

use p2v::hx::engine::*;
use p2v::hx::props;
use serde_json::{json, Value};

fn usage() -> ! {
    eprintln!("usage: p2v check <id> <quick|thorough> | worker ... | replay <file> | list");
    std::process::exit(2)
}

fn parse_tier(s: &str) -> Tier {
    match s {
        "quick" => Tier::Quick,
        "thorough" => Tier::Thorough,
        _ => usage(),
    }
}

fn main() {
    let args: Vec<String> = std::env::args().collect();
    if args.len() < 2 {
        usage();
    }
    match args[1].as_str() {
        "check" => {
            if args.len() < 4 {
                usage();
            }
            std::process::exit(check(&args[2], parse_tier(&args[3])));
        }
        "worker" => {
            if args.len() < 8 {
                usage();
            }
            worker(
                &args[2],
                parse_tier(&args[3]),
                args[4].parse().unwrap(),
                args[5].parse().unwrap(),
                args[6].parse().unwrap(),
                &args[7],
            );
        }
        "replay" => {
            if args.len() < 3 {
                usage();
            }
            std::process::exit(replay(&args[2]));
        }
        "show" => {
            // debug: p2v show <n> [seed]  — print n generated programs with both outcomes
            let n: u64 = args.get(2).and_then(|s| s.parse().ok()).unwrap_or(3);
            let seed: u64 = args.get(3).and_then(|s| s.parse().ok()).unwrap_or(1);
            p2v::hx::p2::with_big_stack(move || {
                install_panic_hook();
                for i in 0..n {
                    let mut bytes = Vec::new();
                    let mut x = p2v::hx::choices::mix64(seed.wrapping_mul(1000).wrapping_add(i));
                    for _ in 0..300 {
                        x = p2v::hx::choices::mix64(x);
                        bytes.push((x >> 24) as u8);
                    }
                    let (prog, kinds) = p2v::hx::gen::gen_program(&bytes[1..], props::c02::cfg_for(&bytes));
                    let rr = p2v::hx::progcheck::reference(&prog, 300_000);
                    let v = p2v::hx::progcheck::compare("show", &prog, &rr);
                    println!("=== program {} kinds={:?}\n{}", i, kinds, v.src);
                    println!("--- reference: rejects={:?} result={:?} unspecified={:?} obs={}", rr.rejects, rr.result.as_ref().map(|r| r.as_ref().map(|v| v.show())), rr.unspecified, rr.obs.show());
                    println!("--- p2sh: {}", v.p2_tag);
                    for x in &v.violations {
                        println!("!!! {} :: {}", x.sig, x.detail.lines().take(4).collect::<Vec<_>>().join(" | "));
                    }
                }
            });
        }
        "fuzzcase" => {
            // p2v fuzzcase <ID> <file with the raw fuzz input>: judge it, write a replay file, print VIOLATION lines
            if args.len() < 4 {
                usage();
            }
            std::process::exit(fuzzcase(&args[2], &args[3]));
        }
        "list" => {
            for id in props::ALL {
                println!("{}", id);
            }
        }
        _ => usage(),
    }
}

fn seed_from_env() -> u64 {
    std::env::var("VERIF_SEED").ok().and_then(|s| s.trim().parse::<i64>().ok()).map(|v| v as u64).unwrap_or(1)
}

fn nworkers(id: &str) -> usize {
    std::env::var("P2V_WORKERS").ok().and_then(|s| s.parse().ok()).unwrap_or_else(|| {
        let n = std::thread::available_parallelism().map(|n| n.get()).unwrap_or(8).min(16);
        // checks that spawn the p2sh binary: process creation does not scale in this
        // sandbox (more than ~4 concurrent spawners lower the total throughput)
        if matches!(id, "C20" | "C23" | "C24") {
            n.min(4)
        } else {
            n
        }
    })
}

fn worker(id: &str, tier: Tier, shard: usize, nshards: usize, seed: u64, out: &str) {
    let keep_err = silence_stdio();
    install_panic_hook();
    install_crash_capture(&format!("{}.crash", out));
    let id2 = id.to_string();
    let handle = std::thread::Builder::new()
        .stack_size(512 << 20)
        .spawn(move || {
            let mut ctx = Ctx::new(&id2, tier, seed, shard, nshards);
            // regression tier: replay stored cases of listed findings first (shard 0)
            if shard == 0 {
                for f in load_findings().iter().filter(|f| f.property == id2) {
                    if let Some(rp) = &f.replay {
                        let p = Path::new(VERIF_DIR).join(rp);
                        match std::fs::read_to_string(&p).ok().and_then(|s| serde_json::from_str::<Value>(&s).ok()) {
                            Some(v) => {
                                let section = v["section"].as_str().unwrap_or("").to_string();
                                props::replay(&id2, &section, &v["case"], &mut ctx);
                                ctx.class("regress-replays");
                            }
                            None => ctx.infra(format!("cannot read replay file {}", p.display())),
                        }
                    }
                }
            }
            props::run(&id2, &mut ctx);
            ctx.finish()
        })
        .unwrap();
    // hang watchdog: no heartbeat for HANG_SECS => leave the current case behind, exit 4
    let env_hang: Option<u64> = std::env::var("P2V_HANG_SECS").ok().and_then(|s| s.parse().ok());
    let mut last = beat_count();
    let mut last_change = Instant::now();
    while !handle.is_finished() {
        std::thread::sleep(Duration::from_millis(50));
        let b = beat_count();
        let hang_secs = env_hang.unwrap_or_else(hang_limit);
        if b != last {
            last = b;
            last_change = Instant::now();
        } else if last_change.elapsed() > Duration::from_secs(hang_secs) && b > 0 {
            let (section, key, payload) = current_case();
            let _ = std::fs::write(format!("{}.hang", out), format!("hang\n{}\n{}\n{}", section, key, payload));
            std::process::exit(4);
        }
    }
    let res = match handle.join() {
        Ok(r) => r,
        Err(_) => {
            // a panic in the harness itself (not in the tested code): say where
            let msg = format!("p2v worker {}: harness panic: {}\n", shard, last_panic_text());
            unsafe {
                libc::write(keep_err, msg.as_ptr() as *const libc::c_void, msg.len());
            }
            std::process::exit(6)
        }
    };
    let s = serde_json::to_string(&res).unwrap();
    if std::fs::write(out, s).is_err() {
        unsafe {
            let msg = b"p2v worker: cannot write result\n";
            libc::write(keep_err, msg.as_ptr() as *const libc::c_void, msg.len());
        }
        std::process::exit(3);
    }
}

fn check(id: &str, tier: Tier) -> i32 {
    if !props::ALL.contains(&id) {
        eprintln!("unknown property {}", id);
        return 2;
    }
    let t0 = Instant::now();
    let seed = seed_from_env();
    let n = nworkers(id);
    let dir = scratch_root().join(format!("p2v-{}-{}", id, std::process::id()));
    let _ = std::fs::remove_dir_all(&dir);
    std::fs::create_dir_all(&dir).unwrap();
    let exe = std::env::current_exe().unwrap();
    let mut children = Vec::new();
    for shard in 0..n {
        let out = dir.join(format!("w{}.json", shard));
        let child = Command::new(&exe)
            .args(["worker", id, tier.name(), &shard.to_string(), &n.to_string(), &seed.to_string()])
            .arg(&out)
            .env("P2V_SCRATCH", dir.join(format!("s{}", shard)))
            .stdin(Stdio::null())
            .stdout(Stdio::null())
            .stderr(Stdio::inherit())
            .spawn()
            .expect("spawn worker");
        children.push((shard, child, out));
    }
    let limit = Duration::from_secs(match tier {
        Tier::Quick => 30 * 60,
        Tier::Thorough => 4 * 3600,
    });
    let mut merged = ShardResult::default();
    let mut nontrivial: HashSet<u64> = HashSet::new();
    let mut infra: Vec<String> = Vec::new();
    for (shard, mut child, out) in children {
        let status = loop {
            match child.try_wait() {
                Ok(Some(st)) => break Some(st),
                Ok(None) => {
                    if t0.elapsed() > limit {
                        let _ = child.kill();
                        let _ = child.wait();
                        break None;
                    }
                    std::thread::sleep(Duration::from_millis(20));
                }
                Err(_) => break None,
            }
        };
        match status {
            Some(st) if st.success() => match std::fs::read_to_string(&out).ok().and_then(|s| serde_json::from_str::<ShardResult>(&s).ok()) {
                Some(r) => {
                    merged.evals += r.evals;
                    nontrivial.extend(r.nontrivial.iter().copied());
                    for (k, v) in r.classes {
                        *merged.classes.entry(k).or_insert(0) += v;
                    }
                    for (k, v) in r.sig_counts {
                        *merged.sig_counts.entry(k).or_insert(0) += v;
                    }
                    if merged.samples.len() < 12 {
                        merged.samples.extend(r.samples.into_iter().take(3));
                    }
                    merged.violations.extend(r.violations);
                    merged.excluded += r.excluded;
                    merged.nontrivial_counted += r.nontrivial_counted;
                    for nn in r.notes {
                        if !merged.notes.contains(&nn) {
                            merged.notes.push(nn);
                        }
                    }
                    for s in r.exhaustive_sections {
                        if !merged.exhaustive_sections.contains(&s) {
                            merged.exhaustive_sections.push(s);
                        }
                    }
                    infra.extend(r.infra);
                }
                None => infra.push(format!("worker {} produced no readable result", shard)),
            },
            Some(st) => {
                // a native crash (exit 5) or a hang (exit 4) leaves the culprit case behind
                let crash = read_crash_file(Path::new(&format!("{}.crash", out.display())));
                let hang = read_crash_file(Path::new(&format!("{}.hang", out.display())));
                let crash_props = ["C01", "C08"];
                let hang_props = ["C01", "C02", "C05", "C08"];
                match (st.code(), crash, hang) {
                    (Some(5), Some((sig, section, case)), _) if crash_props.contains(&id) => {
                        merged.violations.push(Violation::new(
                            &section,
                            format!("native-crash|{}|{}", section, sig),
                            format!("the worker process died ({}) while running this case", sig),
                            case,
                        ));
                        infra.push(format!("worker {} died of a native crash; the rest of its shard was not explored", shard));
                    }
                    (Some(4), _, Some((_, section, case))) if hang_props.contains(&id) => {
                        merged.violations.push(Violation::new(
                            &section,
                            format!("hang|{}", section),
                            "no progress for 30 s on this case (reference run is bounded)".to_string(),
                            case,
                        ));
                        infra.push(format!("worker {} hung; the rest of its shard was not explored", shard));
                    }
                    (code, crash, hang) => {
                        // keep the whole case for diagnosis (an inconclusive run is not a verdict)
                        if let Some((sig, section, case)) = crash.as_ref().or(hang.as_ref()) {
                            let _ = std::fs::create_dir_all("/verif/evidence/inconclusive");
                            let _ = std::fs::write(
                                format!("/verif/evidence/inconclusive/{}-{}-shard{}.json", id, section, shard),
                                serde_json::to_string_pretty(&serde_json::json!({"property": id, "what": sig, "section": section, "case": case})).unwrap_or_default(),
                            );
                        }
                        let c = crash.or(hang).map(|(sig, section, case)| format!(" [{} in {}: {}]", sig, section, case.to_string().chars().take(300).collect::<String>())).unwrap_or_default();
                        infra.push(format!("worker {} ended abnormally (exit {:?}){}", shard, code, c));
                    }
                }
            }
            None => infra.push(format!("worker {} exceeded the time limit and was stopped (inconclusive)", shard)),
        }
    }
    let _ = std::fs::remove_dir_all(&dir);

    let meta = props::meta(id);
    // generator health: required classes must have been exercised
    for (c, min) in meta.required_classes {
        let got = merged.classes.get(*c).copied().unwrap_or(0);
        let min = match tier {
            Tier::Quick => *min,
            Tier::Thorough => *min,
        };
        if got < min {
            infra.push(format!("generator health: class '{}' seen {} times, need >= {}", c, got, min));
        }
    }

    // split violations into known / novel (smallest case per signature)
    let findings: Vec<Finding> = load_findings().into_iter().filter(|f| f.property == id).collect();
    let open: BTreeMap<String, &Finding> = findings.iter().filter(|f| f.status == "open").map(|f| (f.signature.clone(), f)).collect();
    let mut by_sig: BTreeMap<String, Violation> = BTreeMap::new();
    for v in merged.violations.drain(..) {
        let len = v.case.to_string().len();
        match by_sig.get(&v.sig) {
            Some(old) if old.case.to_string().len() <= len => {}
            _ => {
                by_sig.insert(v.sig.clone(), v);
            }
        }
    }
    let mut known_lines = Vec::new();
    let mut novel = Vec::new();
    for (sig, v) in &by_sig {
        if let Some(f) = open.get(sig) {
            known_lines.push(format!("KNOWN-FINDING: property={} {}: {}", id, f.id, f.what));
        } else {
            novel.push(v.clone());
        }
    }
    for f in open.values() {
        if !by_sig.contains_key(&f.signature) {
            merged.notes.push(format!("listed open finding {} did not reproduce in this run", f.id));
        }
    }
    for l in &known_lines {
        println!("{}", l);
    }
    let replay_dir = Path::new(VERIF_DIR).join("evidence").join("replay");
    let _ = std::fs::create_dir_all(&replay_dir);
    for v in &novel {
        let h = p2v::hx::choices::hash_str(&format!("{}{}", v.sig, v.case));
        let path: PathBuf = replay_dir.join(format!("{}-{:016x}.json", id, h));
        let body = json!({"property": id, "section": v.section, "signature": v.sig, "detail": v.detail, "case": v.case});
        let _ = std::fs::write(&path, serde_json::to_string_pretty(&body).unwrap());
        println!("VIOLATION property={} replay={}", id, path.display());
        println!("  signature: {}", v.sig);
        println!("  detail: {}", v.detail.chars().take(600).collect::<String>());
    }
    for i in &infra {
        println!("INCONCLUSIVE: {}", i);
    }
    merged.notes.extend(infra.iter().map(|s| format!("infra: {}", s)));
    let wall = t0.elapsed().as_secs_f64();
    let exhaustive = meta.exhaustive_when_sections.len() > 0
        && meta.exhaustive_when_sections.iter().all(|s| merged.exhaustive_sections.iter().any(|x| x == s));
    let ev = evidence_json(
        id,
        tier,
        seed,
        &merged,
        nontrivial.len() + merged.nontrivial_counted as usize,
        meta.rule,
        &meta.assumptions.iter().map(|s| s.to_string()).collect::<Vec<_>>(),
        wall,
        novel.len(),
        &known_lines,
        exhaustive,
    );
    let evdir = Path::new(VERIF_DIR).join("evidence");
    let _ = std::fs::create_dir_all(&evdir);
    std::fs::write(evdir.join(format!("{}.json", id)), serde_json::to_string_pretty(&ev).unwrap()).expect("write evidence");
    println!(
        "{} {}: evaluations={} distinct_nontrivial={} novel_violations={} known_findings={} wall={:.1}s",
        id,
        tier.name(),
        merged.evals,
        nontrivial.len() + merged.nontrivial_counted as usize,
        novel.len(),
        known_lines.len(),
        wall
    );
    if !novel.is_empty() {
        1
    } else if !infra.is_empty() {
        2
    } else {
        0
    }
}

fn fuzzcase(id: &str, file: &str) -> i32 {
    let data = match std::fs::read(file) {
        Ok(d) => d,
        Err(_) => return 2,
    };
    let id = id.to_string();
    let file = file.to_string();
    p2v::hx::p2::with_big_stack(move || {
        install_panic_hook();
        let vs = p2v::hx::fuzz::fuzz_one(&id.to_lowercase(), &data);
        let open = open_signatures(&id);
        let mut code = 0;
        for v in vs {
            if open.iter().any(|k| k == &v.sig) {
                continue;
            }
            let dir = Path::new(VERIF_DIR).join("evidence/replay");
            let _ = std::fs::create_dir_all(&dir);
            let h = p2v::hx::choices::hash_bytes(&data);
            let out = dir.join(format!("{}-fuzz-{:016x}.json", id, h));
            let j = serde_json::json!({"property": id, "section": "fuzz", "signature": v.sig, "detail": v.detail, "case": {"bytes": p2v::hx::pkt::hex(&data)}, "found_by": format!("libFuzzer input {}", file)});
            let _ = std::fs::write(&out, serde_json::to_string_pretty(&j).unwrap_or_default());
            println!("VIOLATION property={} replay={}", id, out.display());
            println!("  signature: {}", v.sig);
            println!("  detail: {}", v.detail.chars().take(1500).collect::<String>());
            code = 1;
        }
        code
    })
}

fn replay(path: &str) -> i32 {
    let v: Value = match std::fs::read_to_string(path).ok().and_then(|s| serde_json::from_str(&s).ok()) {
        Some(v) => v,
        None => {
            eprintln!("cannot read {}", path);
            return 2;
        }
    };
    let id = v["property"].as_str().unwrap_or("").to_string();
    let section = v["section"].as_str().unwrap_or("").to_string();
    let case = v["case"].clone();
    let path = path.to_string();
    let code = p2v::hx::p2::with_big_stack(move || {
        install_panic_hook();
        let mut ctx = Ctx::new(&id, Tier::Quick, 1, 0, 1);
        ctx.strict = true;
        props::replay(&id, &section, &case, &mut ctx);
        let r = ctx.finish();
        if r.violations.is_empty() {
            println!("replay {}: property {} held on this case", path, id);
            0
        } else {
            for v in &r.violations {
                println!("VIOLATION property={} replay={}", id, path);
                println!("  signature: {}", v.sig);
                println!("  detail: {}", v.detail);
            }
            1
        }
    });
    code
}
