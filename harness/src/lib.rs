#![allow(dead_code)]
// The real p2sh modules (see build.rs)
include!(concat!(env!("OUT_DIR"), "/p2sh_mods.rs"));

pub mod hx;
