#![no_main]
use libfuzzer_sys::fuzz_target;

fuzz_target!(|data: &[u8]| {
    p2v::hx::fuzz::fuzz_entry("c19", data);
});
