use std::env;
use std::fs;
use std::path::Path;

// Compile the real p2sh modules into the harness: emit
//   #[path = "<repo>/src/<m>/mod.rs"] pub mod <m>;
// for every library-like module of the bin-only p2sh crate.
fn main() {
    let repo = env::var("P2V_REPO").unwrap_or_else(|_| "/repo".to_string());
    println!("cargo:rerun-if-env-changed=P2V_REPO");
    println!("cargo:rerun-if-changed={}/src", repo);
    println!("cargo:rerun-if-changed={}/Cargo.toml", repo);
    let mods = ["builtins", "code", "compiler", "object", "parser", "scanner", "vm"];
    let mut out = String::new();
    for m in mods {
        out.push_str(&format!(
            "#[allow(dead_code, unused_imports, clippy::all)]\n#[path = \"{}/src/{}/mod.rs\"]\npub mod {};\n",
            repo, m, m
        ));
    }
    let dest = Path::new(&env::var("OUT_DIR").unwrap()).join("p2sh_mods.rs");
    fs::write(dest, out).unwrap();
    println!("cargo:rustc-env=P2V_REPO_DIR={}", repo);
}
