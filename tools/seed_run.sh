#!/bin/bash
# usage: seed_run.sh <PROP> <VARIANT> [<other prop> ...]
# Applies /verif/seeded/<PROP>/<VARIANT>/patch.effective.diff to /repo, runs the quick check of PROP (and of the
# other properties named), undoes the change, and records what the checks reported in the seed's meta.json.
prop="$1"; var="$2"; shift 2
dir=/verif/seeded/$prop/$var
out=$(/verif/tools/seedtest.sh "$dir/patch.effective.diff" "$prop" "$@" 2>&1)
echo "$out" | grep -E "^C[0-9]+:|DOES NOT APPLY|dirty" | sed "s|^|$prop/$var -> |"
python3 - "$dir" "$out" <<'EOF'
import json, sys, re
d, out = sys.argv[1], sys.argv[2]
meta = json.load(open(f"{d}/meta.json"))
runs = meta.get("checks_run", {})
for line in out.splitlines():
    m = re.match(r"^(C\d+): exit=(\d+) violations=(\d+) :: (.*)$", line)
    if m:
        sigs = [s.strip().replace("signature: ", "") for s in m.group(4).split(";") if s.strip()]
        runs[m.group(1)] = {"cmd": f"./run.sh check {m.group(1)} quick", "exit": int(m.group(2)), "violation_lines": int(m.group(3)), "first_signatures": sigs}
meta["checks_run"] = runs
meta["caught_by"] = sorted(k for k, v in runs.items() if v["exit"] == 1 and v["violation_lines"] > 0)
meta["how_run"] = "git -C /repo apply patch.effective.diff; ./run.sh check <id> quick; git -C /repo checkout -- . (tools/seedtest.sh)"
json.dump(meta, open(f"{d}/meta.json", "w"), indent=1)
EOF
