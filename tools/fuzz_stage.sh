#!/bin/bash
# usage: fuzz_stage.sh <ID>            (called by run.sh for the thorough tier of properties that have a libFuzzer target)
# Runs the coverage-guided target harness/fuzz/fuzz_targets/<id>.rs for P2V_FUZZ_SECS seconds (default 300) with
# P2V_FUZZ_JOBS forked workers (default 8) from a fresh corpus seeded with a few valid inputs, judges every crash
# artifact through the property's oracle (`p2v fuzzcase`), prints VIOLATION lines and appends what was explored to
# the evidence file. Exit: 0 nothing found / 1 violation / 2 inconclusive (build failure, only timeouts or OOMs).
set -u
id="$1"
t=$(echo "$id" | tr 'A-Z' 'a-z')
VERIF=/verif
TGT="${P2V_TARGET:-$VERIF/target}"
[ -f "$VERIF/harness/fuzz/fuzz_targets/$t.rs" ] || exit 0
secs="${P2V_FUZZ_SECS:-300}"
jobs="${P2V_FUZZ_JOBS:-8}"
seed="${VERIF_SEED:-1}"
[ "$seed" = "0" ] && seed=1
export CARGO_NET_OFFLINE=true RUST_BACKTRACE=0
work="$TGT/fuzz-work/$t-$$"
corpus="$work/corpus"; art="$work/artifacts"
mkdir -p "$corpus" "$art"
# a few small valid inputs: the repository's example scripts for the text targets
case "$t" in
  c01) cp /repo/examples/*/*.p2 "$corpus"/ 2>/dev/null ;;
  c12) printf '{}' > "$corpus/a"; printf '{0:*>8x}|{1:<5}|{{}}' > "$corpus/b" ;;
  c18) printf '\0000:1b:21:3c:4d:5e' > "$corpus/m"; printf '\001192.168.0.1' > "$corpus/v4"; printf '\002fe80::1:0:ff' > "$corpus/v6" ;;
  c19) python3 - "$corpus" <<'EOF'
import struct, sys
d = sys.argv[1]
h = struct.pack('<IHHiIII', 0xa1b2c3d4, 2, 4, 0, 0, 65535, 1)
r = lambda n: struct.pack('<IIII', 1, 2, n, n) + bytes(range(256))[:n] * 1
open(d + '/p0', 'wb').write(b'\0' + h)
open(d + '/p1', 'wb').write(b'\1' + h + r(20) + r(0) + r(60))
open(d + '/p2', 'wb').write(b'\3' + struct.pack('<IHHiIII', 0xa1b23c4d, 2, 4, 0, 0, 64, 1) + r(64) + r(10))
EOF
  ;;
  c16) python3 - "$corpus" <<'EOF'
import sys
d = sys.argv[1]
eth = bytes(12) + b'\x08\x00'
ip = bytes([0x45, 0, 0, 40, 0, 0, 0, 0, 64, 6, 0, 0, 10, 0, 0, 1, 10, 0, 0, 2])
tcp = bytes([0, 80, 1, 187, 0, 0, 0, 1, 0, 0, 0, 2, 0x50, 0x18, 1, 0, 0, 0, 0, 0])
open(d + '/f0', 'wb').write(eth + ip + tcp)
open(d + '/f1', 'wb').write(bytes(12) + b'\x81\x00\x00\x05\x86\xdd' + bytes([0x60]) + bytes(5) + bytes([17, 64]) + bytes(32) + bytes(8))
EOF
  ;;
esac
log="$work/fuzz.log"
# no sanitizer: p2sh is safe Rust and the oracle (not a memory error) decides; ASan costs a factor of 20 here.
# Independent long-running jobs rather than -fork: process creation is very slow in this sandbox.
( cd "$VERIF/harness" && CARGO_TARGET_DIR="$TGT/fuzz" cargo +nightly fuzz build -s none "$t" >"$work/build.log" 2>&1 ) || { echo "INCONCLUSIVE: fuzz target $t does not build (see $work/build.log)"; exit 2; }
bin=$(ls "$TGT"/fuzz/*/release/"$t" 2>/dev/null | head -1)
[ -x "$bin" ] || { echo "INCONCLUSIVE: fuzz binary for $t not found"; exit 2; }
start=$(date +%s)
# (hard wall-clock limit from outside: libFuzzer's own timeout handler runs in signal context and was seen to
#  dead-lock on a futex after "ALARM: working on the last Unit", leaving one job asleep for ever)
( cd "$work" && timeout -s KILL $((secs + 90)) "$bin" "$corpus" -artifact_prefix="$art/" -max_total_time="$secs" -seed="$seed" -jobs="$jobs" -workers="$jobs" \
   -timeout=25 -rss_limit_mb=4096 -max_len=4096 -len_control=0 >"$log" 2>&1 )
pkill -KILL -f "release/$t $corpus" 2>/dev/null
end=$(date +%s)
runs=0
for l in "$work"/fuzz-*.log; do
  [ -f "$l" ] || continue
  n=$(grep -aoE '^#[0-9]+' "$l" | tail -1 | tr -dc '0-9'); runs=$((runs + ${n:-0}))
done
cov=$(cat "$work"/fuzz-*.log 2>/dev/null | grep -ao 'cov: [0-9]*' | tr -dc '0-9\n' | sort -n | tail -1)
ncorp=$(ls "$corpus" | wc -l)
code=0; nviol=0; nother=0
for f in "$art"/crash-*; do
  [ -f "$f" ] || continue
  "$TGT/harness/release/p2v" fuzzcase "$id" "$f"; rc=$?
  if [ $rc = 1 ]; then code=1; nviol=$((nviol+1)); fi
done
for f in "$art"/timeout-* "$art"/oom-*; do [ -f "$f" ] && nother=$((nother+1)); done
# a job that reported an ALARM but left no artifact (its handler hung and it was killed from outside)
alarms=$(cat "$work"/fuzz-*.log 2>/dev/null | grep -ac '^ALARM')
[ "$nother" = 0 ] && [ "${alarms:-0}" -gt 0 ] && nother=$alarms
if [ $code = 0 ] && [ $nother -gt 0 ]; then echo "INCONCLUSIVE: libFuzzer target $t reported $nother timeouts / out-of-memory inputs (kept in $art)"; code=2; fi
python3 - "$id" "$t" "${runs:-0}" "${cov:-0}" "$ncorp" "$((end-start))" "$jobs" "$nviol" "$nother" <<'EOF'
import json, sys
pid, t, runs, cov, ncorp, secs, jobs, nviol, nother = sys.argv[1:10]
p = f"/verif/evidence/{pid}.json"
try:
    d = json.load(open(p))
except Exception:
    sys.exit(0)
note = (f"coverage-guided stage: libFuzzer target {t} (harness/fuzz), {jobs} parallel jobs sharing one corpus, {secs} s, about {runs} executions, "
        f"{cov} coverage edges, corpus grown to {ncorp} inputs; {nviol} inputs judged violations by the property's oracle, {nother} timeouts/ooms")
d.setdefault("coverage", {}).setdefault("notes", [])
d["coverage"]["notes"] = [n for n in d["coverage"]["notes"] if not str(n).startswith("coverage-guided stage")] + [note]
json.dump(d, open(p, "w"), indent=1)
print(note)
EOF
[ $code = 0 ] && rm -rf "$work"
exit $code
