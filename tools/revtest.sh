#!/bin/bash
# usage: revtest.sh "<grep for fix commit subject>" <prop>...  — temporarily undo one fix commit and run checks (sensitivity)
pat="$1"; shift
h=$(git -C /repo log --format=%h --grep="$pat" | head -1)
[ -z "$h" ] && { echo "no commit matches"; exit 2; }
git -C /repo diff $h $h^ > /tmp/rev-$h.diff
echo "reverting $h: $(git -C /repo log --format=%s -1 $h)"
/verif/tools/seedtest.sh /tmp/rev-$h.diff "$@"
