#!/bin/bash
# usage: seedtest.sh <patch.diff> <prop> [<prop>...]   — apply a seeded change to /repo, run quick checks, undo
# SEED_REPO=<scratch worktree of /repo's HEAD>: run against that tree instead (P2V_REPO / P2V_TARGET point run.sh at it),
# so that seeded changes can be tried while long checks of the real /repo are running.
patch="$1"; shift
REPO="${SEED_REPO:-/repo}"
if [ -n "${SEED_REPO:-}" ]; then export P2V_REPO="$SEED_REPO" P2V_TARGET="${SEED_TARGET:-/tmp/sr/target}"; fi
cd "$REPO" || exit 2
if ! git diff --quiet; then echo "repo dirty"; exit 2; fi
if ! git apply "$patch" 2>/tmp/apply.err; then
  if ! git apply --3way "$patch" 2>>/tmp/apply.err; then echo "PATCH DOES NOT APPLY: $(head -3 /tmp/apply.err)"; git reset -q --hard HEAD; exit 3; fi
  git reset -q
fi
for p in "$@"; do
  out=$(cd /verif && ./run.sh check "$p" quick 2>&1)
  code=$?
  nv=$(echo "$out" | grep -c "^VIOLATION")
  echo "$p: exit=$code violations=$nv :: $(echo "$out" | grep -E "signature:" | head -3 | cut -c1-150 | tr '\n' ';')"
  echo "$out" | grep -E "INCONCLUSIVE" | head -2 | cut -c1-200
done
git checkout -- .
# restore evidence written against the mutated tree
[ -z "${SEED_REPO:-}" ] && cd /verif && git checkout -- evidence 2>/dev/null
