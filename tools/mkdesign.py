#!/usr/bin/env python3
"""Re-append notes/design-part2.md (the build report) as section 8 of DESIGN.md."""
p = '/verif/DESIGN.md'
s = open(p).read()
marker = '\n---------------------------------------------------------------------------\n\n## 8. Build report'
i = s.find(marker)
if i >= 0:
    s = s[:i]
s = s.rstrip('\n') + '\n' + open('/verif/notes/design-part2.md').read()
open(p, 'w').write(s)
print("DESIGN.md rebuilt,", s.count('\n'), "lines")
