#!/usr/bin/env python3
"""Re-append notes/design-part2.md (the build report) as section 8 of DESIGN.md."""
p = '/verif/DESIGN.md'
s = open(p).read()
marker = '\n---------------------------------------------------------------------------\n\n## 8. Build report'
i = s.find(marker)
if i >= 0:
    s = s[:i]
part = open('/verif/notes/design-part2.md').read()
# tables kept in files of their own (generated from seeded/*/meta.json)
import re, os
for m in set(re.findall(r'@@INCLUDE ([\w./-]+)@@', part)):
    part = part.replace('\n\n@@INCLUDE %s@@' % m, '\n@@INCLUDE %s@@' % m)  # a table continues without a blank line
    part = part.replace('@@INCLUDE %s@@' % m, open(os.path.join('/verif/notes', m)).read().rstrip('\n'))
s = s.rstrip('\n') + '\n' + part
open(p, 'w').write(s)
print("DESIGN.md rebuilt,", s.count('\n'), "lines")
