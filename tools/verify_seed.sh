#!/bin/bash
# usage: verify_seed.sh <PROP> <VARIANT> <dir with patch.diff(+patch.adapted.diff) demo.sh ...> [<prop to check> ...]
# Confirms a seeded change myself, in a scratch worktree of /repo's HEAD (never in /repo):
#   it applies, builds, passes the 184 repo tests, its demonstration fails with the change and passes without,
# then archives it under /verif/seeded/<PROP>/<VARIANT>/ with meta.json.
# The quick checks are run against it separately with tools/seedtest.sh (recorded by tools/seed_result.py).
set -u
prop="$1"; var="$2"; src="$3"
W=/tmp/sv/w
T=/tmp/sv/target
mkdir -p /tmp/sv
export CARGO_NET_OFFLINE=true RUST_BACKTRACE=0
if [ ! -d "$W" ]; then git -C /repo worktree add -q --detach "$W" HEAD || exit 2; fi
git -C "$W" checkout -q --detach "$(git -C /repo rev-parse HEAD)" 2>/dev/null
git -C "$W" reset -q --hard; git -C "$W" clean -qfd
patch="$src/patch.diff"
[ -f "$src/patch.adapted.diff" ] && patch="$src/patch.adapted.diff"
applied=plain
if ! git -C "$W" apply "$patch" 2>/tmp/sv/apply.err; then
  if git -C "$W" apply --3way "$patch" 2>>/tmp/sv/apply.err; then applied=3way; git -C "$W" reset -q; else echo "RESULT $prop/$var: PATCH-DOES-NOT-APPLY"; git -C "$W" reset -q --hard; exit 3; fi
fi
git -C "$W" diff > /tmp/sv/effective.diff
out=/verif/seeded/$prop/$var
mkdir -p "$out"
log=$out/verify.log
: > "$log"
echo "base: $(git -C /repo rev-parse --short HEAD) apply: $applied" >> "$log"
FEAT=""; CLEAN=/repo/target/debug/p2sh
# SEED_HOOKS=1: the demonstration drives the REPL through the scripted line source (feature verif_hooks)
if [ -n "${SEED_HOOKS:-}" ]; then FEAT="--features verif_hooks"; CLEAN=/verif/target/p2sh-bin/debug/p2sh; fi
( cd "$W" && CARGO_TARGET_DIR=$T cargo build --offline $FEAT 2>&1 | tail -2 ) >> "$log" 2>&1
if [ ! -x $T/debug/p2sh ] || ! ( cd "$W" && CARGO_TARGET_DIR=$T cargo build --offline $FEAT >/dev/null 2>&1 ); then echo "RESULT $prop/$var: BUILD-FAILS"; exit 4; fi
tests=$( cd "$W" && CARGO_TARGET_DIR=$T cargo test --offline 2>&1 | grep "test result" | head -1 )
echo "tests: $tests" >> "$log"
cp -r "$src"/. "$out"/ 2>/dev/null
cp /tmp/sv/effective.diff "$out/patch.effective.diff"
cp $T/debug/p2sh /tmp/sv/p2sh.mutated
demo_mut=na; demo_clean=na
if [ -f "$out/demo.sh" ]; then
  ( cd "$out" && timeout 120 sh ./demo.sh /tmp/sv/p2sh.mutated ) >> "$log" 2>&1; demo_mut=$?
  ( cd "$out" && timeout 120 sh ./demo.sh $CLEAN ) >> "$log" 2>&1; demo_clean=$?
fi
echo "demo with change: exit $demo_mut ; demo without: exit $demo_clean" >> "$log"
ok=no
case "$tests" in *"184 passed; 0 failed"*) [ "$demo_mut" != 0 ] && [ "$demo_mut" != na ] && [ "$demo_clean" = 0 ] && ok=yes;; esac
echo "RESULT $prop/$var: apply=$applied tests='$tests' demo_with_change=$demo_mut demo_without=$demo_clean confirmed=$ok"
python3 - "$prop" "$var" "$applied" "$tests" "$demo_mut" "$demo_clean" "$ok" <<'EOF'
import json, sys, os
prop, var, applied, tests, dm, dc, ok = sys.argv[1:8]
out = f"/verif/seeded/{prop}/{var}"
notes = ""
if os.path.exists(f"{out}/notes.md"):
    notes = open(f"{out}/notes.md").read()
title = notes.strip().splitlines()[0].lstrip("# ").strip() if notes.strip() else ""
meta = {"property": prop, "variant": var, "title": title,
        "needs_to_manifest": "see notes.md (written by the seeding agent)",
        "confirmed_by_me": {"worktree": "scratch worktree of /repo HEAD under /tmp/sv (removed afterwards)", "patch_applied": applied,
                            "cargo_build_offline": "ok", "cargo_test_offline": tests,
                            "demo_exit_with_change": dm, "demo_exit_without_change": dc, "confirmed": ok == "yes"},
        "files": sorted(os.listdir(out))}
if os.path.exists(f"{out}/meta.json"):
    old = json.load(open(f"{out}/meta.json"))
    for k in ("checks_run", "caught_by"):
        if k in old: meta[k] = old[k]
json.dump(meta, open(f"{out}/meta.json", "w"), indent=1)
EOF
