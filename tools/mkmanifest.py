#!/usr/bin/env python3
"""Regenerate MANIFEST.json from the table below (keeps it valid at all times)."""
import json, subprocess

HOOK_COMMITS = subprocess.run(["git", "-C", "/repo", "log", "--format=%H", "--grep=^verif hook:"],
                              capture_output=True, text=True).stdout.split()

# id -> (engine, technique, level text, level note, design ref)
CHECKS = {
 "C01": ("p2v-inproc", "bounded-exhaustive enumeration of short character/token sequences and of every Unicode scalar value in ten lexical positions + proptest token soup and mutated texts; totality oracle",
         "Every text of <=3 characters over the scanner's dispatch alphabet and every sequence of <=3 (quick) / <=4 (thorough) vocabulary tokens is pushed through the real scanner, parser and compiler in-process, plus proptest-generated token soup and mutated example programs; any panic, native crash or hang is a violation. Exploration, not proof: texts longer than the enumerated bound are only sampled.",
         "trusts that the in-process pipeline mirrors run_buf (compile only when no parse errors); nesting >64 not generated", "DESIGN.md §4 C01"),
 "C09": ("p2v-inproc", "exhaustive operator x operand-kind table over boundary values against a reference table, plus proptest random operands and relational consistency laws",
         "Every binary/unary operator applied to every ordered pair of a 56-value boundary pool (all kinds) is executed through the real pipeline and compared with an independently written reference table; consistency laws between < > <= >= and == are checked on every numeric pair; proptest adds random 64-bit / random-bit-pattern operands.",
         "reference table transcribed from the property statement and docs/language/operators.md (DESIGN.md Appendix A); don't-care zones listed there are accepted either way", "DESIGN.md §4 C09, Appendix A"),
 "C02": ("p2v-inproc", "proptest-driven type-directed program generator; differential against an independent reference interpreter (compile verdict, observation sequence, final value, runtime-error presence/class); fault injection for the must-reject clause",
         "Generated programs (literals incl. boundaries, all operators, let/assignment, arrays, maps, indexing, if/match as values, bounded loops with labelled jumps, functions, closures with private state, recursion through helpers, pure builtins) are rendered to text and run through the real scanner+parser+compiler+VM; an independent reference interpreter written from the property statement gives the expected observations. Programs with exactly one injected fault must be rejected by the compiler.",
         "trusts the reference interpreter (harness/src/hx/interp.rs, ops.rs, builtins_ref.rs); programs entering declared don't-care zones are executed for crashes only", "DESIGN.md §3.1, §4 C02"),
 "C03": ("p2v-inproc", "bounded-exhaustive operator-pair / prefix / postfix / assignment trees (the pairs again inside eleven parser surroundings) plus proptest random trees; metamorphic oracle: minimally parenthesised text (documented table) vs fully parenthesised text",
         "Every ordered pair of the 18 binary operators in both nesting positions, every prefix x binary and postfix combination and assignment chains are rendered with only the parentheses the documented precedence table requires and fully parenthesised; both texts must evaluate alike through the real pipeline. A case counts only if some wrong grouping would evaluate differently.",
         "relation between two runs of p2sh (a defect changing both identically is invisible; C02/C09 cover the absolute side); table transcribed from docs/language/expression-precedence.md", "DESIGN.md §4 C03"),
 "C04": ("p2v-inproc", "proptest scope-scenario generator (shadowing, sibling blocks, closures over block-locals/params/globals, calls after mutation); differential against an independent lexical resolver + reference interpreter",
         "Scope scenarios re-declaring a,b,c at several depths with reads/writes before, inside and after every block, functions and closures written inside blocks and called later; the reference resolver decides undefined-name vs accepted and the reference interpreter predicts the observed values (globals by reference, locals captured by value at closure creation).",
         "trusts the reference resolver/interpreter; `let x = <expr mentioning x>` and assignment to a function's own name inside its body are declared don't-care zones and not generated", "DESIGN.md §4 C04"),
 "C05": ("p2v-inproc", "bounded-exhaustive match/if tables plus proptest loop nests with labelled jumps; reference interpreter oracle",
         "Exhaustive scrutinee x pattern tables (ints 0..9 with every literal and range, chars, bytes, strings, booleans, cross-kind scrutinees), if/else-if chains over every truth assignment, every ordered pair of pattern kinds (reject iff mixed), and generated 1..3-deep loop nests with plain and labelled break/continue are compared with the reference interpreter.",
         "a range pattern applied to a scrutinee of another kind is a don't-care zone", "DESIGN.md §4 C05"),
 "C06": ("p2v-inproc", "exhaustive value-kind x truthiness-position table and all ordered pairs for && / || with side-effect probes; proptest nested logical trees; documented table as oracle",
         "27 representative values in every truthiness position (!v, !!v, if, else-if, while, &&, ||) and all 27x27 pairs for && and || with a probe around the right operand are checked against the documented truthiness table; the result must be the operand value and the probe must fire exactly when stated.",
         "the filter-pattern position is exercised through the real binary (each value and derived && / || / ! expressions as the pattern of a filter with and without an action)", "DESIGN.md §4 C06, §8.5"),
 "C07": ("p2v-inproc", "proptest statement sequences stepped REPL-style with the operand-stack height read through a hook after every top-level statement and around every single filter execution (filters driven in-process as run_filters does); 10^4-iteration loops must not overflow; named detector for the known finding",
         "Generated statement sequences (if/match as operands, branches ending in nested blocks/lets/nothing, break/continue inside operand positions) are compiled and run one top-level statement at a time the way the REPL does; the VM's stack height must be 0 after each. Loops of 10^4 iterations around generated statements must not report a stack overflow and must agree with the reference.",
         "needs hook VM::verif_sp; statement stepping replicates run_prompt via the public Compiler/VM API", "DESIGN.md §4 C07"),
 "C10": ("p2v-inproc", "exhaustive key-pair table (against reference equality and, metamorphically, against the implementation's own ==) plus proptest insert/lookup histories against an association-list model",
         "All ordered pairs of a 62-key pool (ints, integral/non-integral floats, signed zeros, NaN, bytes, chars, strings, booleans, null, builtins, nested arrays) are inserted under k1 and looked up with k2 through m[k], get, contains, insert and map literals; random histories of 1..40 operations are compared with an association list keyed by the reference equality.",
         "keys whose equality the reference leaves open are checked only against the implementation's own ==", "DESIGN.md §4 C10"),
 "C11": ("p2v-inproc", "exhaustive builtin x arity x argument-kind table against a contract table, effect programs against the reference interpreter, proptest round-trip laws",
         "Each of the 23 pure builtins is called with every representative (80 values of 12 kinds) at arity 1, every ordered pair at arity 2 and one-per-kind triples at arity 3; the result must satisfy the documented contract or be a runtime error naming the builtin. Round-trip laws (int/str, float/str, UTF-8 encode/decode, chars/join, sort as ordered permutation) are checked on random values.",
         "contract table transcribed from docs/language/builtins.md (DESIGN.md Appendix C) with its don't-care zones", "DESIGN.md §4 C11, Appendix C"),
 "C12": ("p2v-inproc", "proptest grammar-based generator of format strings and argument lists; differential against a reference renderer; malformed specifiers for crash-freedom",
         "Format strings generated from the specifier grammar (mixing indexed and positional specifiers, fills, widths, alignment, b/o/x/X) with random argument lists are rendered by format() in-process and compared with an independent reference renderer; malformed specifiers must not crash.",
         "print/println/eprint/eprintln are run through the real binary (text on the right stream, returned byte length); display of chars/bytes/containers is a don't-care zone", "DESIGN.md §4 C12, §8.5"),
 "C13": ("p2v-inproc", "proptest generator placing one failing single-line construct at a known line after random filler (functions, filters, multi-line literals, CRLF); oracle: reported line == constructed line",
         "Programs with 0..14 filler constructs followed by exactly one failing construct (66 kinds: division by zero, bad index/key, operand kinds, unary, non-function call, arity, every pure builtin, property access) at top level, in functions, closures, loops or nested expressions; the runtime error must carry the line the construct was written on.",
         "only single-line constructs are generated (the property's proviso); the [line N] prefix printed by the real binary is checked for script files and -c texts, also with leading blank lines", "DESIGN.md §4 C13, §8.5"),
 "C14": ("p2v-inproc", "exhaustive encode/decode round trip over every opcode and operand value; decoder walk of generated programs' bytecode; hand-assembled instruction streams at the corners of each operand range run by the real VM; programs constructed at, below and above each encoding limit",
         "All 17.4 million (opcode, operands) combinations round-trip through make/read_operands; generated programs' bytecode is walked with the decoder (valid opcodes, jump targets on instruction boundaries, constant indices in range); limit programs for constants, jump targets (8 constructs), locals, call arguments, captured variables and REPL-accumulated constants must be rejected above the limit and behave correctly at/below it.",
         "global-index and array/map-literal limit programs take minutes to compile and run in the thorough tier only", "DESIGN.md §4 C14"),
 "C15": ("p2v-inproc", "proptest structure-aware frame generator x random read-only access histories; identity oracle on the serialised packet (bytes in = bytes out), truncation sweeps at every length, same identity through pcap_write / write into scratch files",
         "Frames of every supported layer stack (incl. VLAN/QinQ, IPv4 and TCP options, IPv6-in-IPv4, truncated and corrupted frames) are wrapped in a packet through a hook constructor; a generated history of read-only accesses ($n, named layers, fields, payload, str()) runs through the real pipeline and the packet is then serialised in-process and through pcap_write/write: the bytes must equal record header + captured bytes, and no access may crash.",
         "needs hook PcapPacket::verif_new; the filter-mode route is run through the real binary (streams of generated frames, read-only filter programs, output stream must equal the input stream)", "DESIGN.md §4 C15, §8.5"),
 "C16": ("p2v-inproc", "per-field value sweeps and exhaustive dispatch-field enumeration (65536 EtherTypes, 256 protocols / next headers) over generated frames; differential against a reference bit-offset/width table and reference layer dispatch",
         "Every readable property of the Ethernet, VLAN, IPv4, IPv6, TCP and UDP objects is read from frames in which the field takes all (<= 8 bits) or boundary + random values with random surrounding bits and compared with the reference extraction; $n and the named layer properties must descend exactly into the layer the dispatch field selects; random structure-aware frames are read in full.",
         "reference table = DESIGN.md Appendix B (RFC 791/8200/9293/768, IEEE 802.1Q); TCP flags with non-zero reserved bits accept 8/9/12-bit readings", "DESIGN.md §4 C16, Appendix B"),
 "C17": ("p2v-inproc", "exhaustive (<= 12-bit fields) / boundary + random value sweeps per writable field over generated frames, proptest assignment histories; oracle = reference bit setter on the captured bytes + serialise-and-reparse round trip",
         "For every writable property x in-range values x frames of 8 stacks the script assigns and reads back; the serialised packet must equal the original with only the field's bit range replaced, and a packet rebuilt from those bytes must read every scalar property as the reference predicts. Invalid values must raise with the packet unchanged or be stored modulo 2^w with everything else unchanged. Histories of 2..8 assignments across layers; record fields; read-only version.",
         "payload / inner-layer reads after assigning a structural field (ihl, dataoff, totlen, len, type, proto, nextheader) are don't-care", "DESIGN.md §4 C17"),
 "C18": ("p2v-inproc", "bounded-exhaustive IPv6 compression shapes x case x digit style, boundary + random MAC/IPv4/IPv6 addresses, named malformations and proptest character edits; differential against strict and lenient reference parsers, through from_str directly and through property assignment",
         "Every position and length of the IPv6 '::' (36 shapes + uncompressed) in lower/upper/mixed case with minimal/padded/mixed digits must be accepted as the constructed address; displayed text assigned back must store the same bytes; texts with a missing/extra/out-of-range group, a second '::', ':::', stray separators or no digits must be rejected with a runtime error and an unchanged packet. Texts between the strict and the lenient reference are don't-care.",
         "IPv4-embedded IPv6 text, signs, extra leading zeros and '::' for zero groups are don't-care", "DESIGN.md §4 C18"),
 "C19": ("p2v-inproc", "proptest pcap-file generator x random interleavings of pcap_read_next / pcap_read_all(f[, n]); truncation at every byte offset; header corruption; write round trip; differential against a reference pcap reader",
         "Generated pcap files (both magics, any snaplen, record sizes placed so that records and record headers straddle the 8 KiB reader buffer) are read by generated scripts; every call result and the file object's header properties are compared with a reference reader. Small files are cut at every byte offset and headers are corrupted: exactly the complete records, then null or an error object, never a crash. Packets copied with pcap_write are parsed back by the reference reader and by p2sh.",
         "the global header of a written file and reads after the first error object on a corrupted file are don't-care; one open known finding (records above 65535 bytes)", "DESIGN.md §4 C19"),
 "C08": ("p2v-inproc", "bounded-exhaustive builtin x arity x boundary-value matrix and operator x operand matrix under catch_unwind, proptest programs with 15% failing operations, stress templates (recursion, locals, arity), and filter programs run through the real binary; oracle: the run ends as a value, a reported error or the status requested by exit",
         "Every builtin of the real table is called with 0..3 arguments from a 60-value boundary pool (all values and all ordered pairs, sampled triples), every operator on all pairs, generated programs with deliberately failing operations, recursion / many-locals / wrong-arity templates: no panic, native crash or hang. Filter programs with return/break/continue in actions, nested filters, failing patterns and actions and exit(n) are run through the binary on normal, empty and garbage streams: no signal, no panic text, exit status 0 or the requested one.",
         "memory requests beyond the machine (huge repetition counts / format widths) and printing self-containing containers are excluded as the statement allows; exit() is only exercised end to end", "DESIGN.md §4 C08"),
 "C20": ("p2v-e2e", "proptest generator of pcap streams x filter programs run through the real binary (with and without -s); differential against a reference filter-mode model built on the reference interpreter; byte-exact comparison of the output stream",
         "Generated streams (0..40 Ethernet frames, both magics, varied global headers) are piped into generated filter programs (patterns over NP/PL/WL/TSS/TSU, record and header fields, globals, calls; actions updating globals/locals, printing, assigning fields; action-less and pattern-less filters; end filter). stdout without -s must equal the input global header plus exactly the selected records as modified so far; with -s exactly the printed text; the printed text must equal the model's in both runs.",
         "trusts the reference interpreter for expression/statement semantics (validated against p2sh by C02); runtime errors inside filters are don't-care", "DESIGN.md §4 C20"),
 "C21": ("p2v-inproc", "proptest generator of file contents x read-call histories against a cursor model (in-process), the same histories on stdin of the real binary fed by generated pipe schedules, and write episodes per open mode against a file model",
         "Contents sized around the 4096/8192-byte buffers (binary and multi-byte UTF-8 text with long lines) are read by histories of read / read(n) / read_line / read_to_string; every result must be the next slice of the content. The same through a pipe with chunked, delayed writes. Episodes opening one path with r/w/a/x on existing and missing files and writing strings, bytes, arrays and large data must leave exactly the implied bytes at program end.",
         "read_line / read_to_string on invalid UTF-8, read_to_string(stdin) and exit() with unflushed writers are don't-care", "DESIGN.md §4 C21"),
 "C22": ("p2v-inproc", "proptest sequences of I/O builtin calls aimed at failing targets (ENOENT, EISDIR, EEXIST, ENOTDIR, EIO via /proc/self/mem, ENOSPC via /dev/full, garbage/short/empty pcap headers), in-process and through the real binary with failing stdin/stdout; oracle: is_error of every must-fail result, no runtime error, no crash",
         "Each scenario logs is_error of the result of open / read / read_line / read_to_string / write / flush / pcap_open / pcap_write on a prepared failing target; must-fail calls have to return an error object and the script has to reach its end. The real binary is run with stdin = garbage, empty, short, a directory and stdout = /dev/full for pcap_stream, read, read_line, write, flush, pcap_write.",
         "EACCES is provoked by running the binary as uid 65534; small buffered writes to a full device may succeed if the following flush reports the failure", "DESIGN.md §4 C22, §8.5"),
 "C23": ("p2v-e2e", "proptest generator of REPL histories driven through the real run_prompt loop (scripted line source hook); oracle: reference interpreter run entry by entry over one environment plus a static resolver for rejection; differential against one `p2sh -c` program of the accepted entries",
         "Histories of 1..12 entries (definitions, redefinitions, functions reading/updating globals, echoed expressions, continuation lines, parse errors, compile errors that mention, redefine or newly define names before the error, runtime errors between side effects, a probe after every rejected entry) are fed to the hooked binary; per-entry stdout must equal the model's, rejected entries print nothing on stdout and something on stderr; for clean histories the accepted entries as one -c program print the same text.",
         "needs hook: scripted line source for Prompt::show; the echo of an entry that does not end in an expression statement is don't-care", "DESIGN.md §4 C23"),
 "C24": ("p2v-e2e", "proptest generator of filter-free programs x argument vectors x invocation modes (script file, -c, '#!' file run via p2sh and executed directly, REPL); metamorphic/differential oracle between the modes",
         "The same generated program (C02 generator with a printing probe, optional injected parse/compile/runtime error, final statement of known display) is run from a file, with -c and from a file with a shebang line; stdout must agree except for the documented echo of the final expression value under -c, stderr and exit status must agree (line numbers + 1 under a shebang line), argv must be [path, args..] / [args..] / [] (REPL).",
         "what -c prints after a runtime error or when the last statement is not an expression statement is don't-care", "DESIGN.md §4 C24"),
}

FUZZ = {"C01", "C08", "C12", "C16", "C18", "C19"}

NOT_APPLICABLE = {
}

def main():
    props = [json.loads(l) for l in open("/verif/properties.jsonl")]
    checks = []
    for p in props:
        pid = p["id"]
        if pid not in CHECKS:
            continue
        engine, tech, text, note, ref = CHECKS[pid]
        checks.append({
            "property_id": pid,
            "quick_cmd": f"./run.sh check {pid} quick",
            "thorough_cmd": f"./run.sh check {pid} thorough",
            "evidence_file": f"evidence/{pid}.json",
            "replay_cmd_template": "./run.sh replay {path}",
            "engine": engine,
            "level_claimed": {"category": "exploration", "text": text, "design_ref": ref},
            "level_note": note,
            "technique": tech + ("; the thorough tier adds a coverage-guided libFuzzer stage (harness/fuzz target %s, judged by the same oracle)" % pid.lower() if pid in FUZZ else ""),
        })
    na = []
    for p in props:
        pid = p["id"]
        if pid not in CHECKS:
            na.append({"property_id": pid, "reason": NOT_APPLICABLE.get(pid, "check not built yet in this round (planned: see DESIGN.md §4); not claimed until it runs clean on the unchanged tree")})
    m = {
        "version": 1,
        "setup_cmd": "./run.sh setup",
        "hooks": {
            "guard": "verif_hooks",
            "enable": "cargo feature: `cargo build --features verif_hooks` for the binary; the harness crate's same-named default feature for the in-process modules",
            "baseline_off_cmd": "cd /repo && cargo test --workspace --no-fail-fast --offline",
            "source_commits": HOOK_COMMITS,
            "add_only": True,
        },
        "engines": [
            {"name": "p2v-inproc", "path": "harness/", "serves_properties": sorted(k for k, v in CHECKS.items() if "inproc" in v[0]),
             "kind_free_text": "Rust harness crate that compiles the real p2sh modules in by path and drives them with proptest (choice-sequence generators) and bounded-exhaustive enumerators, 16 worker processes"},
            {"name": "p2v-e2e", "path": "harness/", "serves_properties": sorted([k for k, v in CHECKS.items() if "e2e" in v[0]] + [k for k in ("C06", "C08", "C12", "C13", "C15", "C19", "C21", "C22") if k in CHECKS]),
             "kind_free_text": "same harness driving the real p2sh binary (dev profile, hooks on) as a subprocess with generated scripts, argv, stdin streams"},
        ],
        "checks": checks,
        "not_applicable": na,
        "notes": "All commands run from /verif, rebuild from /repo's working tree (harness includes /repo/src by path), honour VERIF_SEED, exit 0/1/2 = held / VIOLATION / inconclusive.",
    }
    json.dump(m, open("/verif/MANIFEST.json", "w"), indent=1)
    print("MANIFEST.json:", len(checks), "checks,", len(na), "not claimed")

main()
