#!/usr/bin/env python3
"""Regenerate MANIFEST.json from the table below (keeps it valid at all times)."""
import json, subprocess

HOOK_COMMITS = subprocess.run(["git", "-C", "/repo", "log", "--format=%H", "--grep=^verif hook:"],
                              capture_output=True, text=True).stdout.split()

# id -> (engine, technique, level text, level note, design ref)
CHECKS = {
 "C01": ("p2v-inproc", "bounded-exhaustive enumeration of short character/token sequences + proptest token soup and mutated texts; totality oracle",
         "Every text of <=3 characters over the scanner's dispatch alphabet and every sequence of <=3 (quick) / <=4 (thorough) vocabulary tokens is pushed through the real scanner, parser and compiler in-process, plus proptest-generated token soup and mutated example programs; any panic, native crash or hang is a violation. Exploration, not proof: texts longer than the enumerated bound are only sampled.",
         "trusts that the in-process pipeline mirrors run_buf (compile only when no parse errors); nesting >64 not generated", "DESIGN.md §4 C01"),
 "C09": ("p2v-inproc", "exhaustive operator x operand-kind table over boundary values against a reference table, plus proptest random operands and relational consistency laws",
         "Every binary/unary operator applied to every ordered pair of a 56-value boundary pool (all kinds) is executed through the real pipeline and compared with an independently written reference table; consistency laws between < > <= >= and == are checked on every numeric pair; proptest adds random 64-bit / random-bit-pattern operands.",
         "reference table transcribed from the property statement and docs/language/operators.md (DESIGN.md Appendix A); don't-care zones listed there are accepted either way", "DESIGN.md §4 C09, Appendix A"),
}

NOT_APPLICABLE = {
}

def main():
    props = [json.loads(l) for l in open("/verif/properties.jsonl")]
    checks = []
    for p in props:
        pid = p["id"]
        if pid not in CHECKS:
            continue
        engine, tech, text, note, ref = CHECKS[pid]
        checks.append({
            "property_id": pid,
            "quick_cmd": f"./run.sh check {pid} quick",
            "thorough_cmd": f"./run.sh check {pid} thorough",
            "evidence_file": f"evidence/{pid}.json",
            "replay_cmd_template": "./run.sh replay {path}",
            "engine": engine,
            "level_claimed": {"category": "exploration", "text": text, "design_ref": ref},
            "level_note": note,
            "technique": tech,
        })
    na = []
    for p in props:
        pid = p["id"]
        if pid not in CHECKS:
            na.append({"property_id": pid, "reason": NOT_APPLICABLE.get(pid, "check not built yet in this round (planned: see DESIGN.md §4); not claimed until it runs clean on the unchanged tree")})
    m = {
        "version": 1,
        "setup_cmd": "./run.sh setup",
        "hooks": {
            "guard": "verif_hooks",
            "enable": "cargo feature: `cargo build --features verif_hooks` for the binary; the harness crate's same-named default feature for the in-process modules",
            "baseline_off_cmd": "cd /repo && cargo test --workspace --no-fail-fast --offline",
            "source_commits": HOOK_COMMITS,
            "add_only": True,
        },
        "engines": [
            {"name": "p2v-inproc", "path": "harness/", "serves_properties": sorted(k for k, v in CHECKS.items() if "inproc" in v[0]),
             "kind_free_text": "Rust harness crate that compiles the real p2sh modules in by path and drives them with proptest (choice-sequence generators) and bounded-exhaustive enumerators, 16 worker processes"},
            {"name": "p2v-e2e", "path": "harness/", "serves_properties": sorted(k for k, v in CHECKS.items() if "e2e" in v[0]),
             "kind_free_text": "same harness driving the real p2sh binary (dev profile, hooks on) as a subprocess with generated scripts, argv, stdin streams"},
        ],
        "checks": checks,
        "not_applicable": na,
        "notes": "All commands run from /verif, rebuild from /repo's working tree (harness includes /repo/src by path), honour VERIF_SEED, exit 0/1/2 = held / VIOLATION / inconclusive.",
    }
    json.dump(m, open("/verif/MANIFEST.json", "w"), indent=1)
    print("MANIFEST.json:", len(checks), "checks,", len(na), "not claimed")

main()
