#!/usr/bin/env python3
"""show violations from a check output: showv.py <outfile> [maxlines]"""
import sys, json, re
out = open(sys.argv[1]).read()
maxl = int(sys.argv[2]) if len(sys.argv) > 2 else 40
for m in re.finditer(r"VIOLATION property=(\S+) replay=(\S+)", out):
    j = json.load(open(m.group(2)))
    print("=" * 100)
    print(j["signature"], "  [", m.group(2).split("/")[-1], "]")
    print("\n".join(j["detail"].split("\n")[:maxl]))
