#!/usr/bin/env python3
"""Register a finding in known_findings.json from a replay file.
usage: finding.py <prop> <id> <open|fixed> <commit|-> <replay-file-or-sig-substring> <what...>
The replay file is copied to regress/<prop>/<id>.json. A fixed entry suppresses nothing:
its stored case is replayed on every run and must pass."""
import json, sys, os, glob, shutil
prop, fid, status, commit, src = sys.argv[1:6]
what = " ".join(sys.argv[6:])
root = "/verif"
if not os.path.exists(src):
    cands = []
    for f in sorted(glob.glob(f"{root}/evidence/replay/{prop}-*.json")):
        j = json.load(open(f))
        if src in j.get("signature", "") or src in j.get("detail", ""):
            cands.append(f)
    if not cands:
        sys.exit(f"no replay file matches {src!r}")
    src = cands[0]
j = json.load(open(src))
os.makedirs(f"{root}/regress/{prop}", exist_ok=True)
dst = f"regress/{prop}/{fid}.json"
json.dump(j, open(f"{root}/{dst}", "w"), indent=1, ensure_ascii=False)
kf = f"{root}/known_findings.json"
L = json.load(open(kf)) if os.path.exists(kf) else []
L = [e for e in L if e["id"] != fid]
entry = (f"fixed: property={prop} {commit} {what}" if status == "fixed" else f"KNOWN-FINDING: property={prop} {fid}: {what}")
L.append({"property": prop, "id": fid, "status": status, "commit": None if commit == "-" else commit,
          "signature": j["signature"], "replay": dst, "what": what, "entry": entry})
L.sort(key=lambda e: (e["property"], e["id"]))
json.dump(L, open(kf, "w"), indent=1, ensure_ascii=False)
print("registered", fid, "sig:", j["signature"])
